"""C08 - all rows of a table share one right edge and proportional columns.

R08.1 provenance of every Cell.width and of the table width W handed to Utils._col_widths;
R08.2 column-space agreement between frames and width vectors (FULL = original columns,
REDUCED = displayed columns); R08.3 width slicing with the removed index set of the original frame;
R08.4 normal form of Utils._col_widths and of the twip conversion of boundaries; R08.5 default /
broadcast / inherited col_rel_width in RTFDocument.__init__.

R08.1(b) and R08.3 are structural / dataflow rules; the others read the terms of a symbolic evaluation
(tablecore.TDT) of the function concerned: every input is an uninterpreted symbol, loops over symbolic
collections are one generic iteration, all valuations of the consulted conditions are enumerated.
"""
from __future__ import annotations

import ast

from ..pm import AnalysisError, dotted, unparse, walk_no_nested
from ..report import Ctx
from . import tablecore as T
from .tablecore import AttrSym, CallSym, Carried, CompSym, ElemSym, FmtSym, Init, LinSym, OpSym, SubSym, Sym, lin_of, lin_sub, path_of, tparts


ROW_ENCODERS = {
    "encode_column_header": (2, "page_col_width"), "encode_footnote": (2, "page_col_width"), "encode_source": (2, "page_col_width"),
    "encode_spanning_row": (1, "page_width"),
}


def _is_page_width(e: ast.AST, fn: ast.AST):
    """classify a width expression: 'ok' (rtf_page.col_width, possibly with the dead 8.5 fallback), ('bad', why) or ('?', text)"""
    from ..astmatch import alternatives, leaves
    verdicts = []
    for w in alternatives(e, fn):
        lv = set(leaves(w))
        txt = unparse(w)
        page = {x for x in lv if x.endswith(".rtf_page.col_width") or x == "rtf_page.col_width"}
        arith = any(isinstance(n, ast.BinOp) for n in ast.walk(w))
        calls = [dotted(n.func) for n in ast.walk(w) if isinstance(n, ast.Call)]
        rest = lv - page - {"8.5", "None"}
        if page and not rest and not arith and not calls:
            verdicts.append(("ok", txt))
        elif not page and not rest and not calls:
            verdicts.append(("bad", f"`{txt}`: a fixed width"))
        elif any(x.split(".")[-1] in ("width", "height", "margin") or ".rtf_page." in x and not x.endswith(".col_width") for x in rest) or (page and arith) \
                or any(c in ("min", "max", "sum") for c in calls):
            verdicts.append(("bad", f"`{txt}`"))
        else:
            verdicts.append(("?", txt))
    return verdicts


def r08_1(ctx: Ctx) -> None:
    from ..callgraph import CallGraph
    pm = ctx.pm
    T.declare(ctx)
    ctx.explain("[R08.1] (a) the width argument of the generic Cell built by TableAttributes._encode / encode_spanning_row is read off their symbolic evaluation; (b) the width "
                "argument at the call sites of the row encoders is decided structurally (the expression is expanded through temporaries and if/else arms and classified by "
                "its leaves); (c) inside encode_column_header / encode_footnote / encode_source every path that encodes table rows is evaluated symbolically: the widths "
                "handed to _encode are Utils._col_widths(the component's own col_rel_width, the width parameter); (d) the same for the body in _encode_body_section.")
    # (a) the right boundary of every cell that is built
    T.cell_width_agreement(ctx, "R08.1")
    enc = pm.func("TableAttributes._encode")
    sp = pm.func("RTFEncodingService.encode_spanning_row")
    cg = CallGraph(pm)
    covered = cg.reachable([enc.short, sp.short])
    for fi in pm.iter_funcs():
        root = fi
        while root.parent is not None:
            root = root.parent
        if fi.short in covered or root.short in covered or root.short in (enc.short, sp.short):
            continue
        for c in walk_no_nested(fi.node):
            if isinstance(c, ast.Call) and dotted(c.func) == "Cell":
                ctx.instance("R08.1", fi.where(c), f"{fi.short}: Cell(...) built outside the two row builders")
                ctx.gap("R08.1", f"{fi.short} builds a Cell outside TableAttributes._encode / encode_spanning_row: its width could not be related to the table's column boundaries")
    # (b) width argument at the call sites of the row encoders: rtf_page.col_width of the document being encoded
    for fi in pm.iter_funcs():
        if fi.name in ROW_ENCODERS:
            continue
        for c in walk_no_nested(fi.node):
            if isinstance(c, ast.Call) and isinstance(c.func, ast.Attribute) and c.func.attr in ROW_ENCODERS:
                nm = c.func.attr
                pos, kwname = ROW_ENCODERS[nm]
                target = pm.funcs.get("RTFEncodingService." + nm)
                if target is not None:
                    names = [a.arg for a in target.node.args.args][1:]
                    if kwname in names:
                        pos = names.index(kwname)
                arg = next((k.value for k in c.keywords if k.arg == kwname), None)
                if arg is None and pos is not None and len(c.args) > pos and not any(isinstance(a, ast.Starred) for a in c.args):
                    arg = c.args[pos]
                txt = unparse(arg) if arg is not None else "<missing>"
                ctx.instance("R08.1", fi.where(c), f"{fi.short}: {nm}(…, {kwname}={txt})")
                if arg is None:
                    if any(k.arg is None for k in c.keywords) or any(isinstance(a, ast.Starred) for a in c.args):
                        ctx.gap("R08.1", f"{fi.short}: the width handed to {nm} is passed through */** and could not be determined")
                    else:
                        ctx.violation("R08.1", fi.short, f"{nm} width {txt}", fi.where(c), f"{fi.short}: {nm} is called without the table width (rtf_page.col_width of the document being encoded)")
                    continue
                vs = _is_page_width(arg, fi.node)
                for kind, why in vs:
                    if kind == "bad":
                        ctx.violation("R08.1", fi.short, f"{nm} width {txt}", fi.where(c), f"{fi.short}: {nm} is laid out in {why}, not in rtf_page.col_width of the document being encoded")
                    elif kind == "?":
                        ctx.gap("R08.1", f"{fi.short}: the width `{why[:60]}` handed to {nm} could not be traced to rtf_page.col_width")
    # (c) inside the encoders the width reaches Utils._col_widths unchanged, together with the component's own col_rel_width
    for short, wparam, comp_pos in (("RTFEncodingService.encode_column_header", "page_col_width", 1), ("RTFEncodingService.encode_footnote", "page_col_width", 0),
                                    ("RTFEncodingService.encode_source", "page_col_width", 0)):
        fi = pm.func(short)
        ps = T._pos_params(fi)
        if wparam not in ps or len(ps) <= comp_pos:
            ctx.gap("R08.1", f"{short}: parameter {wparam} / the component parameter not found")
            continue
        p_comp = ps[comp_pos]
        try:
            dt = T.TDT(pm, watch={"_col_widths", "_encode", "_encode_text", "DataFrame"}, passthrough={"_set_default"})
            leaves = T.whole(dt, fi)
            T.cover(ctx, f"{short} (whole body over a symbolic component and width)", leaves)
        except AnalysisError as e:
            ctx.gap("R08.1", f"{short} could not be evaluated: {e}")
            continue
        seen = set()
        n_enc = 0
        for v, env, eff, outcome in leaves:
            encs = [e for e in eff if e[0] == "call" and e[1] == "_encode"]
            for e in encs:
                cw = T._kwarg(e, "col_widths", 1)
                key = path_of(cw)
                if key in seen:
                    continue
                seen.add(key)
                ctx.instance("R08.1", fi.where(e[5]), f"{short}: rows encoded with widths `{path_of(cw)[:110]}`")
                if cw is None:
                    if any(k == f"{wparam} is None" and x for k, x in v.items()):
                        continue                        # no width given at all: not a table layout this property speaks about (call sites always pass one, see (b))
                    ctx.violation("R08.1", short, "no _col_widths", fi.where(e[5]), f"{short} encodes table rows without column boundaries although a table width was given")
                    continue
                n_enc += 1
                if not (isinstance(cw, CallSym) and cw.meth == "_col_widths"):
                    if isinstance(cw, Sym) and not path_of(cw).startswith("?"):
                        ctx.violation("R08.1", short, "no _col_widths", fi.where(e[5]), f"{short} no longer derives boundaries from relative widths and the table width: rows are encoded with widths `{path_of(cw)[:120]}`")
                    else:
                        ctx.gap("R08.1", f"{short}: widths `{path_of(cw)[:60]}` handed to _encode could not be evaluated")
                    continue
                r_, w_ = T._term_arg(cw, "rel_widths", 0), T._term_arg(cw, "col_width", 1)
                w_ = T.unwrap(w_)
                r_ = T.unwrap(r_)
                if not (isinstance(w_, Init) and w_.path == wparam):
                    if isinstance(w_, (int, float)) or (isinstance(w_, (OpSym, LinSym)) and wparam in T.roots(w_)) or isinstance(w_, AttrSym):
                        ctx.violation("R08.1", short, f"_col_widths width {path_of(w_)[:60]}", fi.where(e[5]), f"{short}: column boundaries are scaled to `{path_of(w_)[:80]}` instead of the table width it was given")
                    else:
                        ctx.gap("R08.1", f"{short}: the width `{path_of(w_)[:60]}` handed to Utils._col_widths could not be evaluated")
                own = isinstance(r_, AttrSym) and r_.attr == "col_rel_width" and isinstance(r_.base, Init) and r_.base.path == p_comp
                ones = isinstance(r_, OpSym) and r_.op == "*" and any(isinstance(x, list) and x == [1] for x in (r_.left, r_.right)) and not any(isinstance(p, AttrSym) and p.attr == "col_rel_width" for p in tparts(r_))
                if not (own or ones):
                    foreign = [p for p in tparts(r_) if isinstance(p, AttrSym) and p.attr == "col_rel_width" and not (isinstance(p.base, Init) and p.base.path == p_comp)]
                    if foreign:
                        ctx.violation("R08.1", short, f"_col_widths rel {path_of(r_)[:60]}", fi.where(e[5]), f"{short}: boundaries are not derived from the component's own col_rel_width but from `{path_of(r_)[:80]}`")
                    else:
                        ctx.gap("R08.1", f"{short}: relative widths `{path_of(r_)[:60]}` not recognised")
        if not n_enc:
            ctx.gap("R08.1", f"{short}: no path that encodes table rows with column widths was re-identified")
    T.body_section_widths(ctx, "R08.1")
    ctx.floor("R08.1", 13)


def r08_2(ctx: Ctx) -> None:
    """auto-populated header text lives in REDUCED column space; its widths must too.  One generic iteration of the header loop of
    _render_column_headers (symbolic header, document and page): on every path where the header text is filled in from the page's
    displayed columns, the header's col_rel_width is re-bound to the page's (reduced) attributes - unless the path established that
    the page carries no usable widths."""
    pm = ctx.pm
    T.declare(ctx)
    fi = pm.func("PageRenderer._render_column_headers")
    fn = fi.node
    ps = T._pos_params(fi)
    if len(ps) != 2:
        ctx.gap("R08.2", "_render_column_headers: signature (self, document, page) not recognised")
        return
    p_doc, p_page = ps
    calls = [c for c in walk_no_nested(fn) if isinstance(c, ast.Call) and dotted(c.func).split(".")[-1] == "encode_column_header"]
    loops = [lp for lp in walk_no_nested(fn) if isinstance(lp, ast.For) and any(any(x is c for x in ast.walk(lp)) for c in calls)]
    loops = [lp for lp in loops if not any(m is not lp and any(x is lp for x in ast.walk(m)) for m in loops)]
    if len(loops) != 1:
        ctx.gap("R08.2", f"_render_column_headers: {len(loops)} loops that encode a header (1 expected)")
        return
    lp = loops[0]
    try:
        dt = T.TDT(pm, watch={"encode_column_header", "update_row", "DataFrame"}, inline={"is_single_body"})
        leaves = T.run_block(dt, T.temps_for(fn, lp.body) + lp.body, T.sym_env(fi), fi)
        T.cover(ctx, "PageRenderer._render_column_headers (one generic header of the header loop)", leaves)
    except AnalysisError as e:
        ctx.gap("R08.2", f"_render_column_headers: the header loop could not be evaluated: {e}")
        return
    page_cols = f"{p_page}.data.columns"
    n_auto = 0
    seen = set()
    for v, env, eff, outcome in leaves:
        encs = [e for e in eff if e[0] == "call" and e[1] == "encode_column_header"]
        if not encs:
            continue
        text_stores = [e for e in eff if e[0] == "store" and e[2] == "text" and any(isinstance(p, AttrSym) and p.path == page_cols for p in tparts(e[3]))]
        if not text_stores:
            continue
        n_auto += 1
        hdr = text_stores[0][1]
        wst = [e for e in eff if e[0] == "store" and e[2] == "col_rel_width" and path_of(e[1]) == path_of(hdr)]
        if wst:
            val = wst[-1][3]
            srcs = [p for p in tparts(val) if isinstance(p, AttrSym) and p.attr == "col_rel_width"]
            key = path_of(val)
            if key in seen:
                continue
            seen.add(key)
            ctx.instance("R08.2", fi.where(wst[-1][4]), f"automatic header (text from {page_cols}): col_rel_width <- `{path_of(val)[:80]}`")
            if any(p_page in T.roots(p) and any(isinstance(q, AttrSym) and q.attr in ("table_attrs", "final_body_attrs") for q in tparts(p)) for p in srcs):
                continue
            if any(p_doc in T.roots(p) for p in srcs) or not srcs:
                ctx.violation("R08.2", fi.short, "auto header widths from " + path_of(val)[:60], fi.where(wst[-1][4]),
                              f"automatic header widths are `{path_of(val)[:80]}`, not the page's reduced attributes (page.table_attrs.col_rel_width): the header texts are the displayed columns")
            else:
                ctx.gap("R08.2", f"_render_column_headers: widths `{path_of(val)[:60]}` given to the automatic header could not be traced to the page's attributes")
            continue
        # no re-binding of the widths on this path: acceptable only if the path found the page without usable widths
        excused = False
        for key, val in v.items():
            rec = dt.cmp.get(key)
            if rec is None:
                continue
            about = [p for x in (rec[1], rec[2]) for p in tparts(x) if isinstance(p, AttrSym) and p.attr in ("table_attrs", "final_body_attrs", "col_rel_width") and p_page in T.roots(p)]
            if about and ((rec[0] == "truth" and not val) or (rec[0] == "is None" and val) or (rec[0] is ast.Eq and not val) or (rec[0] is ast.NotEq and val)):
                excused = True
        if ("plain", excused) in seen:
            continue
        seen.add(("plain", excused))
        ctx.instance("R08.2", fi.where(text_stores[0][4]), f"automatic header (text from {page_cols}) keeps its inherited col_rel_width on the path [{T._fmt(v)[:120]}]; page has no usable widths: {excused}")
        if not excused:
            ctx.violation("R08.2", fi.short, "auto header widths stay in full column space", fi.where(text_stores[0][4]),
                          "the automatic header takes its texts from the page's displayed columns (page_by/subline_by columns removed) but keeps the col_rel_width it "
                          "inherited from the body for ALL columns: after column removal the header cells no longer line up with the data columns and end at a different right edge")
    if not n_auto and not ctx.deferred_errors:
        ctx.gap("R08.2", "the automatic column header (text filled in from the page's displayed columns) was not re-identified on any path")


def _monomial(t):
    """(numerator factor paths, denominator factor paths) of a product / quotient term"""
    if isinstance(t, OpSym) and t.op == "*":
        a, b = _monomial(t.left), _monomial(t.right)
        return a[0] + b[0], a[1] + b[1]
    if isinstance(t, OpSym) and t.op == "/":
        a, b = _monomial(t.left), _monomial(t.right)
        return a[0] + b[1], a[1] + b[0]
    if isinstance(t, LinSym) and len(t.lin) == 1 and t.lin[0][0] != "" and len(t.terms) == 1:
        k = t.lin[0][1]
        a = _monomial(t.terms[0])
        return a[0] + ([repr(k)] if k != 1 else []), a[1]
    return [path_of(t)], []


_ROUNDING = ("round", "int", "floor", "ceil", "trunc", "_inch_to_twip", "inch_to_twip")


def _unrounded(t):
    """x if the term is round(x) / int(x) / a unit conversion helper applied to x, else None"""
    if isinstance(t, CallSym) and t.meth in _ROUNDING and t.args:
        return t.args[0]
    return None


def r08_4(ctx: Ctx) -> None:
    """Utils._col_widths returns, in column order, the running sum of rel_width_i * col_width / sum(rel_widths) (so the last boundary is
    col_width), and a cell's \\cellx is round(width * 1440).  Both are compared as symbolic expressions: one generic element of
    rel_widths, accumulator symbolic on entry (0 before the loop), the emitted boundary = accumulator + w * col_width / sum(rel_widths) =
    the accumulator's new value; the \\cellx argument is the shared inch->twip conversion (inlined) of self.width."""
    pm = ctx.pm
    T.declare(ctx)
    fi = pm.func("Utils._col_widths")
    ps = T._pos_params(fi)
    done = False
    if len(ps) != 2:
        ctx.gap("R08.4", "Utils._col_widths: signature (rel_widths, col_width) not recognised")
    else:
        p_rel, p_w = ps
        try:
            dt = T.TDT(pm, watch={"append", "extend"})
            leaves = T.whole(dt, fi)
            T.cover(ctx, "Utils._col_widths (whole body; one generic relative width, accumulator symbolic on entry)", leaves)
        except AnalysisError as e:
            leaves = []
            ctx.gap("R08.4", f"Utils._col_widths could not be evaluated: {e}")
        for v, env, eff, outcome in leaves:
            ret = T._ret(outcome)
            E = elem = src = new_acc = None
            if isinstance(ret, CompSym) and ret.kind == "list":
                E, elem, src = ret.elt, ret.var, ret.source
                acc = [p for p in tparts(E) if isinstance(p, Carried)]
                new_acc = env.get(acc[0].path) if acc else None
            elif isinstance(ret, list) and len(ret) == 1:
                sps = [sp for sp in T.loop_spans(eff) if any(x is sp["elem"] for x in tparts(ret[0]))]
                if len(sps) == 1:
                    E, elem, src = ret[0], sps[0]["elem"], sps[0]["it"]
                    acc = [p for p in tparts(E) if isinstance(p, Carried)]
                    new_acc = sps[0]["end_env"].get(acc[0].path) if acc else None
            r0 = T.unwrap(ret, names=("list", "tuple"))
            post = None

            def running_sums(t):
                """the comprehension C of summands if t is the sequence of running sums x0, x0+x1, ... of C: accumulate(C), or
                list(accumulate(C, initial=0))[1:] (the leading 0 dropped again)"""
                t = T.unwrap(t, names=("list", "tuple"))
                drop = False
                if isinstance(t, T.SliceSym) and t.lo == 1 and t.hi is None:
                    t, drop = T.unwrap(t.base, names=("list", "tuple")), True
                if isinstance(t, CallSym) and t.recv is None and t.meth == "accumulate" and len(t.args) == 1 and isinstance(T.unwrap(t.args[0], names=("list", "tuple")), CompSym):
                    kw = dict(t.kw)
                    init0 = "initial" in kw and isinstance(kw["initial"], (int, float)) and not isinstance(kw["initial"], bool) and kw["initial"] == 0
                    if (not kw and not drop) or (set(kw) == {"initial"} and init0 and drop):
                        c_ = T.unwrap(t.args[0], names=("list", "tuple"))
                        return c_ if c_.elt is not None else None
                return None
            comp = running_sums(r0)
            if comp is None and isinstance(ret, CompSym) and ret.elt is not None and running_sums(ret.source) is not None:
                comp = running_sums(ret.source)            # a map over the running sums: [f(s) for s in accumulate(C)]
                post = None if ret.elt is ret.var else ret
                E = None
            if comp is not None and post is not None:
                # the running sum is taken over converted summands and converted back afterwards
                inner = _unrounded(comp.elt)
                num, den = _monomial(inner if inner is not None else comp.elt)
                facts = {x for x in num + den}
                done = True
                ctx.instance("R08.4", fi.where(), f"_col_widths: boundaries `{path_of(post.elt)[:60]}` of the running sums of `{path_of(comp.elt)[:90]}`")
                if inner is not None and comp.var.path in facts and p_w in facts:
                    ctx.violation("R08.4", fi.short, "formula: summand " + path_of(comp.elt)[:60], fi.where(),
                                  f"_col_widths accumulates `{path_of(comp.elt)[:100]}`: every column's width is rounded / converted to another unit BEFORE the running sum, so the summand is not "
                                  "the exact rel_width * col_width / sum(rel_widths); the rounding errors add up and the last boundary is no longer col_width")
                else:
                    ctx.gap("R08.4", f"Utils._col_widths: boundaries are `{path_of(post.elt)[:50]}` of running sums of `{path_of(comp.elt)[:60]}`; not comparable with the running sum of rel_width * col_width / sum(rel_widths)")
                continue
            if E is None and comp is not None:
                # itertools.accumulate(step for w in rel_widths): the running sums of the steps, in order, starting from the first step
                ctx.assume("R08.4: itertools.accumulate(xs) yields the running sums x0, x0+x1, ... in order")
                acc = Carried("running sum", None, 0)
                E = T.LinSym(f"{path_of(comp.elt)} + running sum", None, tuple(sorted({path_of(comp.elt): 1, acc.path: 1}.items())), tuple(sorted([comp.elt, acc], key=path_of))) \
                    if isinstance(comp.elt, Sym) else None
                elem, src, new_acc = comp.var, comp.source, E
            if E is None:
                ctx.gap("R08.4", f"Utils._col_widths: the result `{path_of(ret)[:80]}` is not a list built from one pass over the relative widths")
                continue
            done = True
            ctx.instance("R08.4", fi.where(), f"_col_widths: generic boundary `{path_of(E)[:120]}` for `{path_of(elem)[:40]}`")
            if not (isinstance(src, Init) and src.path == p_rel):
                if isinstance(src, CallSym) and src.recv is None and src.meth in ("reversed", "sorted"):
                    ctx.violation("R08.4", fi.short, "formula", fi.where(), f"_col_widths does not run over the relative widths in column order but over `{path_of(src)[:60]}`")
                else:
                    ctx.gap("R08.4", f"Utils._col_widths iterates `{path_of(src)[:60]}`, not recognisably the relative widths in order")
                continue
            lf = lin_of(E)
            accs = [p for p in tparts(E) if isinstance(p, Carried)]
            if lf is None:
                ctx.gap("R08.4", f"Utils._col_widths: boundary `{path_of(E)[:80]}` is not a sum")
                continue
            if len(accs) != 1 or lf.get(accs[0].path) != 1:
                ctx.violation("R08.4", fi.short, "formula", fi.where(), "_col_widths is no longer the running sum of rel_width_i * col_width / sum(rel_widths) in column order (last boundary = col_width): "
                              f"the boundary `{path_of(E)[:100]}` does not add the column's width to the previous boundary")
                continue
            acc = accs[0]
            if not (isinstance(acc.entry, (int, float)) and not isinstance(acc.entry, bool) and acc.entry == 0):
                ctx.violation("R08.4", fi.short, "formula", fi.where(), f"_col_widths: the running sum starts at `{path_of(acc.entry)[:30]}`, not at 0")
                continue
            if new_acc is None or path_of(new_acc) != path_of(E):
                ctx.violation("R08.4", fi.short, "formula", fi.where(), "_col_widths is no longer the running sum of rel_width_i * col_width / sum(rel_widths): the boundary that is emitted "
                              f"(`{path_of(E)[:70]}`) is not what the running sum is advanced to (`{path_of(new_acc)[:70]}`)")
                continue
            rest = lin_sub(lf, {acc.path: 1})
            step = [t for t in (E.terms if isinstance(E, LinSym) else ()) if t.path in rest]
            if len(rest) != 1 or len(step) != 1 or rest[step[0].path] != 1:
                ctx.violation("R08.4", fi.short, "formula", fi.where(), f"_col_widths: a boundary is the previous one plus `{rest}`, expected plus rel_width * col_width / sum(rel_widths)")
                continue
            if _unrounded(step[0]) is not None:
                n2, d2 = _monomial(_unrounded(step[0]))
                if elem.path in n2 + d2 and p_w in n2 + d2:
                    ctx.violation("R08.4", fi.short, "formula: summand " + path_of(step[0])[:60], fi.where(),
                                  f"_col_widths adds `{path_of(step[0])[:100]}` per column: the width is rounded / converted BEFORE the running sum, not the exact rel_width * col_width / sum(rel_widths)")
                    continue
            num, den = _monomial(step[0])
            num, den = [x for x in num if x not in ("1", "1.0")], [x for x in den if x not in ("1", "1.0")]
            total = f"sum({p_rel})"
            den = [total if x == f"float({total})" else x for x in den]
            if sorted(num) == sorted([elem.path, p_w]) and den == [total]:
                pass
            elif set(num + den) <= {elem.path, p_w, total} or (any(x.replace(".", "").replace("-", "").isdigit() for x in num + den) and set(x for x in num + den if not x.replace(".", "").replace("-", "").isdigit()) <= {elem.path, p_w, total}):
                ctx.violation("R08.4", fi.short, "formula", fi.where(), f"_col_widths: the width added per column is `{path_of(step[0])[:80]}`, expected rel_width * col_width / sum(rel_widths) (so that the last boundary equals col_width)")
            else:
                ctx.gap("R08.4", f"Utils._col_widths: the width added per column `{path_of(step[0])[:80]}` could not be compared with rel_width * col_width / sum(rel_widths)")
    if not done and not ctx.deferred_errors and not any(f.rule == "R08.4" for f in ctx.findings):
        ctx.gap("R08.4", "Utils._col_widths: no path could be verified")
    # \cellx
    c = pm.func("Cell._as_rtf")
    try:
        dt = T.TDT(pm, inline={"_inch_to_twip", "inch_to_twip"})
        leaves = T.whole(dt, c)
        T.cover(ctx, "Cell._as_rtf (whole body over a symbolic cell; unit conversion helpers inlined)", leaves)
    except AnalysisError as e:
        ctx.gap("R08.4", f"Cell._as_rtf could not be evaluated: {e}")
        return
    n = 0
    seen = set()
    for v, env, eff, outcome in leaves:
        ret = T._ret(outcome)
        if ret is None:
            continue
        pieces = []
        for p in tparts(ret):
            if isinstance(p, FmtSym):
                for k, lit in enumerate(p.pieces):
                    if isinstance(lit, str) and "\\cellx" in lit:
                        pieces.append((lit, p.pieces[k + 1] if k + 1 < len(p.pieces) else None))
            elif isinstance(p, OpSym) and p.op == "+" and isinstance(p.left, str) and "\\cellx" in p.left:
                pieces.append((p.left, p.right))
            elif isinstance(p, str) and "\\cellx" in p and not any(p is q[0] for q in pieces):
                pass
        n += 1
        key = tuple(path_of(x[1]) for x in pieces)
        if key in seen:
            continue
        seen.add(key)
        ctx.instance("R08.4", c.where(), f"\\cellx argument(s): {[path_of(x[1])[:60] for x in pieces]}")
        if len(pieces) != 1:
            import re
            fixed = [p for p in tparts(ret) if isinstance(p, str) and re.search(r"\\cellx-?[0-9]", p)]
            if not pieces and fixed:
                ctx.violation("R08.4", c.short, "cellx conversion", c.where(), f"\\cellx is the fixed text `{fixed[0][-20:]}`, not the conversion of the cell's cumulative width")
            else:
                ctx.gap("R08.4", f"Cell._as_rtf: {len(pieces)} \\cellx pieces in the result `{path_of(ret)[:80]}` (exactly one expected)")
            continue
        lit, arg = pieces[0]
        if not lit.endswith("\\cellx"):
            ctx.gap("R08.4", f"Cell._as_rtf: text `{lit[-20:]}` between \\cellx and its argument")
            continue
        t = arg
        while isinstance(t, CallSym) and t.recv is None and t.meth in ("int", "str") and len(t.args) == 1:
            t = t.args[0]
        good = False
        if isinstance(t, CallSym) and t.recv is None and t.meth == "round" and len(t.args) == 1:
            num, den = _monomial(t.args[0])
            width = [x for x in num if x.endswith(".width")]
            good = len(width) == 1 and width[0] == f"{T._all_params(c)[0]}.width" and sorted(x for x in num if x not in width) == ["1440"] and not den
        if good:
            continue
        if isinstance(t, Sym) and any(isinstance(p, AttrSym) and p.attr == "width" for p in tparts(t)) and not path_of(t).startswith("?"):
            ctx.violation("R08.4", c.short, "cellx conversion", c.where(), f"\\cellx is `{path_of(arg)[:80]}`, not the shared inch->twip conversion round(width * 1440) of the cell's cumulative width")
        else:
            ctx.gap("R08.4", f"Cell._as_rtf: the \\cellx argument `{path_of(arg)[:60]}` could not be compared with round(width * 1440)")
    if not n:
        ctx.gap("R08.4", "Cell._as_rtf: no returning path was evaluated")


def _zip_partner(t):
    """(generic pair element, position) if t is component `position` of the generic element of a zip(...)"""
    if isinstance(t, SubSym) and t.key in (0, 1) and isinstance(t.base, ElemSym):
        src = t.base.source
        if isinstance(src, CallSym) and src.recv is None and src.meth == "zip" and len(src.args) == 2:
            return t.base, t.key
    return None


def r08_5(ctx: Ctx) -> None:
    """RTFDocument.__init__ establishes col_rel_width: default [1]*ncol of the body's OWN frame, a single value broadcast to that ncol, and
    headers without widths inherit the widths of THEIR OWN section's body (after default/broadcast).  Read off the stores into
    `.col_rel_width` of a symbolic evaluation of the constructor (generic section of the zip of frames and bodies, generic header)."""
    pm = ctx.pm
    T.declare(ctx)
    fi = pm.func("RTFDocument.__init__")
    try:
        dt = T.TDT(pm, watch={"_apply_table_spacing", "_inch_to_twip", "__init__"})
        leaves = T.whole(dt, fi)
        T.cover(ctx, "RTFDocument.__init__ (whole body; generic section / generic header)", leaves)
    except AnalysisError as e:
        ctx.gap("R08.5", f"RTFDocument.__init__ could not be evaluated: {e}")
        return
    me = T._all_params(fi)[0] if T._all_params(fi) else "self"
    seen = set()
    kinds = set()

    def body_frame(b):
        """the frame that belongs to the body term b (term), None if not recognised"""
        if isinstance(b, AttrSym) and b.attr == "rtf_body" and isinstance(b.base, Init) and b.base.path == me:
            return f"{me}.df"
        zp = _zip_partner(b)
        if zp is not None and zp[1] == 1:
            elem = zp[0]
            a0, a1 = elem.source.args
            if path_of(a0) == f"{me}.df" and path_of(a1) == f"{me}.rtf_body":
                return f"{elem.path}[0]"
        return None

    def own_body(h):
        """path of the body of the section the generic header h belongs to ('?' if not recognised)"""
        if not isinstance(h, ElemSym):
            return "?"
        src = T.unwrap(h.source, names=("list", "tuple"))
        if isinstance(src, CompSym) and isinstance(src.elt, ElemSym):
            return own_body(src.elt)                 # a comprehension that only selects / flattens: its generic element is the inner generic element
        if isinstance(src, AttrSym) and src.path == f"{me}.rtf_column_header":
            return "single-or-flat"
        zp = _zip_partner(src)
        if zp is not None and zp[1] == 0:
            elem = zp[0]
            a0, a1 = elem.source.args
            if path_of(a0) == f"{me}.rtf_column_header" and path_of(a1) == f"{me}.rtf_body":
                return f"{elem.path}[1]"
        # a header of the generic section of the nested header list, not paired with the bodies by a zip
        sec = src.base if isinstance(src, SubSym) and isinstance(src.base, ElemSym) else src
        if isinstance(sec, ElemSym):
            s2 = sec.source
            if isinstance(s2, CallSym) and s2.recv is None and s2.meth == "enumerate" and s2.args:
                s2 = s2.args[0]
            if isinstance(s2, AttrSym) and s2.path == f"{me}.rtf_column_header":
                return ("nested", sec)
        return "?"
    for v, env, eff, outcome in leaves:
        body_vals: dict[str, object] = {}
        for e in eff:
            if not (e[0] == "store" and e[2] == "col_rel_width"):
                continue
            B, V, node = e[1], e[3], e[4]
            key = (path_of(B), path_of(V))
            first = key not in seen
            seen.add(key)
            fr = body_frame(B)
            if fr is not None:
                body_vals[path_of(B)] = V
                if not first:
                    continue
                ok = False
                if isinstance(V, OpSym) and V.op == "*":
                    lst, cnt = (V.left, V.right) if not isinstance(V.left, (int,)) and T.frame_of_shape(V.right) is not None else (V.right, V.left)
                    fs = T.frame_of_shape(cnt)
                    kind = "default" if isinstance(lst, list) and lst == [1] else "broadcast" if isinstance(lst, AttrSym) and lst.attr == "col_rel_width" and path_of(lst.base) == path_of(B) else None
                    if kind and fs is not None and fs[1] == 1:
                        ctx.instance("R08.5", fi.where(node), f"col_rel_width {kind}: `{path_of(B)[:70]}` <- `{path_of(V)[:90]}`")
                        if path_of(fs[0]) == fr:
                            ok = True
                            kinds.add((kind, "multi" if "∀" in fr else "single"))
                        else:
                            ok = True
                            ctx.violation("R08.5", fi.short, f"col_rel_width {kind}: {path_of(B)[:60]}", fi.where(node),
                                          f"RTFDocument.__init__: `{path_of(B)[:60]}`.col_rel_width is {kind}ed to the column count of `{path_of(fs[0])[:60]}`, not of the body's own frame `{fr[:60]}`")
                    elif kind and fs is not None:
                        ok = True
                        ctx.violation("R08.5", fi.short, f"col_rel_width {kind}: {path_of(B)[:60]}", fi.where(node), f"RTFDocument.__init__: the {kind} of col_rel_width uses `{path_of(cnt)[:50]}`, the ROW count of the frame")
                if not ok:
                    ctx.gap("R08.5", f"RTFDocument.__init__: value `{path_of(V)[:70]}` stored as col_rel_width of `{path_of(B)[:50]}` not recognised as default [1]*ncol / broadcast")
                continue
            ob = own_body(B)
            if ob == "?":
                if first:
                    ctx.gap("R08.5", f"RTFDocument.__init__: the component `{path_of(B)[:60]}` whose col_rel_width is set could not be classified (body / header of a section)")
                continue
            if not first:
                continue
            # inherited widths of a header
            guarded = any((k == f"{path_of(B)}.col_rel_width is None" and x) or (k == f"bool({path_of(B)}.col_rel_width)" and not x) for k, x in v.items())
            src_body = None
            V0 = V
            V = T.unwrap(V)
            if isinstance(V, AttrSym) and V.attr == "col_rel_width":
                src_body = V.base
            else:
                for bp, bv in body_vals.items():
                    if bv is V or bv is V0:
                        src_body = bp
            sb = src_body if isinstance(src_body, str) else (path_of(src_body) if src_body is not None else None)
            ctx.instance("R08.5", fi.where(node), f"col_rel_width inherit: header `{path_of(B)[:60]}` <- widths of `{(sb or path_of(V))[:70]}`")
            if sb is None:
                # not traced to a body: still decided when the header belongs to the generic section of a loop and the value cannot vary with it
                sec = ob[1] if isinstance(ob, tuple) else None
                if sec is None and isinstance(B, ElemSym):
                    hsrc = T.unwrap(B.source, names=("list", "tuple"))
                    zp = _zip_partner(hsrc.elt.source if isinstance(hsrc, CompSym) and isinstance(hsrc.elt, ElemSym) else hsrc)
                    sec = zp[0] if zp is not None else None
                if sec is not None and not T.is_opaque(V) and isinstance(V, (Init, AttrSym, SubSym)) and not any(x is sec for x in tparts(V)):
                    ctx.violation("R08.5", fi.short, f"col_rel_width inherit: {path_of(B)[:60]}", fi.where(node),
                                  f"RTFDocument.__init__: the headers of the generic section `{path_of(sec)[:60]}` inherit `{path_of(V)[:50]}`, a value that does not depend on the section "
                                  "(a local left over from an earlier loop / a fixed body): every section's headers get the widths of one section; headers must inherit a copy of their "
                                  "own section's body widths")
                else:
                    ctx.gap("R08.5", f"RTFDocument.__init__: the widths `{path_of(V)[:70]}` a header inherits could not be traced to a body")
                continue
            if isinstance(ob, tuple):
                if any(x is ob[1] for x in tparts(src_body if not isinstance(src_body, str) else V)):
                    ctx.gap("R08.5", f"RTFDocument.__init__: how `{sb[:60]}` selects the body of the header's own section could not be decided")
                    continue
                ctx.violation("R08.5", fi.short, f"col_rel_width inherit: {path_of(B)[:60]}", fi.where(node),
                              f"RTFDocument.__init__: the headers of every section of the nested header list inherit the widths of `{sb[:70]}`, which does not depend on the section "
                              "(a fixed body / a loop variable left over from an earlier loop); headers must inherit a copy of their own section's body widths")
                continue
            if ob == "single-or-flat":
                good = sb in (f"{me}.rtf_body", f"{me}.rtf_body[0]")
                kinds.add(("inherit", "single" if sb == f"{me}.rtf_body" else "flat"))
            else:
                good = sb == ob
                kinds.add(("inherit", "multi"))
            if not good:
                stale = isinstance(src_body, Init) or (isinstance(src_body, Sym) and "∀" in sb and sb != ob)
                ctx.violation("R08.5", fi.short, f"col_rel_width inherit: {path_of(B)[:60]}", fi.where(node),
                              f"RTFDocument.__init__: a header without widths inherits the widths of `{sb[:70]}`, which is not the body of the header's own section"
                              + (" (a loop variable left over from an earlier loop: every section's headers get the widths of one fixed section)" if stale else "")
                              + "; headers must inherit a copy of their own body's widths")
            elif not guarded:
                ctx.violation("R08.5", fi.short, f"col_rel_width inherit overwrites: {path_of(B)[:50]}", fi.where(node), "RTFDocument.__init__: a header's own col_rel_width is overwritten by the body's widths (not only when it is None)")
    need = {("default", "single"), ("broadcast", "single"), ("inherit", "single"), ("default", "multi"), ("broadcast", "multi"), ("inherit", "multi")}
    missing = sorted(need - kinds)
    if missing and not any(f.rule == "R08.5" for f in ctx.findings):
        ctx.gap("R08.5", f"RTFDocument.__init__: default / broadcast / inherit of col_rel_width not re-identified for {missing}")


def check(ctx: Ctx) -> None:
    ctx.explain(
        "R08.1 the generic cell built by TableAttributes._encode ends at col_widths[j] and the spanning row is one cell ending at the width it is given "
        "(terms of the symbolic evaluation); every call of a row encoder passes rtf_page.col_width (structural: expressions expanded through temporaries "
        "and if/else arms); inside encode_column_header / encode_footnote / encode_source the boundaries are Utils._col_widths(component's own "
        "col_rel_width, the width given) on every path that encodes rows; the body's boundaries are Utils._col_widths(displayed columns' relative "
        "widths, rtf_page.col_width) and reach pagination/rendering. R08.2 one generic header of _render_column_headers: an automatic header (text from "
        "the page's displayed columns) takes the page's reduced widths. R08.3 widths and attribute matrices are cut at the original positions of the "
        "removed columns (structural / dataflow rule). R08.4 _col_widths as a symbolic running sum, \\cellx as round(width * 1440). R08.5 the stores into "
        "col_rel_width in RTFDocument.__init__ (default / broadcast from the body's own frame, headers inherit from their own section's body).")
    ctx.assume("rtf_page.col_width is always set by RTFPage._set_default (the `or 8.5` fallbacks are dead)")
    ctx.assume("component._set_default() returns the component itself; model_copy() / .copy() / deepcopy return an object with the same field values")
    ctx.undecided("proportionality to within one twip and equality of the last boundary with col_width for concrete widths (float arithmetic)")
    r08_1(ctx)
    r08_2(ctx)
    T.column_removal(ctx, "R08.3")
    r08_4(ctx)
    r08_5(ctx)
