"""C08 - all rows of a table share one right edge and proportional columns.

R08.1 provenance of every Cell.width and of the table width W handed to Utils._col_widths;
R08.2 column-space agreement between frames and width vectors (FULL = original columns,
REDUCED = displayed columns); R08.3 width slicing with the removed index set of the original frame;
R08.4 normal form of Utils._col_widths and of the twip conversion of boundaries; R08.5 default /
broadcast / inherited col_rel_width in RTFDocument.__init__.
"""
from __future__ import annotations

import ast

from ..pm import dotted, unparse, walk_no_nested
from ..report import Ctx
from . import tablecore as T



ROW_ENCODERS = {
    "encode_column_header": (2, "page_col_width"), "encode_footnote": (2, "page_col_width"), "encode_source": (2, "page_col_width"),
    "encode_spanning_row": (1, "page_width"),
}


def _is_page_width(e: ast.AST, fn: ast.AST):
    """classify a width expression: 'ok' (rtf_page.col_width, possibly with the dead 8.5 fallback), ('bad', why) or ('?', text)"""
    from ..astmatch import alternatives, leaves
    verdicts = []
    for w in alternatives(e, fn):
        lv = set(leaves(w))
        txt = unparse(w)
        page = {x for x in lv if x.endswith(".rtf_page.col_width") or x == "rtf_page.col_width"}
        arith = any(isinstance(n, ast.BinOp) for n in ast.walk(w))
        calls = [dotted(n.func) for n in ast.walk(w) if isinstance(n, ast.Call)]
        rest = lv - page - {"8.5", "None"}
        if page and not rest and not arith and not calls:
            verdicts.append(("ok", txt))
        elif not page and not rest and not calls:
            verdicts.append(("bad", f"`{txt}`: a fixed width"))
        elif any(x.split(".")[-1] in ("width", "height", "margin") or ".rtf_page." in x and not x.endswith(".col_width") for x in rest) or (page and arith) \
                or any(c in ("min", "max", "sum") for c in calls):
            verdicts.append(("bad", f"`{txt}`"))
        else:
            verdicts.append(("?", txt))
    return verdicts


def r08_1(ctx: Ctx) -> None:
    from ..callgraph import CallGraph
    from ..pm import AnalysisError
    pm = ctx.pm
    T.scenario_note(ctx, "R08.1", "TableAttributes._encode / encode_spanning_row / encode_column_header / encode_footnote / encode_source",
                    "for every width value handed in (widths are opaque atoms or exact rationals that are only passed on)",
                    {"_encode": "3x2 segment x 3 attribute shapes x cell_nrow unset/set", "encode_spanning_row": "column 1, attribute shapes 7x3 and 1x1",
                     "row encoders": "one component with 3 relative widths, rendered as a table", "evaluations": 6 + 2 + 3})
    ctx.explain("[R08.1] (b) the width argument at the call sites of the row encoders is decided structurally (the expression is expanded through temporaries and "
                "if/else arms and classified by its leaves): that part does not depend on any witness shape.")
    # (a) the right boundary of every cell that is built: col_widths[j] for data/header/footnote rows (TableAttributes._encode), the table
    #     width for a spanning row; read off the interpreted scenarios
    enc = pm.func("TableAttributes._encode")
    n_cells, bad = 0, []
    for rec in T.encode_scenarios(pm):
        if "error" in rec:
            ctx.gap("R08.1", f"TableAttributes._encode could not be interpreted ({rec['error'][:100]}): cell widths undetermined")
            break
        for i, row in enumerate(rec["rows"]):
            cells = row.attrs.get("row_cells")
            for j, cell in enumerate(cells if isinstance(cells, (list, tuple)) else []):
                w = cell.attrs.get("width") if isinstance(cell, T.Obj) else None
                n_cells += 1
                if isinstance(w, T.Sym):
                    ctx.gap("R08.1", f"TableAttributes._encode: width of cell ({i}, {j}) could not be determined")
                elif j >= len(rec["widths"]) or w != rec["widths"][j]:
                    bad.append(f"cell ({i}, {j}) ends at {w!r}, col_widths = {rec['widths']!r}")
    ctx.instance("R08.1", enc.where(), f"TableAttributes._encode: Cell(width=col_widths[j]) on {n_cells} interpreted cells: {not bad}")
    if bad:
        ctx.violation("R08.1", enc.short, "Cell width " + bad[0][:80], enc.where(), f"{enc.short}: a cell's right boundary is not the cumulative column width of its column: {bad[0]}")
    sp = pm.func("RTFEncodingService.encode_spanning_row")
    for rec in T.spanning_scenarios(pm):
        if "error" in rec:
            ctx.gap("R08.1", f"encode_spanning_row could not be interpreted ({rec['error'][:100]}): cell width undetermined")
            continue
        cells = rec["row"].attrs.get("row_cells")
        ws = [c.attrs.get("width") for c in cells] if isinstance(cells, (list, tuple)) and all(isinstance(c, T.Obj) for c in cells) else None
        ctx.instance("R08.1", sp.where(), f"{sp.short} ({rec['shape']} attributes): Cell widths {ws!r} for page_width {rec['width']!r}")
        if ws is None or any(isinstance(w, T.Sym) for w in ws):
            ctx.gap("R08.1", "encode_spanning_row: the cells of the spanning row could not be determined")
        elif ws != [rec["width"]]:
            ctx.violation("R08.1", sp.short, f"Cell width {ws!r}"[:80], sp.where(), f"{sp.short}: the spanning row is not one cell ending at the table width it was given (cells end at {ws!r})")
    cg = CallGraph(pm)
    covered = cg.reachable([enc.short, sp.short])
    for fi in pm.iter_funcs():
        root = fi
        while root.parent is not None:
            root = root.parent
        if fi.short in covered or root.short in covered or root.short in (enc.short, sp.short):
            continue
        for c in walk_no_nested(fi.node):
            if isinstance(c, ast.Call) and dotted(c.func) == "Cell":
                ctx.instance("R08.1", fi.where(c), f"{fi.short}: Cell(...) built outside the two row builders")
                ctx.gap("R08.1", f"{fi.short} builds a Cell outside TableAttributes._encode / encode_spanning_row: its width could not be related to the table's column boundaries")
    # (b) width argument at the call sites of the row encoders: rtf_page.col_width of the document being encoded
    for fi in pm.iter_funcs():
        if fi.name in ROW_ENCODERS:
            continue
        for c in walk_no_nested(fi.node):
            if isinstance(c, ast.Call) and isinstance(c.func, ast.Attribute) and c.func.attr in ROW_ENCODERS:
                nm = c.func.attr
                pos, kwname = ROW_ENCODERS[nm]
                target = pm.funcs.get("RTFEncodingService." + nm)
                if target is not None:
                    names = [a.arg for a in target.node.args.args][1:]
                    if kwname in names:
                        pos = names.index(kwname)
                arg = next((k.value for k in c.keywords if k.arg == kwname), None)
                if arg is None and pos is not None and len(c.args) > pos and not any(isinstance(a, ast.Starred) for a in c.args):
                    arg = c.args[pos]
                txt = unparse(arg) if arg is not None else "<missing>"
                ctx.instance("R08.1", fi.where(c), f"{fi.short}: {nm}(…, {kwname}={txt})")
                if arg is None:
                    if any(k.arg is None for k in c.keywords) or any(isinstance(a, ast.Starred) for a in c.args):
                        ctx.gap("R08.1", f"{fi.short}: the width handed to {nm} is passed through */** and could not be determined")
                    else:
                        ctx.violation("R08.1", fi.short, f"{nm} width {txt}", fi.where(c), f"{fi.short}: {nm} is called without the table width (rtf_page.col_width of the document being encoded)")
                    continue
                vs = _is_page_width(arg, fi.node)
                for kind, why in vs:
                    if kind == "bad":
                        ctx.violation("R08.1", fi.short, f"{nm} width {txt}", fi.where(c), f"{fi.short}: {nm} is laid out in {why}, not in rtf_page.col_width of the document being encoded")
                    elif kind == "?":
                        ctx.gap("R08.1", f"{fi.short}: the width `{why[:60]}` handed to {nm} could not be traced to rtf_page.col_width")
    # (c) inside the encoders the width reaches Utils._col_widths unchanged, together with the component's own col_rel_width
    W = T._Fr(19, 2)
    for short, wparam in (("RTFEncodingService.encode_column_header", "page_col_width"), ("RTFEncodingService.encode_footnote", "page_col_width"),
                          ("RTFEncodingService.encode_source", "page_col_width")):
        fi = pm.func(short)
        ps = [a.arg for a in fi.node.args.args]
        rel = [T.AV("col_rel_width", 0, c) for c in range(3)]
        comp_cls = {"encode_column_header": "RTFColumnHeader", "encode_footnote": "RTFFootnote", "encode_source": "RTFSource"}[fi.name]
        comp = T.Obj("component", cls=comp_cls, col_rel_width=list(rel), as_table=True, text=["x", "y", "z"], border_bottom=[[""]])
        args = {ps[0]: T.Sym("self", fi.cls)}
        if fi.name == "encode_column_header":
            args.update({ps[1]: T.Frame("header", range(1), ["col_1", "col_2", "col_3"]), ps[2]: comp} if len(ps) > 2 else {})
        else:
            args.update({ps[1]: comp} if len(ps) > 1 else {})
            args.update({p: v for p, v in (("page_number", 1), ("border_style", None)) if p in ps})
        if wparam not in ps:
            ctx.gap("R08.1", f"{short}: parameter {wparam} not found")
            continue
        args[wparam] = W
        try:
            runs = T.Scen(pm, markers={"_col_widths": "scalar", "_encode": "list", "_set_default": "self", "_encode_text": "list"}).runs(fi, args)
        except AnalysisError as e:
            ctx.gap("R08.1", f"{short} could not be interpreted on a mock component: {e}")
            continue
        for _v, r in runs:
            if r.raised:
                ctx.gap("R08.1", f"{short} raises {r.raised} on a mock component")
                continue
            encs = [m for m in r.trace if m.name == "_encode"]
            calls = [m for m in r.trace if m.name == "_col_widths"]
            ctx.instance("R08.1", fi.where(), f"{short}: {[repr(c)[:90] for c in calls]} -> {[repr(m.arg(1, 'col_widths'))[:40] for m in encs]}")
            if not encs:
                ctx.gap("R08.1", f"{short}: no table row is encoded for a component rendered as a table")
                continue
            for m in encs:
                cw = m.arg(1, "col_widths")
                if not (isinstance(cw, T.Mark) and cw.name == "_col_widths"):
                    ctx.violation("R08.1", short, "no _col_widths", fi.where(), f"{short} no longer derives boundaries from relative widths and the table width: rows are encoded with widths `{cw!r}`"[:300])
                    continue
                r_, w_ = cw.arg(0, "rel_widths"), cw.arg(1, "col_width")
                if isinstance(w_, T.Sym) or isinstance(r_, T.Sym):
                    ctx.gap("R08.1", f"{short}: arguments of Utils._col_widths could not be determined")
                    continue
                if w_ != W:
                    ctx.violation("R08.1", short, f"_col_widths width {w_!r}"[:80], fi.where(), f"{short}: column boundaries are scaled to `{w_!r}` instead of the table width it was given")
                if r_ != rel:
                    ctx.violation("R08.1", short, f"_col_widths rel {r_!r}"[:80], fi.where(), f"{short}: boundaries are not derived from the component's own col_rel_width")
    T.body_section_widths(ctx, "R08.1")
    ctx.floor("R08.1", 13)


def r08_2(ctx: Ctx) -> None:
    """auto-populated header text lives in REDUCED column space; its widths must too.  _render_column_headers is interpreted for
    a header without text (automatic column names) on a page whose page_by column was removed: the header handed to
    encode_column_header must carry one relative width per displayed column, taken from the page's reduced attributes, and
    the document's table width."""
    from ..pm import AnalysisError
    pm = ctx.pm
    fi = pm.func("PageRenderer._render_column_headers")
    ps = [a.arg for a in fi.node.args.args]
    if len(ps) != 3:
        ctx.gap("R08.2", "_render_column_headers: signature (self, document, page) not recognised")
        return
    full = [T.AV("body_width", 0, c) for c in range(3)]
    T.scenario_note(ctx, "R08.2", "PageRenderer._render_column_headers", "for every width entry and column name",
                    {"document": "one header without text, body as_colheader, 3 columns of which 1 (page_by) removed", "page": "3 rows x 2 displayed columns, first page", "evaluations": 1})
    reduced = [T.AV("page_width", 0, c) for c in range(2)]
    W = T._Fr(19, 2)

    def mk():
        header = T.Obj("header", cls="RTFColumnHeader", text=None, col_rel_width=list(full), border_top=[[""]])
        body = T.Obj("rtf_body", cls="RTFBody", as_colheader=True, page_by=["g"], col_rel_width=list(full))
        doc = T.Obj("document", cls="RTFDocument", rtf_column_header=[header], rtf_body=body,
                    rtf_page=T.Obj("rtf_page", cls="RTFPage", col_width=W, border_first="", width=T._Fr(17, 2)), df=T.Frame("table", range(6), ["g", "a", "b"]))
        page = T.Obj("page", cls="PageContext", data=T.Frame("page", range(3), ["a", "b"]), is_first_page=True, is_last_page=False, page_number=1,
                     table_attrs=T.Obj("table_attrs", cls="RTFBody", col_rel_width=list(reduced)), col_widths=[1, 2])
        page.attrs["final_body_attrs"] = page.attrs["table_attrs"]
        return doc, page
    doc, page = mk()
    try:
        runs = T.Scen(pm, markers={"encode_column_header": "list", "update_row": "scalar", "DataFrame": "scalar"}).runs(fi, {ps[0]: T.Sym("self", fi.cls), ps[1]: doc, ps[2]: page})
    except AnalysisError as e:
        ctx.gap("R08.2", f"_render_column_headers could not be interpreted on a mock page: {e}")
        return
    n = 0
    for _v, r in runs:
        if r.raised:
            ctx.gap("R08.2", f"_render_column_headers raises {r.raised} on a mock page")
            continue
        calls = [m for m in r.trace if m.name == "encode_column_header"]
        if not calls:
            ctx.gap("R08.2", "the automatic column header (`text is None and as_colheader`) is not encoded on a mock page: branch not re-identified")
            continue
        for m in calls:
            n += 1
            text, hdr, width = m.arg(0, "df"), m.arg(1, "rtf_attrs"), m.arg(2, "page_col_width")
            widths = hdr.attrs.get("col_rel_width") if isinstance(hdr, T.Obj) else None
            auto = isinstance(text, T.Mark) and text.name == "DataFrame"
            ctx.instance("R08.2", fi.where(), f"auto header text {text!r}"[:120] + f"; header widths {widths!r}; table width {width!r}")
            if width != W:
                ctx.violation("R08.2", fi.short, "encode_column_header args " + repr(width)[:60], fi.where(), f"a header row is not encoded in the document's table width (rtf_page.col_width) but in `{width!r}`")
            if not auto:
                ctx.gap("R08.2", f"the text of the automatic header `{text!r}`[:60] could not be traced to the page's displayed columns")
                continue
            cols = None
            for a in text.args[:1]:
                if isinstance(a, list) and len(a) == 1 and isinstance(a[0], list):
                    cols = a[0]
            if cols is not None and cols != ["a", "b"]:
                ctx.violation("R08.2", fi.short, "auto header text " + repr(cols)[:60], fi.where(), f"the automatic header shows {cols!r}, not the page's displayed columns ['a', 'b']")
            if not isinstance(widths, list) or any(isinstance(x, T.Sym) for x in widths):
                ctx.gap("R08.2", "the relative widths of the automatic header could not be determined")
            elif len(widths) != 2:
                ctx.violation("R08.2", fi.short, "auto header widths stay in full column space", fi.where(),
                              "the automatic header takes its texts from the page's displayed columns (page_by/subline_by columns removed) but keeps the col_rel_width it "
                              "inherited from the body for ALL columns: after column removal the header cells no longer line up with the data columns and end at a different right edge")
            elif widths != reduced:
                ctx.violation("R08.2", fi.short, "auto header widths from " + repr(widths)[:60], fi.where(), f"automatic header widths are `{widths!r}`, not the page's reduced attributes {reduced!r}")
    if not n and not ctx.deferred_errors:
        ctx.gap("R08.2", "_render_column_headers: no header was encoded in the scenario")


def r08_4(ctx: Ctx) -> None:
    """Utils._col_widths returns the running sum of rel_width_i * col_width / sum(rel_widths) in column order (so the last
    boundary is col_width), and a cell's \\cellx is round(width * 1440).  Both functions are interpreted at test points
    (exact rationals); agreement at generic points decides equality of the rational functions."""
    from fractions import Fraction as F
    from ..pm import AnalysisError
    pm = ctx.pm
    fi = pm.func("Utils._col_widths")
    ps = [a.arg for a in fi.node.args.args]
    points = [([F(2), F(3), F(5), F(7)], F(11)), ([F(1)], F(17, 2)), ([F(1, 3), F(4), F(5, 2)], F(25, 4)), ([F(1), F(1)], F(6))]
    ctx.extra.setdefault("scenarios", {})["R08.4 Utils._col_widths / Cell._as_rtf"] = {"_col_widths test points (rel_widths, col_width)": len(points), "column counts": [4, 1, 3, 2], "cell widths": 4}
    ctx.explain("[R08.4] Utils._col_widths and Cell._as_rtf: " + T.ABSTRACTION + "; here the numbers are NOT abstract: the syntax tree is evaluated at exact rational test "
                "points (4 width vectors of 1-4 columns, 4 cell widths) and compared with the closed form. This is a bounded witness set (agreement of two rational "
                "functions at generic points), not a symbolic proof for all widths or column counts.")
    ctx.assume("R08.4: verdict established at 4 (rel_widths, col_width) points and 4 cell widths only; rounding behaviour is probed at 1.0005 in and 1/3 in")
    bad, undecided = [], None
    for rel, w in points:
        if len(ps) != 2:
            undecided = "signature (rel_widths, col_width) not recognised"
            break
        try:
            runs = T.Scen(pm).runs(fi, {ps[0]: list(rel), ps[1]: w})
        except AnalysisError as e:
            undecided = str(e)
            break
        if len(runs) != 1 or runs[0][1].raised:
            undecided = f"{len(runs)} paths / raises {runs[0][1].raised if runs else None}"
            break
        got = runs[0][1].ret
        got = list(got) if isinstance(got, (list, tuple)) else got
        want, acc = [], F(0)
        for x in rel:
            acc += x * w / sum(rel)
            want.append(acc)
        if not isinstance(got, list) or any(isinstance(x, T.Sym) or not isinstance(x, (int, float, F)) for x in got):
            undecided = f"result `{got!r}`[:60] is not a list of numbers"
            break
        if len(got) != len(want) or any(abs(float(a) - float(b)) > 1e-9 for a, b in zip(got, want)):
            bad.append(f"_col_widths({[str(x) for x in rel]}, {w}) = {[round(float(x), 4) for x in got]}, expected {[round(float(x), 4) for x in want]}")
    ctx.instance("R08.4", fi.where(), f"_col_widths: cumulative sum of width*col_width/sum(rel_widths) over rel_widths in order at {len(points)} test points: {not bad and not undecided}")
    if undecided:
        ctx.gap("R08.4", f"Utils._col_widths could not be interpreted: {undecided}")
    elif bad:
        ctx.violation("R08.4", fi.short, "formula", fi.where(), "_col_widths is no longer the running sum of rel_width_i * col_width / sum(rel_widths) in column order (last boundary = col_width): " + bad[0])
    c = pm.func("Cell._as_rtf")
    cps = [a.arg for a in c.node.args.args]
    bad, undecided = [], None
    for w in (F(3, 2), F(10005, 10000), F(25, 4), F(1, 3)):
        me = T.Obj("cell", cls="Cell", width=w, border_left=None, border_right=None, border_top=None, border_bottom=None, vertical_justification=None,
                   text=T.Obj("text", cls="TextContent"))
        try:
            runs = T.Scen(pm).runs(c, {cps[0]: me})
        except AnalysisError as e:
            undecided = str(e)
            break
        if len(runs) != 1 or runs[0][1].raised or not isinstance(runs[0][1].ret, str):
            undecided = f"{len(runs)} paths / result `{runs[0][1].ret if runs else None!r}`[:50]"
            break
        import re
        out = runs[0][1].ret
        m = re.findall(r"\\cellx(-?[0-9.]+|\S*)", out)
        want = str(round(w * 1440))
        if m != [want]:
            bad.append(f"a cell of width {float(w):.4f} in is formatted as `{out[:60]}`, expected exactly one \\cellx{want}")
    ctx.instance("R08.4", c.where(), f"\\cellx <- round(width * 1440) (the shared inch->twip conversion) at 4 widths: {not bad and not undecided}")
    if undecided:
        ctx.gap("R08.4", f"Cell._as_rtf could not be interpreted: {undecided}")
    elif bad:
        ctx.violation("R08.4", c.short, "cellx conversion", c.where(), "\\cellx is not the shared inch->twip conversion (round(width * 1440)) of the cell's cumulative width: " + bad[0])


def r08_5(ctx: Ctx) -> None:
    """RTFDocument.__init__ establishes col_rel_width: default [1]*ncol, a single value broadcast to ncol, headers without
    widths inherit the widths of THEIR OWN section's body (after default/broadcast).  Interpreted on mock documents."""
    from ..pm import AnalysisError
    pm = ctx.pm
    fi = pm.func("RTFDocument.__init__")
    ps = [a.arg for a in fi.node.args.args]
    given = [T.AV("given", 0, c) for c in range(3)]
    T.scenario_note(ctx, "R08.5", "RTFDocument.__init__", "for every given width entry",
                    {"documents": ["single section 3 columns: no widths / one width / widths given", "three sections (3, 2, 3 columns) with nested headers", "two sections with a flat header list"],
                     "evaluations": 5})

    def frame(tag, ncol):
        return T.Frame(tag, range(2), [f"c{j}" for j in range(ncol)])

    def body(name, w):
        return T.Obj(name, cls="RTFBody", col_rel_width=w, page_by=None, subline_by=None, group_by=None)

    def hdr(name, w=None):
        return T.Obj(name, cls="RTFColumnHeader", col_rel_width=w, text=["x"])
    k7, k5 = T.AV("k", 0, 7), T.AV("k", 0, 5)
    scen = []
    scen.append(("single section, no widths", dict(df=frame("t", 3), rtf_body=body("b", None), rtf_column_header=[hdr("h0"), hdr("h1", list(given))]),
                 {"b": [1, 1, 1], "h0": [1, 1, 1], "h1": given}))
    scen.append(("single section, one width for three columns", dict(df=frame("t", 3), rtf_body=body("b", [k5]), rtf_column_header=[hdr("h0")]),
                 {"b": [k5, k5, k5], "h0": [k5, k5, k5]}))
    scen.append(("single section, widths given", dict(df=frame("t", 3), rtf_body=body("b", list(given)), rtf_column_header=[hdr("h0")]), {"b": given, "h0": given}))
    scen.append(("three sections (3, 2, 3 columns), nested headers",
                 dict(df=[frame("s0", 3), frame("s1", 2), frame("s2", 3)], rtf_body=[body("b0", None), body("b1", [k7]), body("b2", list(given))],
                      rtf_column_header=[[hdr("h00")], [hdr("h10"), hdr("h11", [k5, k5])], [None]]),
                 {"b0": [1, 1, 1], "b1": [k7, k7], "b2": given, "h00": [1, 1, 1], "h10": [k7, k7], "h11": [k5, k5]}))
    scen.append(("two sections, flat header list", dict(df=[frame("s0", 2), frame("s1", 3)], rtf_body=[body("b0", [k7]), body("b1", None)], rtf_column_header=[hdr("h0")]),
                 {"b0": [k7, k7], "b1": [1, 1, 1], "h0": [k7, k7]}))
    for title, conf, want in scen:
        me = T.Obj("self", cls="RTFDocument", rtf_page=T.Obj("rtf_page", cls="RTFPage", width=T._Fr(17, 2), col_width=T._Fr(25, 4)), **conf)
        sc = T.Scen(pm, markers={"super": "scalar", "__init__": "scalar", "_apply_table_spacing": "scalar", "_inch_to_twip": "scalar"})
        try:
            if not ps:
                raise AnalysisError("signature not recognised")
            runs = sc.runs(fi, {ps[0]: me, "data": {}})
        except AnalysisError as e:
            ctx.gap("R08.5", f"RTFDocument.__init__ could not be interpreted ({title}): {e}")
            continue
        for _v, r in runs:
            if r.raised:
                ctx.gap("R08.5", f"RTFDocument.__init__ raises {r.raised} ({title})")
                continue
            doc = sc.last_args[ps[0]]
            objs = {}

            def collect(v):
                if isinstance(v, T.Obj):
                    objs[v.name] = v
                elif isinstance(v, (list, tuple)):
                    for x in v:
                        collect(x)
            collect(doc.attrs.get("rtf_body"))
            collect(doc.attrs.get("rtf_column_header"))
            got = {k: (objs[k].attrs.get("col_rel_width") if k in objs else "?") for k in want}
            ctx.instance("R08.5", fi.where(), f"RTFDocument.__init__ ({title}): col_rel_width {got!r}"[:290])
            for k, w in want.items():
                g = got[k]
                if isinstance(g, T.Sym) or g == "?":
                    ctx.gap("R08.5", f"RTFDocument.__init__ ({title}): col_rel_width of {k} could not be determined")
                elif g != w:
                    kind = "default" if w and all(x == 1 for x in w) and k.startswith("b") else "broadcast" if k.startswith("b") else "inherit"
                    extra = ""
                    if kind == "inherit":
                        owner = [b for b, bw in want.items() if b.startswith("b") and bw == g]
                        extra = f" (these are the widths of {owner[0]}: every section's header inherits the widths of one fixed section)" if owner else ""
                    ctx.violation("R08.5", fi.short, f"col_rel_width {kind}: {k}", fi.where(),
                                  f"RTFDocument.__init__ ({title}): {k}.col_rel_width becomes {g!r}, expected {w!r}{extra} "
                                  "(default [1]*ncol, scalar broadcast to ncol, headers inherit a copy of their own body's widths)")


def check(ctx: Ctx) -> None:
    ctx.explain(
        "Decided by interpreting the row builders on mock components (tablecore.Scen; no repository code runs). R08.1 every cell built by "
        "TableAttributes._encode ends at col_widths[j], the spanning row is one cell ending at the width it is given; every call of a row "
        "encoder passes rtf_page.col_width (expressions are expanded through temporaries and if/else arms); inside encode_column_header / "
        "encode_footnote / encode_source the boundaries are Utils._col_widths(component's own col_rel_width, the width given); the body's "
        "boundaries are Utils._col_widths(displayed columns' relative widths, rtf_page.col_width) and reach pagination/rendering. R08.2 the "
        "automatic header of a page with removed columns carries the page's reduced widths. R08.3 widths and attribute matrices are cut at "
        "the original positions of the removed columns (mock frame, two removed columns, both set iteration orders). R08.4 _col_widths and "
        "\\cellx evaluated at exact rational test points. R08.5 default/broadcast/inherit of col_rel_width in RTFDocument.__init__ on mock "
        "single- and multi-section documents.")
    ctx.assume("rtf_page.col_width is always set by RTFPage._set_default (the `or 8.5` fallbacks are dead)")
    ctx.assume("polars select/drop/clone/shape/columns behave as documented; BroadcastValue's validator normalises values to nested lists (tablecore.nested_list_form)")
    ctx.undecided("proportionality to within one twip and equality of the last boundary with col_width for concrete widths (float arithmetic)")
    r08_1(ctx)
    r08_2(ctx)
    T.column_removal(ctx, "R08.3")
    r08_4(ctx)
    r08_5(ctx)
