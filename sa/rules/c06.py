"""C06 - titles, headers, footnotes and sources appear on exactly the configured pages.

R06.1 placement predicates (3 siblings) == spec table, emit sites guarded by them with the right
placement field; R06.2 block order and once-ness in PageRenderer.render; R06.3 needs_header /
is_first / is_last at the three strategies; R06.4 page-break geometry uses the same conversion and
the same six margin words as the document start, landscape flag; R06.5 page header/footer emitted
once per document; R06.6 page flags are written only where pages are created.
"""
from __future__ import annotations

import ast
import itertools

from ..consteval import const_expr
from ..absint import NOC
from ..dtab import DT, Sym, NeedAtom, Unsupported
from ..pm import AnalysisError, dotted, unparse, walk_no_nested
from ..report import Ctx

PLACEMENTS = ["first", "last", "all"]


def spec_show(loc, first, last) -> bool:
    return loc == "all" or (loc == "first" and first) or (loc == "last" and last)


def predicate_tables(ctx: Ctx, rule: str) -> None:
    pm = ctx.pm
    for short, pname in (("PageRenderer._should_show", "location"), ("PageFeatureProcessor._should_show_element", "element_location")):
        fi = pm.func(short)
        dt = DT(pm, atoms={pname: PLACEMENTS + ["<other>"], "page.is_first_page": [True, False], "page.is_last_page": [True, False]},
                classes={"page": "PageContext"})
        rows = 0
        for loc, first, last in itertools.product(PLACEMENTS + ["<other>"], [True, False], [True, False]):
            val = {pname: loc, "page.is_first_page": first, "page.is_last_page": last}
            try:
                r = dt.run(fi, {pname: Sym(pname), "page": Sym("page", "PageContext")}, val)
            except NeedAtom as e:
                ctx.violation(rule, short, "depends on " + e.key, fi.where(), f"{short}: the placement predicate depends on `{e.key}`, which is not one of (placement, is_first_page, is_last_page)")
                break
            rows += 1
            want = spec_show(loc, first, last)
            got = bool(dt.truth(r.ret)) if r.raised is None else None
            if got != want:
                ctx.violation(rule, short, f"({loc},{first},{last}) -> {got}", fi.where(),
                              f"{short}(placement={loc!r}, first={first}, last={last}) = {got}, specification says {want}")
        ctx.instance(rule, fi.where(), f"{short}: decision table over placement x first x last, {rows} rows, equals spec")


def _guard_tests(node, stop):
    out = []
    p = getattr(node, "_parent", None)
    child = node
    while p is not None and p is not stop:
        if isinstance(p, ast.If) and any(child is s or any(child is x for x in ast.walk(s)) for s in p.body):
            out.append(p.test)
        child = p
        p = getattr(p, "_parent", None)
    return out


def render_guards(ctx: Ctx, rule: str) -> None:
    """each emit site in PageRenderer.render is shown iff component present and placement predicate of the right field"""
    pm = ctx.pm
    fi = pm.func("PageRenderer.render")
    sites = {"encode_title": ("rtf_title", "page_title"), "encode_subline": ("rtf_subline", "page_title"),
             "encode_footnote": ("rtf_footnote", "page_footnote"), "encode_source": ("rtf_source", "page_source")}
    for callee, (comp, field) in sites.items():
        calls = [c for c in walk_no_nested(fi.node) if isinstance(c, ast.Call) and dotted(c.func).split(".")[-1] == callee]
        if len(calls) != 1:
            ctx.violation(rule, fi.short, f"{callee} x{len(calls)}", fi.where(), f"render calls {callee} {len(calls)} times (exactly once per page expected)")
            continue
        call = calls[0]
        tests = _guard_tests(call, fi.node)
        if not tests:
            ctx.violation(rule, fi.short, f"{callee} unguarded", fi.where(call), f"{callee} is emitted on every page regardless of rtf_page.{field}")
            continue
        test = tests[-1]      # outermost guard
        dt = DT(pm, atoms={f"document.rtf_page.{f}": PLACEMENTS for f in ("page_title", "page_footnote", "page_source")} |
                {"page.is_first_page": [True, False], "page.is_last_page": [True, False]},
                classes={"page": "PageContext", "document": "RTFDocument", "self": "PageRenderer"})
        env = {"document": Sym("document", "RTFDocument"), "page": Sym("page", "PageContext"), "self": Sym("self", "PageRenderer"), "__fi__": fi}
        rows = bad = 0
        pending = [dict()]
        while pending:
            v = pending.pop()
            dt.val = v
            dt.stores = {}
            dt.run_state.effects = []
            dt.depth = 0
            try:
                got = dt.truth(dt.ev(test, env))
            except NeedAtom as e:
                for x in e.domain:
                    pending.append({**v, e.key: x})
                continue
            rows += 1
            present = all(val for k, val in v.items() if k.startswith("bool(document." + comp))
            other_atoms = [k for k in v if not (k.startswith("bool(document." + comp) or k in (f"document.rtf_page.{field}", "page.is_first_page", "page.is_last_page"))]
            loc = v.get(f"document.rtf_page.{field}")
            if loc is None:
                if present and got:
                    ctx.violation(rule, fi.short, f"{callee} ignores {field}", fi.where(call), f"{callee} can be shown without consulting rtf_page.{field}")
                    bad += 1
                continue
            want = present and spec_show(loc, v.get("page.is_first_page", False), v.get("page.is_last_page", False))
            if "page.is_first_page" not in v and loc == "first" or "page.is_last_page" not in v and loc == "last":
                pass
            if got != want and not other_atoms:
                bad += 1
                ctx.violation(rule, fi.short, f"{callee} guard at {sorted(v.items())}", fi.where(call),
                              f"render: {callee} shown={got} but specification says {want} for {v}")
            elif other_atoms and got != want:
                bad += 1
                ctx.violation(rule, fi.short, f"{callee} depends on {other_atoms}", fi.where(call),
                              f"render: showing {comp} also depends on {other_atoms} (shown={got}, expected {want} at {v})")
        ctx.instance(rule, fi.where(call), f"render: {callee} guard `{unparse(test)[:80]}` over {rows} valuations, {bad} disagreement(s) with present∧spec({field})")


def placement_rule(ctx: Ctx, rule: str, figure_only: bool = False) -> None:
    """inline placement predicates of _encode_figure_only (title / footnote / source per figure page)"""
    pm = ctx.pm
    fi = pm.func("UnifiedRTFEncoder._encode_figure_only")
    loops = [n for n in walk_no_nested(fi.node) if isinstance(n, ast.For)]
    if not loops:
        ctx.violation(rule, fi.short, "no figure loop", fi.where(), "figure pages are not produced by a per-figure loop")
        return
    lp = loops[0]
    iv = lp.target.id if isinstance(lp.target, ast.Name) else "i"
    # locals defined before/inside the loop that the guards use
    from ..linform import single_assign_env
    env_ast = single_assign_env(fi.node)
    want_sites = {"title": ("page_title", "append(title)"), "footnote": ("page_footnote", "encode_footnote"), "source": ("page_source", "encode_source")}
    if not figure_only:
        want_sites["subline"] = ("page_title", "encode_subline")
    for name, (field, marker) in want_sites.items():
        target_if = None
        for s in lp.body:
            if isinstance(s, ast.If) and any(marker in unparse(b) for b in s.body):
                target_if = s
        if target_if is None:
            ctx.violation(rule, fi.short, f"{name} site missing", fi.where(lp), f"figure path: the {name} is no longer emitted per figure page")
            continue
        if field not in _expand(target_if.test, env_ast):
            ctx.instance(rule, fi.where(target_if), f"figure path: {name} guard `{unparse(target_if.test)}` does not consult rtf_page.{field}")
            ctx.violation(rule, fi.short, f"{name} guard " + unparse(target_if.test), fi.where(target_if),
                          f"figure path: the {name} is shown under `{unparse(target_if.test)}` instead of on the pages selected by rtf_page.{field}")
            continue
        bad = rows = 0
        for loc, first, last, present in itertools.product(PLACEMENTS, [True, False], [True, False], [True, False]):
            dt = DT(pm, atoms={f"document.rtf_page.{field}": PLACEMENTS}, classes={"document": "RTFDocument"})
            dt.val = {f"document.rtf_page.{field}": loc, "is_first": first, "is_last": last}
            env = {"document": Sym("document", "RTFDocument"), "is_first": first, "is_last": last, "__fi__": fi,
                   "footnote_component": (Sym("footnote_component") if present else None)}
            # single-assignment locals (show_*_on_all)
            for k, v in env_ast.items():
                if k.startswith("show_"):
                    try:
                        env[k] = dt.ev(v, env)
                    except NeedAtom:
                        pass
            dt.val["document.rtf_source is None"] = not present
            dt.val["bool(document.rtf_source)"] = present
            dt.val["bool(document.rtf_subline)"] = present
            dt.val["document.rtf_subline is None"] = not present
            dt.val["bool(footnote_component)"] = present
            dt.val["footnote_component is None"] = not present
            try:
                got = dt.truth(dt.ev(target_if.test, env))
            except NeedAtom as e:
                ctx.violation(rule, fi.short, f"{name} depends on {e.key}", fi.where(target_if), f"figure path: showing the {name} depends on `{e.key}`")
                bad += 1
                break
            rows += 1
            want = (present if name != "title" else True) and spec_show(loc, first, last)
            if got != want:
                bad += 1
                ctx.violation(rule, fi.short, f"{name} ({loc},{first},{last},{present}) -> {got}", fi.where(target_if),
                              f"figure path: {name} shown={got} for placement={loc!r}, first={first}, last={last}, present={present}; specification says {want}")
        ctx.instance(rule, fi.where(target_if), f"figure path: {name} guard `{unparse(target_if.test)[:70]}` over {rows} rows, {bad} disagreement(s)")
    # is_first / is_last definitions
    defs = {unparse(a.targets[0]): unparse(a.value) for a in ast.walk(lp) if isinstance(a, ast.Assign) and len(a.targets) == 1}
    ok = defs.get("is_first") == f"{iv} == 0" and defs.get("is_last") in (f"{iv} == num - 1", f"{iv} == len(figs) - 1")
    ctx.instance(rule, fi.where(lp), f"figure path: is_first = {defs.get('is_first')}, is_last = {defs.get('is_last')}")
    if not ok:
        ctx.violation(rule, fi.short, f"first/last {defs.get('is_first')} / {defs.get('is_last')}", fi.where(lp), "figure path: first/last page are not the first/last figure")


def _expand(e, env, depth=0) -> str:
    txt = unparse(e)
    if depth < 3:
        for n in ast.walk(e):
            if isinstance(n, ast.Name) and n.id in env:
                txt += " " + _expand(env[n.id], env, depth + 1)
    return txt


ORDER = ["generate_page_break", "encode_title", "encode_subline", "_generate_subline_header", "_render_column_headers",
         "encode_spanning_row", "_render_body", "encode_footnote", "encode_source"]


def r06_2(ctx: Ctx) -> None:
    pm = ctx.pm
    fi = pm.func("PageRenderer.render")
    pos = {}
    for idx, s in enumerate(fi.node.body):
        for c in ast.walk(s):
            if isinstance(c, ast.Call):
                nm = dotted(c.func).split(".")[-1]
                if nm in ORDER:
                    pos.setdefault(nm, []).append((idx, c))
    seq = []
    for nm in ORDER:
        if nm not in pos:
            ctx.violation("R06.2", fi.short, f"{nm} missing", fi.where(), f"render no longer emits {nm}")
            continue
        if len(pos[nm]) != 1:
            ctx.violation("R06.2", fi.short, f"{nm} x{len(pos[nm])}", fi.where(), f"render emits {nm} {len(pos[nm])} times per page")
        idx, c = pos[nm][0]
        seq.append((nm, idx))
        loops = [a for a in _anc(c, fi.node) if isinstance(a, (ast.For, ast.While))]
        if loops and nm != "encode_spanning_row":
            ctx.violation("R06.2", fi.short, f"{nm} in loop", fi.where(c), f"render emits {nm} inside a loop (must appear once per page)")
    ctx.instance("R06.2", fi.where(), "render block order: " + " < ".join(f"{n}@{i}" for n, i in seq))
    for (a, ia), (b, ib) in zip(seq, seq[1:]):
        if not ia < ib:
            ctx.violation("R06.2", fi.short, f"{a} !< {b}", fi.where(), f"render emits {b} before {a}; required order is title, subline, column headers, group heading, body, footnote, source")
    # all emits go to the same accumulator by append/extend and it is returned
    rets = [unparse(r.value) for r in walk_no_nested(fi.node) if isinstance(r, ast.Return) and r.value is not None]
    ctx.instance("R06.2", fi.where(), f"render returns {rets}")
    if rets != ["page_elements"]:
        ctx.violation("R06.2", fi.short, "return " + str(rets), fi.where(), "render has an early return or returns something other than the accumulated page elements")
    # page break iff not first page
    pb = pos.get("generate_page_break")
    if pb:
        tests = _guard_tests(pb[0][1], fi.node)
        t = unparse(tests[-1]) if tests else "<none>"
        ctx.instance("R06.2", fi.where(pb[0][1]), f"page break guard `{t}`")
        if t != "not page.is_first_page":
            ctx.violation("R06.2", fi.short, "page break guard " + t, fi.where(pb[0][1]), f"page break block is emitted under `{t}` instead of on every page after the first")
    hd = pos.get("_render_column_headers")
    if hd:
        tests = _guard_tests(hd[0][1], fi.node)
        t = unparse(tests[-1]) if tests else "<none>"
        ctx.instance("R06.2", fi.where(hd[0][1]), f"column header guard `{t}`")
        if t != "page.needs_header and document.rtf_column_header":
            ctx.violation("R06.2", fi.short, "header guard " + t, fi.where(hd[0][1]), f"column headers are emitted under `{t}` instead of page.needs_header (and a header being configured)")


def _anc(n, stop):
    p = getattr(n, "_parent", None)
    while p is not None and p is not stop:
        yield p
        p = getattr(p, "_parent", None)


def r06_3(ctx: Ctx) -> None:
    pm = ctx.pm
    for short in ("DefaultPaginationStrategy.paginate", "PageByStrategy.paginate", "SublineStrategy.paginate"):
        fi = pm.func(short)
        ctor = [c for c in walk_no_nested(fi.node) if isinstance(c, ast.Call) and dotted(c.func) == "PageContext"]
        if len(ctor) != 1:
            ctx.violation("R06.3", short, f"PageContext x{len(ctor)}", fi.where(), f"{short} does not create exactly one PageContext per page")
            continue
        kw = {k.arg: k.value for k in ctor[0].keywords}
        from ..linform import single_assign_env
        env_ast = single_assign_env(fi.node)

        def expand(e):
            while isinstance(e, ast.Name) and e.id in env_ast:
                e = env_ast[e.id]
            return e
        dt = DT(pm, classes={"context": "PaginationContext"})
        results = {}
        for ph, first, last in itertools.product([True, False], [True, False], [True, False]):
            env = {"context": Sym("context", "PaginationContext"), "display_page_num": 1 if first else (3 if last else 2),
                   "total_pages": (1 if first and last else 3), "__fi__": fi, "page_num": 1}
            if first and last:
                env["display_page_num"] = 1
            elif first:
                env["display_page_num"] = 1
            elif last:
                env["display_page_num"] = 3
            else:
                env["display_page_num"] = 2
            env["is_first"] = first
            dt.val = {"bool(context.rtf_body.pageby_header)": ph}
            dt.stores = {}
            try:
                nh = dt.truth(dt.ev(expand(kw["needs_header"]), env))
                f_ = dt.truth(dt.ev(expand(kw["is_first_page"]), env))
                l_ = dt.truth(dt.ev(expand(kw["is_last_page"]), env))
            except (NeedAtom, KeyError, Unsupported) as e:
                ctx.violation("R06.3", short, "flags depend on " + str(getattr(e, "key", e)), fi.where(ctor[0]), f"{short}: page flags depend on {getattr(e, 'key', e)}")
                break
            results[(ph, first, last)] = (nh, f_, l_)
            if nh != (ph or first) or f_ != first or l_ != last:
                ctx.violation("R06.3", short, f"flags at ph={ph},first={first},last={last}: {(nh, f_, l_)}", fi.where(ctor[0]),
                              f"{short}: (needs_header, is_first_page, is_last_page) = {(nh, f_, l_)} for pageby_header={ph}, first={first}, last={last}; "
                              f"expected {(ph or first, first, last)}")
        ctx.instance("R06.3", fi.where(ctor[0]), f"{short}: needs_header=`{unparse(expand(kw.get('needs_header')))}` is_first=`{unparse(expand(kw.get('is_first_page')))}` "
                     f"is_last=`{unparse(expand(kw.get('is_last_page')))}` over {len(results)} rows")
        # display_page_num / total_pages provenance
        dp = unparse(env_ast.get("display_page_num")) if "display_page_num" in env_ast else "?"
        tp = unparse(env_ast.get("total_pages")) if "total_pages" in env_ast else "?"
        if dp != "int(page_num)" or tp != "len(unique_pages)":
            ctx.violation("R06.3", short, f"page numbering {dp} / {tp}", fi.where(), f"{short}: page number / total are `{dp}` / `{tp}`, expected int(page_num) / len(unique_pages)")
    ctx.floor("R06.3", 3)


def r06_4(ctx: Ctx) -> None:
    pm = ctx.pm
    from .c16 import units_rule
    units_rule(ctx, "R06.4")
    pb = pm.func("RTFEncodingService.encode_page_break")
    t = unparse(pb.node)
    conv = ("Utils._inch_to_twip(page_config.width)" in t or "RTFMeasurements.inch_to_twip(page_config.width)" in t) and \
           ("Utils._inch_to_twip(page_config.height)" in t or "RTFMeasurements.inch_to_twip(page_config.height)" in t)
    words = "\\\\paperw" in t and "\\\\paperh" in t and "page_margin_encode_func()" in t and "\\\\page" in t
    ctx.instance("R06.4", pb.where(), f"page break block: \\paperw/\\paperh from page_config.width/height via the shared conversion: {conv}; margins via callback: {words}")
    if not (conv and words):
        ctx.violation("R06.4", pb.short, "page break geometry", pb.where(), "the page-break block does not restate \\paperw/\\paperh (shared conversion of rtf_page.width/height) and the margins")
    pw = t.find("\\\\paperw")
    ph = t.find("\\\\paperh")
    if not (0 <= pw < ph):
        ctx.violation("R06.4", pb.short, "paperw/paperh order", pb.where(), "\\paperw must take the width and precede \\paperh")
    # width->paperw, height->paperh
    import re
    m = re.search(r"paperw\{([^}]*)\}.*?paperh\{([^}]*)\}", t, re.S)
    if m and not ("width" in m.group(1) and "height" in m.group(2)):
        ctx.violation("R06.4", pb.short, "paperw/paperh swapped", pb.where(), f"\\paperw is written from `{m.group(1)}` and \\paperh from `{m.group(2)}`")
    gp = pm.func("RTFDocumentService.generate_page_break")
    t2 = unparse(gp.node)
    same_page = "encode_page_break(document.rtf_page" in t2 and "encode_page_margin(document.rtf_page)" in t2
    ctx.instance("R06.4", gp.where(), f"generate_page_break passes document.rtf_page to both size and margin encoders: {same_page}")
    if not same_page:
        ctx.violation("R06.4", gp.short, "page config source", gp.where(), "the page-break block is not built from the document's own rtf_page")
    # margin words: same six, same order, same index mapping at both sites
    pmg = pm.func("RTFEncodingService.encode_page_margin")
    codes = None
    for a in walk_no_nested(pmg.node):
        if isinstance(a, ast.Assign) and unparse(a.targets[0]) == "margin_codes":
            codes = const_expr(pm, pmg.module, a.value)
    want = ["\\margl", "\\margr", "\\margt", "\\margb", "\\headery", "\\footery"]
    tm = unparse(pmg.node)
    conv_m = "Utils._inch_to_twip(m) for m in page_config.margin" in tm and "zip(margin_codes, margins, strict=True)" in tm
    ctx.instance("R06.4", pmg.where(), f"page-break margin words {codes}; converted element-wise in order: {conv_m}")
    if codes is NOC or list(codes or []) != want or not conv_m:
        ctx.violation("R06.4", pmg.short, f"margin words {codes}", pmg.where(), f"page-break margins are not {want} paired in order with rtf_page.margin through the shared conversion")
    gs = pm.func("RTFSyntaxGenerator.generate_page_settings")
    ts = unparse(gs.node)
    idx = []
    for i, w in enumerate(want):
        k = ts.find(w.replace("\\", "\\\\") + "{margin_twips[%d]}" % i)
        idx.append(k)
    ok_start = all(k >= 0 for k in idx) and idx == sorted(idx)
    conv_s = "Utils._inch_to_twip(m)" in ts and "for m in margins" in ts and "Utils._inch_to_twip(width)" in ts and "Utils._inch_to_twip(height)" in ts
    ctx.instance("R06.4", gs.where(), f"document start: six margin words with matching indices: {ok_start}; shared conversion: {conv_s}")
    if not (ok_start and conv_s):
        ctx.violation("R06.4", gs.short, "document-start geometry", gs.where(), "document-start page settings no longer write the six margins in order through the shared conversion")
    ps = pm.func("RTFEncodingService.encode_page_settings")
    tp = unparse(ps.node)
    args_ok = "generate_page_settings(page_config.width, page_config.height, page_config.margin, page_config.orientation)" in tp
    if not args_ok:
        ctx.violation("R06.4", ps.short, "page settings arguments", ps.where(), "document-start page settings are not built from rtf_page.width/height/margin/orientation in that order")
    # landscape flag depends on orientation only
    land = [n for n in walk_no_nested(gs.node) if isinstance(n, ast.IfExp) and "landscape" in unparse(n)]
    ok_l = len(land) == 1 and unparse(land[0].test) == "orientation == 'landscape'" and unparse(land[0].body).strip("'\"").startswith("\\\\landscape") and unparse(land[0].orelse) == "''"
    ctx.instance("R06.4", gs.where(), f"landscape flag expression `{unparse(land[0]) if land else '?'}`")
    if not ok_l:
        ctx.violation("R06.4", gs.short, "landscape flag " + (unparse(land[0].test) if land else "missing"), gs.where(),
                      "\\landscape must be written exactly when orientation == 'landscape' (no further condition)")
    if "{landscape_cmd}" not in ts:
        ctx.violation("R06.4", gs.short, "landscape flag not emitted", gs.where(), "the landscape flag is computed but not written")


def r06_5(ctx: Ctx) -> None:
    pm = ctx.pm
    for path in ("UnifiedRTFEncoder.encode", "UnifiedRTFEncoder._encode_multi_section", "UnifiedRTFEncoder._encode_figure_only"):
        fi = pm.func(path)
        from ..cfg import CFG
        g = CFG(fi.node)
        live = g.reachable(g.entry)
        for callee, comp in (("encode_page_header", "rtf_page_header"), ("encode_page_footer", "rtf_page_footer"), ("encode_page_settings", "rtf_page"),
                             ("encode_font_table", None), ("encode_color_table", None), ("encode_document_start", None)):
            calls = [c for c in walk_no_nested(fi.node) if isinstance(c, ast.Call) and dotted(c.func).split(".")[-1] == callee]
            calls = [c for c in calls if any(id(nd) in live for nd in g.node_containing(c))]
            in_loop = [c for c in calls if any(isinstance(a, (ast.For, ast.While)) for a in _anc(c, fi.node))]
            ctx.instance("R06.5", fi.where(), f"{path}: {callee} called {len(calls)}x in reachable code, in a loop: {len(in_loop)}")
            if len(calls) != 1 or in_loop:
                ctx.violation("R06.5", path, f"{callee} x{len(calls)} loop={len(in_loop)}", fi.where(), f"{path}: {callee} must be emitted exactly once per document ({len(calls)} call(s), {len(in_loop)} in loops)")
            elif comp and f"document.{comp}" not in unparse(calls[0]):
                ctx.violation("R06.5", path, f"{callee} argument", fi.where(calls[0]), f"{path}: {callee} is not given document.{comp}")
    r = pm.func("PageRenderer.render")
    for callee in ("encode_page_header", "encode_page_footer"):
        if any(isinstance(c, ast.Call) and dotted(c.func).split(".")[-1] == callee for c in ast.walk(r.node)):
            ctx.violation("R06.5", r.short, callee + " per page", r.where(), f"render emits {callee} on every page; header/footer groups must be defined once per document")
    for callee, word in (("RTFEncodingService.encode_page_header", "\\\\header"), ("RTFEncodingService.encode_page_footer", "\\\\footer")):
        f = pm.func(callee)
        rets = [unparse(r_.value) for r_ in walk_no_nested(f.node) if isinstance(r_, ast.Return) and r_.value is not None]
        ok = any(word in x and x.count("{{") >= 1 for x in rets) and "''" in rets
        ctx.instance("R06.5", f.where(), f"{callee} returns {rets}")
        if not ok:
            ctx.violation("R06.5", callee, "group " + str(rets)[:60], f.where(), f"{callee} no longer returns '' or one {word.replace(chr(92)*2, chr(92))} group")
    ctx.floor("R06.5", 18)


def r06_6(ctx: Ctx) -> None:
    """page flags are data of the pagination result: nobody rewrites them afterwards"""
    pm = ctx.pm
    flags = {"is_first_page", "is_last_page", "needs_header", "page_number", "total_pages"}
    n = 0
    for fi in pm.iter_funcs():
        for nd in walk_no_nested(fi.node):
            targets = []
            if isinstance(nd, ast.Assign):
                targets = nd.targets
            elif isinstance(nd, (ast.AugAssign, ast.AnnAssign)):
                targets = [nd.target]
            for t in targets:
                if isinstance(t, ast.Attribute) and t.attr in flags:
                    n += 1
                    ctx.violation("R06.6", fi.short, "store " + unparse(t), fi.where(nd),
                                  f"{fi.short}: `{unparse(nd)[:70]}` rewrites a page flag after pagination; placement decisions (first/last/all) read it later")
            if isinstance(nd, ast.Call) and isinstance(nd.func, ast.Name) and nd.func.id == "setattr" and len(nd.args) > 1 and isinstance(nd.args[1], ast.Constant) and nd.args[1].value in flags:
                ctx.violation("R06.6", fi.short, "setattr " + str(nd.args[1].value), fi.where(nd), f"{fi.short}: rewrites page flag {nd.args[1].value}")
    ctors = sum(1 for fi in pm.iter_funcs() for c in walk_no_nested(fi.node) if isinstance(c, ast.Call) and dotted(c.func) == "PageContext")
    ctx.instance("R06.6", "src/rtflite", f"page flags are set only through {ctors} PageContext(...) constructions; {n} later stores")


def check(ctx: Ctx) -> None:
    ctx.explain(
        "R06.1 the two placement predicates are evaluated as decision tables over placement x first x last (16 rows each) and "
        "equal the specification; each emit site of render is shown iff component present ∧ spec(placement field) over all "
        "valuations of its guard's atoms; the figure path's inline predicates likewise (48 rows each). R06.2 syntactic order of "
        "the emit blocks of render, once-ness, page break iff not first, headers iff needs_header. R06.3 needs_header/is_first/"
        "is_last at the three strategies equal (pageby_header ∨ first, first, last) on 8 rows each. R06.4 who-may-convert rule "
        "plus page-break geometry fields/words vs document start; landscape flag. R06.5 once-per-document emitters. R06.6 no "
        "store to page flags after pagination.")
    ctx.assume("PageContext flags are read, not recomputed, by the renderer and the processor")
    ctx.undecided("numeric values of the geometry words; which concrete rows land on which page")
    predicate_tables(ctx, "R06.1")
    render_guards(ctx, "R06.1")
    placement_rule(ctx, "R06.1")
    r06_2(ctx)
    r06_3(ctx)
    r06_4(ctx)
    r06_5(ctx)
    r06_6(ctx)
    ctx.extra["exhaustive"] = True
