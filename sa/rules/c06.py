"""C06 - titles, headers, footnotes and sources appear on exactly the configured pages.

R06.1 placement predicates == spec table; the placed components of PageRenderer.render and of the figure path reach the
output iff present ∧ spec(placement field); R06.2 block order and once-ness in PageRenderer.render; R06.3 needs_header /
is_first / is_last at the three strategies; R06.4 page-break geometry uses the same conversion and the same six margin
words as the document start, landscape flag; R06.5 page header/footer emitted once per document; R06.6 page flags are
written only where pages are created.

The emitters are not recognised by statement shape: they are evaluated *abstractly* (FlowDT below, an extension of the
decision-table interpreter): every input is an uninterpreted symbol, every consulted condition is enumerated over all its
valuations, a loop over a symbolic collection is evaluated as ONE generic iteration (symbolic position, atoms `is first` /
`is last`), and the rules judge the resulting summary (what reaches the output, in which order, from which terms).
"""
from __future__ import annotations

import ast
import itertools
import re
from dataclasses import dataclass
from typing import Any

from ..astmatch import leaves, resolve
from ..consteval import const_expr
from ..absint import NOC
from ..dtab import DT, Sym, NeedAtom, Unsupported, Run, _Raise, _Continue, _Break, _OPS, _cmp
from ..pm import dotted, unparse, walk_no_nested
from ..report import Ctx

# ---------------------------------------------------------------------------------------------------------------
# FlowDT: the decision-table interpreter of sa/dtab, extended so that whole emitter functions can be evaluated
# abstractly.  Inputs are uninterpreted symbols; values built from them are structured terms (subscript, slice, call,
# integer-linear form); list accumulators stay concrete (their *contents* are symbolic terms); generators are run
# eagerly; a loop over a symbolic collection (for / comprehension / while) is evaluated as ONE generic iteration: the
# position is a symbol, comparisons of it with the ends of the collection become the atoms `<loop> is first` /
# `<loop> is last` (enumerated like every other condition), what a generic iteration adds to an accumulator is bracketed
# by markers, loop-carried locals of a while loop enter as unconstrained symbols.  Methods bound with getattr()/stored
# in tables are called through, class-level constants are read, callees that are not decision logic are opaque terms.
# No concrete model of any input exists: concrete values come only from literals of the analysed source.
# Rules read the *summary* (what is emitted, in which order, from which terms, under which valuation).
# ---------------------------------------------------------------------------------------------------------------

class Marker:
    """bracket of one generic loop iteration inside a concrete accumulator"""

    def __init__(self, kind: str, loop: str):
        self.kind, self.loop = kind, loop

    def __repr__(self):
        return f"<{self.kind} {self.loop}>"


class SymIter:
    """symbolic iterable: kind in range/enumerate/zip; range items = [start, stop, step], enumerate items = [seq, start]"""

    def __init__(self, kind: str, items: list, n_text: str = ""):
        self.kind, self.items, self.n_text = kind, items, n_text


@dataclass(frozen=True, eq=False)
class LinV(Sym):
    """integer-linear form over symbolic terms: lin = ((term path, coefficient), ...), '' = constant"""
    lin: tuple = ()
    terms: tuple = ()


@dataclass(frozen=True, eq=False)
class SubV(Sym):
    base: Any = None
    key: Any = None


@dataclass(frozen=True, eq=False)
class SliceV(Sym):
    base: Any = None
    lo: Any = None
    hi: Any = None
    step: Any = None


@dataclass(frozen=True, eq=False)
class SpreadV(Sym):
    """a symbolic sequence whose ITEMS were added to an accumulator (list.extend / += of a term standing for a list)"""
    of: Any = None


@dataclass(frozen=True, eq=False)
class CallV(Sym):
    """result of a call that is not interpreted: callee name, receiver, argument terms"""
    fn: str = ""
    recv: Any = None
    args: tuple = ()
    kw: tuple = ()


def lin_of(v) -> dict | None:
    """{term path: coefficient, '': constant} of an integer-valued term"""
    if isinstance(v, bool):
        return None
    if isinstance(v, (int, float)):
        return {"": v} if v else {}
    if isinstance(v, LinV):
        return dict(v.lin)
    if isinstance(v, Sym):
        return {v.path: 1}
    return None


def lin_add(a: dict, b: dict, sign: int = 1) -> dict:
    out = dict(a)
    for k, c in b.items():
        out[k] = out.get(k, 0) + sign * c
        if out[k] == 0:
            del out[k]
    return out


def lin_text(d: dict) -> str:
    out = ""
    for k, c in list((k, c) for k, c in d.items() if k != "") + ([("", d[""])] if "" in d else []):
        mag = abs(c)
        t = str(mag) if k == "" else (k if mag == 1 else f"{mag}*{k}")
        out = (("-" if c < 0 else "") + t) if not out else out + (" - " if c < 0 else " + ") + t
    return out or "0"


def mk_lin(d: dict, terms: dict):
    if set(d) <= {""}:
        return d.get("", 0)
    if len(d) == 1:
        (k, c), = d.items()
        if c == 1 and k in terms:
            return terms[k]
    return LinV(lin_text(d), None, tuple(d.items()), tuple(terms[k] for k in d if k in terms))


def _terms(*vs) -> dict:
    out = {}
    for x in vs:
        if isinstance(x, LinV):
            out.update({t.path: t for t in x.terms})
        elif isinstance(x, Sym):
            out[x.path] = x
    return out


_FLIP = {ast.Lt: ast.Gt, ast.Gt: ast.Lt, ast.LtE: ast.GtE, ast.GtE: ast.LtE, ast.Eq: ast.Eq, ast.NotEq: ast.NotEq}


class FlowDT(DT):
    def __init__(self, pm, atoms=None, effect_calls=None, classes=None, max_atoms=40, inline_depth=6, opaque=(), inline=None,
                 relevant=None, regime=True, preset=None, sym_domain=None, root_cls=None):
        super().__init__(pm, atoms=atoms, effect_calls=effect_calls, classes=classes, max_atoms=max_atoms, inline_depth=inline_depth)
        self.opaque = set(opaque)            # callee names never inlined (their result is a symbol showing the arguments)
        self.inline = inline                 # predicate FuncInfo -> bool (default: methods of the root function's class)
        self.relevant = relevant             # substrings: atoms not mentioning any of them are pinned (regime)
        self.regime = regime
        self.preset = dict(preset or {})     # path -> structured symbolic term (e.g. a tuple of symbols), re-seeded into the store of every run
        self.sym_domain = sym_domain         # function(path) -> list | None   (finite domain of the TYPE of a symbolic value, e.g. a byte)
        self.root_cls = root_cls
        self.pinned: set[str] = set()
        self.loops = 0
        self.gen_loops: dict[str, list] = {}     # generic loop -> linear forms of the number of iterations
        self.range_of: dict[str, tuple] = {}     # generic loop over a range -> (start, stop, step)
        self.loop_elems: dict[str, Any] = {}     # generic loop -> the element term its iteration sees
        self.cmpinfo: dict[str, tuple] = {}      # atom key -> (op type, left term, right term)
        self.raw: dict[int, Any] = {}            # effect number -> unrendered payload (terms)
        self.domain_reads: dict[str, Any] = {}   # path -> term, for terms enumerated over the domain of their type
        self.copies = 0
        self.yields: list[list] = []
        self._attr_cls_cache: dict = {}
        self._const_memo: dict = {}
        self._is_gen: dict = {}
        self._attr_memo: dict = {}

    # ------------------------------------------------------------------ runs
    def run(self, fi, args, valuation):
        self.val = valuation
        self.run_state = Run()
        self.stores = {k: (list(v) if isinstance(v, list) else v) for k, v in self.preset.items()}
        self.depth = 0
        self.loops = 0
        self.copies = 0
        self.yields = []
        self.gen_loops = {}
        self.range_of = {}
        self.loop_elems = {}
        self.raw = {}
        if self.root_cls is None and fi.cls:
            self.root_cls = fi.cls
        try:
            self.run_state.ret = self.call_fi(fi, args)
        except _Raise as r:
            self.run_state.raised = r.what
        self.run_state.stores = dict(self.stores)         # final state of the attribute stores of this run
        self.run_state.raw = self.raw
        self.run_state.loop_elems = dict(self.loop_elems)
        return self.run_state

    def effect(self, kind: str, *payload, raw=None) -> None:
        super().effect(kind, *payload)
        if raw is not None:
            self.raw[len(self.run_state.effects)] = raw

    def fresh_copy(self, v, deep: bool = True):
        """a copy is a new object: stores to it do not reach the original (reads of unset attributes are new symbols)"""
        if not isinstance(v, Sym):
            import copy as _copy
            return _copy.deepcopy(v) if deep else _copy.copy(v)
        self.copies += 1
        return Sym(f"copy#{self.copies}({v.path})", self.cls_of(v))

    def atom(self, key, domain):
        if key in self.val:
            return self.val[key]
        if key.startswith("bool(") and re.search(r"\(…\)(#\d+)?\)$", key):
            return True                      # what an emitter returned is non-empty
        known = self._implied(key)
        if known is not None:
            return known
        if key not in self.atoms and self.relevant is not None and not any(r in key for r in self.relevant):
            self.pinned.add(key)
            if key.endswith(" is None"):
                return not self.regime
            if key.startswith(("bool(", "isinstance(", "hasattr(", "any(", "all(")):
                return self.regime
            return domain[0] if self.regime else domain[-1]
        return super().atom(key, domain)

    @staticmethod
    def _canon(key: str) -> str:
        prev = None
        while prev != key:
            prev, key = key, re.sub(r"copy#\d+\(([^()]*)\)", r"\1", key)
        return key

    def _implied(self, key: str):
        """value of an existence atom that follows from the valuation: a copy exists iff its original does, an object
        that is None is falsy, a truthy object is not None (keeps the enumerated configurations consistent)"""
        c = self._canon(key)
        m_none = re.fullmatch(r"(.+) is None", c)
        m_bool = re.fullmatch(r"bool\((.+)\)", c)
        if not (m_none or m_bool):
            return None
        obj = (m_none or m_bool).group(1)
        for k, x in self.val.items():
            ck = self._canon(k)
            if ck == c and k != key:
                return x
            if m_none and ck == f"bool({obj})" and x is True:
                return False
            if m_bool and ck == f"{obj} is None" and x is True:
                return False
        return None

    def concrete(self, v):
        if isinstance(v, Sym) and self.sym_domain is not None and v.path not in self.stores and v.path not in self.atoms:
            d = self.sym_domain(v.path)
            if d is not None:
                self.atoms[v.path] = list(d)
                self.domain_reads[v.path] = v
        return super().concrete(v)

    # ------------------------------------------------------------------ classes of attributes
    def attr_class(self, cls: str, attr: str):
        """class of `self.attr` from `self.attr = Cls(...)` in __init__ (services held by a class)"""
        k = (cls, attr)
        if k not in self._attr_cls_cache:
            got = None
            init = self.pm.find_method(cls, "__init__")
            if init is not None:
                for a in walk_no_nested(init.node):
                    if isinstance(a, ast.Assign) and len(a.targets) == 1 and isinstance(a.targets[0], ast.Attribute) and a.targets[0].attr == attr \
                            and isinstance(a.targets[0].value, ast.Name) and a.targets[0].value.id == "self" and isinstance(a.value, ast.Call):
                        nm = dotted(a.value.func).split(".")[-1]
                        if nm in self.pm.classes:
                            got = nm
            self._attr_cls_cache[k] = got
        return self._attr_cls_cache[k]

    def cls_of(self, v):
        c = super().cls_of(v)
        if c is None and isinstance(v, Sym) and "." in v.path and "(" not in v.path:
            basep, attr = v.path.rsplit(".", 1)
            bc = self.classes.get(basep) or (self.root_cls if basep == "self" else None)
            if bc:
                c = self.attr_class(bc, attr)
        return c

    # ------------------------------------------------------------------ statements
    def call_fi(self, fi, args):
        gen = self._is_gen.get(id(fi.node))
        if gen is None:
            gen = self._is_gen[id(fi.node)] = any(isinstance(x, (ast.Yield, ast.YieldFrom)) for x in walk_no_nested(fi.node))
        if gen:
            self.yields.append([])
            try:
                super().call_fi(fi, args)
            finally:
                out = self.yields.pop()
            return out                       # a generator is run eagerly: the list of what it yields
        return super().call_fi(fi, args)

    def ev_Name(self, n, env):
        v = super().ev_Name(n, env)
        if isinstance(v, Sym) and v.path == n.id and n.id not in env and type(v) is Sym:
            # a module-level constant whose defining expression the constant folder does not handle (frozenset(range(..)) - {..} ...):
            # fold it with this evaluator; accepted only when the result is fully concrete (literals of the source)
            fi = env.get("__fi__")
            r = self.pm.resolve(fi.module, n.id) if fi is not None else None
            if r and r[0] == "value":
                key = (r[1][0].name, n.id)
                if key not in self._const_memo:
                    self._const_memo[key] = v
                    try:
                        import types
                        got = self.ev(r[1][1], {"__fi__": types.SimpleNamespace(module=r[1][0].name, cls=None, short="<module>", is_static=False)})
                        if _concrete_const(got):
                            self._const_memo[key] = got
                    except (Unsupported, NeedAtom, _Raise, AttributeError, TypeError):
                        pass
                return self._const_memo[key]
        return v

    def ev_Yield(self, n, env):
        if not self.yields:
            raise Unsupported("yield outside a generator call")
        self.yields[-1].append(self.ev(n.value, env) if n.value is not None else None)
        return None

    def ev_YieldFrom(self, n, env):
        v = self.concrete(self.ev(n.value, env))
        if not self.yields or not isinstance(v, (list, tuple)):
            raise Unsupported("yield from a symbolic iterable")
        self.yields[-1].extend(v)
        return None

    def ev_NamedExpr(self, n, env):
        v = self.ev(n.value, env)
        self.assign(n.target, v, env)
        return v

    def ev_Starred(self, n, env):
        raise Unsupported("starred expression")

    # ---- generic iteration
    def _n_lins(self, it) -> list[dict]:
        """linear forms of the number of elements of a symbolic iterable (one per sequence whose length it equals)"""
        if isinstance(it, SymIter):
            if it.kind == "range":
                start, stop, step = it.items
                a, b = lin_of(start), lin_of(stop)
                return [lin_add(b, a, -1)] if step == 1 and a is not None and b is not None else []
            if it.kind == "enumerate":
                return self._n_lins(it.items[0])
            return [d for x in it.items for d in self._n_lins(x)]          # zip: (strict) every member has the common length
        if isinstance(it, Sym):
            out = [{f"len({it.path})": 1}]
            if isinstance(it, CallV) and it.fn in ("iter_rows", "rows") and it.recv:      # polars: a frame yields `height` rows
                rp = it.recv.path if isinstance(it.recv, Sym) else it.recv
                out += [{f"{rp}.height": 1}, {f"len({rp})": 1}]
            return out
        if self._generic_seq(it):
            n = self._gen_len(it)
            return [{n.path: 1}] if n is not None else []
        return []

    @staticmethod
    def _gen_len(lst):
        """the (symbolic) length of an accumulator that holds nothing but what ONE generic iteration added, one element per iteration"""
        ms = [x for x in lst if isinstance(x, Marker)]
        inner = [x for x in lst if not isinstance(x, Marker)]
        if len(ms) == 2 and isinstance(lst[0], Marker) and isinstance(lst[-1], Marker) and len(inner) <= 1 and not any(isinstance(x, SpreadV) for x in inner):
            return Sym(f"len(gen{ms[0].loop})")
        return None

    def _elem(self, x, idx: Sym):
        """the element a generic iteration at position idx sees"""
        if isinstance(x, SymIter):
            if x.kind == "range":
                start, _stop, step = x.items
                a = lin_of(start)
                if a is None or not isinstance(step, int):
                    raise Unsupported("range with a symbolic step")
                return mk_lin(lin_add(a, {idx.path: step}), _terms(start, idx))
            if x.kind == "enumerate":
                start = x.items[1]
                a = lin_of(start)
                if a is None:
                    raise Unsupported("enumerate with a non-numeric start")
                return (mk_lin(lin_add(a, {idx.path: 1}), _terms(start, idx)), self._elem(x.items[0], idx))
            return tuple(self._elem(y, idx) for y in x.items)
        if isinstance(x, Sym):
            return SubV(f"{x.path}[{idx.path}]", None, x, idx)
        if isinstance(x, (list, tuple)):
            inner = [e for e in x if not isinstance(e, Marker)]
            if any(isinstance(e, Marker) for e in x) and len(inner) == 1 and isinstance(x[0], Marker) and isinstance(x[-1], Marker):
                # an accumulator filled by one generic iteration of an earlier loop: a sequence of unknown length whose members are what
                # that iteration added (the element itself, or the items of a sequence that was spliced in)
                if isinstance(inner[0], SpreadV):
                    src = Sym(f"items({inner[0].path})")
                    return SubV(f"{src.path}[{idx.path}]", None, src, idx)
                return inner[0]
            raise Unsupported("iteration over an accumulator that mixes literal elements and elements added by a generic iteration")
        return Sym(f"{self.show(x)}[{idx.path}]")

    def assign(self, t, v, env):
        if isinstance(t, (ast.Tuple, ast.List)):
            vv = self.concrete(v)
            if isinstance(vv, Sym):                                  # unpacking of a symbolic sequence: structured element terms
                for i, a in enumerate(t.elts):
                    self.assign(a, SubV(f"{vv.path}[{i}]", None, vv, i), env)
                return
        return super().assign(t, v, env)

    def _begin_generic(self, it) -> Sym:
        self.loops += 1
        idx = Sym(f"#i{self.loops}")
        self.gen_loops[idx.path] = self._n_lins(it)
        if isinstance(it, SymIter) and it.kind == "range":
            self.range_of[idx.path] = tuple(it.items)
        return idx

    @staticmethod
    def _generic_seq(it) -> bool:
        """does the list hold elements that a generic iteration added?  (Every list in scope is bracketed when a generic iteration
        begins; a list nothing was added to inside the brackets -- a literal table that is only read there -- is NOT generic)"""
        if not isinstance(it, (list, tuple)):
            return False
        depth = 0
        for e in it:
            if isinstance(e, Marker):
                depth += 1 if e.kind == "begin" else (-1 if depth else 0)
            elif depth > 0:
                return True
        return False

    @staticmethod
    def _plain(it):
        """a non-generic list without the (empty) brackets of generic iterations"""
        if isinstance(it, (list, tuple)) and any(isinstance(e, Marker) for e in it):
            return type(it)(e for e in it if not isinstance(e, Marker))
        return it

    def _accumulators(self, env) -> list:
        seen = set()
        return [v for v in env.values() if isinstance(v, list) and id(v) not in seen and not seen.add(id(v))]

    def stmt(self, s, env):
        if isinstance(s, ast.For):
            it = self.concrete(self.ev(s.iter, env))
            if isinstance(it, (list, tuple)) and not self._generic_seq(it):
                it = self._plain(it)                         # a literal list (or one filled by a generic iteration that added nothing)
            if isinstance(it, (list, tuple, range, dict)) and not self._generic_seq(it):
                try:
                    for x in it:
                        self.assign(s.target, x, env)
                        try:
                            self.block(s.body, env)
                        except _Continue:
                            continue
                except _Break:
                    pass
                else:
                    self.block(s.orelse, env)
                return
            idx = self._begin_generic(it)
            lists = self._accumulators(env)
            for lst in lists:
                lst.append(Marker("begin", idx.path))
            self.effect("loop-begin", idx.path)
            self.loop_elems[idx.path] = self._elem(it, idx)
            self.assign(s.target, self.loop_elems[idx.path], env)
            try:
                self.block(s.body, env)
            except (_Continue, _Break):
                pass
            self.effect("loop-end", idx.path)
            for lst in lists:
                lst.append(Marker("end", idx.path))
            return
        if isinstance(s, ast.While):
            # ONE generic iteration from an unconstrained entry state of the loop-carried locals
            self.loops += 1
            wid = f"w{self.loops}"
            stored = sorted({t.id for st in s.body for t in ast.walk(st) if isinstance(t, ast.Name) and isinstance(t.ctx, ast.Store)})
            entry = {n: env[n] for n in stored if n in env}
            self.effect("while-begin", wid, {n: self.show(v) for n, v in entry.items()}, raw=entry)
            for n in stored:
                env[n] = Sym(f"{n}@{wid}")
            lists = self._accumulators(env)
            for lst in lists:
                lst.append(Marker("begin", wid))
            if self.truth(self.ev(s.test, env)):
                try:
                    self.block(s.body, env)
                except (_Continue, _Break):
                    pass
                post = {n: env[n] for n in stored if n in env}
                self.effect("while-iter", wid, {n: self.show(v) for n, v in post.items()}, raw=post)
            for lst in lists:
                lst.append(Marker("end", wid))
            for n in stored:
                env[n] = Sym(f"{n}@{wid}'")           # the state after the loop is not tracked
            return
        if isinstance(s, (ast.Delete, ast.Nonlocal)):
            return
        return super().stmt(s, env)

    # ------------------------------------------------------------------ expressions
    def compare(self, op, l, r, node):
        lc, rc = self.concrete(l), self.concrete(r)
        for x in (lc, rc):
            if isinstance(x, Sym) and x.path.startswith(("pl.", "(pl.")):
                return Sym(f"({self.show(lc)} {_OPS[type(op)]} {self.show(rc)})")     # a polars expression, not a condition
        if type(op) in _FLIP and (isinstance(lc, Sym) or isinstance(rc, Sym)):
            a, b = lin_of(lc), lin_of(rc)
            if a is not None and b is not None:
                d = lin_add(a, b, -1)
                if set(d) <= {""}:
                    return _cmp(op, d.get("", 0), 0)
                got = self._position_atom(type(op), d)
                if got is not None:
                    return got
        if isinstance(lc, Sym) or isinstance(rc, Sym):
            if not (isinstance(op, (ast.Is, ast.IsNot)) and rc is None):
                self.cmpinfo[f"{self.show(lc)} {_OPS[type(op)]} {self.show(rc)}"] = (type(op), lc, rc)
        return super().compare(op, lc, rc, node)

    def _position_kind(self, op, d: dict):
        """classify `d op 0` as a comparison of the position of a generic iteration with the ends of the iterated
        collection (0 <= position <= n-1 is known): (loop, 'first'|'last', 'F'|'!F') for an atom, a bool when it is decided
        by the bounds, None if it is some other condition"""
        for idx, n_lins in self.gen_loops.items():
            c = d.get(idx)
            if c not in (1, -1):
                continue
            dd, o = (d, op) if c == 1 else ({k: -x for k, x in d.items()}, _FLIP[op])
            rest = {k: x for k, x in dd.items() if k != idx}
            if set(rest) <= {""}:                            # position  o  k
                k = -rest.get("", 0)
                kind = {ast.Eq: False if k < 0 else "F" if k == 0 else None, ast.NotEq: True if k < 0 else "!F" if k == 0 else None,
                        ast.Lt: False if k <= 0 else "F" if k == 1 else None, ast.LtE: False if k < 0 else "F" if k == 0 else None,
                        ast.Gt: True if k < 0 else "!F" if k == 0 else None, ast.GtE: True if k <= 0 else "!F" if k == 1 else None}[o]
                return kind if kind is None or isinstance(kind, bool) else (idx, "first", kind)
            for nl in n_lins:                                # position  o  n - m
                t = lin_add(rest, nl)
                if set(t) <= {""}:
                    m = t.get("", 0)
                    kind = {ast.Eq: False if m <= 0 else "F" if m == 1 else None, ast.NotEq: True if m <= 0 else "!F" if m == 1 else None,
                            ast.Lt: True if m <= 0 else "!F" if m == 1 else None, ast.LtE: True if m <= 1 else "!F" if m == 2 else None,
                            ast.Gt: False if m <= 1 else "F" if m == 2 else None, ast.GtE: False if m <= 0 else "F" if m == 1 else None}[o]
                    return kind if kind is None or isinstance(kind, bool) else (idx, "last", kind)
            return None
        return None

    def _position_atom(self, op, d: dict):
        got = self._position_kind(op, d)
        if got is None or isinstance(got, bool):
            return got
        idx, name, kind = got
        t = self.atom(f"{idx} is {name}", [True, False])
        return t if kind == "F" else not t

    def cond_value(self, v: dict, op, a, b):
        """truth value of the condition `a op b` in the row with valuation v; None when the row did not consult it"""
        la, lb = lin_of(a), lin_of(b)
        if la is not None and lb is not None and op in _FLIP:
            d = lin_add(la, lb, -1)
            if set(d) <= {""}:
                return _cmp(op(), d.get("", 0), 0)
            got = self._position_kind(op, d)
            if isinstance(got, bool):
                return got
            if got is not None:
                t = v.get(f"{got[0]} is {got[1]}")
                return None if t is None else (t if got[2] == "F" else not t)

        def same(x, y):
            return (x.path == y.path) if isinstance(x, Sym) and isinstance(y, Sym) else (not isinstance(x, Sym) and not isinstance(y, Sym) and type(x) is type(y) and x == y)
        neg = {ast.Eq: ast.NotEq, ast.NotEq: ast.Eq, ast.Lt: ast.GtE, ast.GtE: ast.Lt, ast.Gt: ast.LtE, ast.LtE: ast.Gt}
        for key, (o, l, r) in self.cmpinfo.items():
            if key not in v or o not in _FLIP:
                continue
            for o2, l2, r2 in ((o, l, r), (_FLIP[o], r, l)):
                if same(l2, a) and same(r2, b):
                    if o2 is op:
                        return v[key]
                    if neg[o2] is op:
                        return not v[key]
        return None

    def ev_Attribute(self, n, env):
        base = self.ev(n.value, env)
        if isinstance(base, Sym):
            path = f"{base.path}.{n.attr}"
            if path in self.stores:
                return self.stores[path]
            fi0 = env.get("__fi__")
            mk = (path, base.cls, fi0.cls if (base.path == "self" and fi0 is not None) else None)
            if mk in self._attr_memo:
                return self._attr_memo[mk]
            r = self._ev_attr_sym(n, env, base, path)
            if isinstance(r, (Sym, str, int, float, bool, type(None))) or (isinstance(r, tuple) and all(isinstance(x, (str, int, float, bool, type(None), tuple)) for x in r)):
                if path not in self.stores:
                    self._attr_memo[mk] = r
            return r
        return self._ev_attr_sym(n, env, base, None)

    def _ev_attr_sym(self, n, env, base, path):
        if isinstance(base, Sym):
            bc = self.cls_of(base)
            fi = env.get("__fi__")
            if base.path == "self" and fi is not None and fi.cls:
                bc = bc or fi.cls
            if bc and "(" not in base.path:
                for c0 in self.pm.mro(bc):
                    ci = self.pm.classes.get(c0)
                    if ci and n.attr in ci.class_assigns and not self.pm.is_pydantic(c0) and isinstance(ci.class_assigns[n.attr], (ast.Tuple, ast.Constant)):
                        v = const_expr(self.pm, ci.module, ci.class_assigns[n.attr])
                        if v is not NOC:
                            return v
            if bc and self.pm.find_method(bc, n.attr) is not None and not isinstance(getattr(n, "ctx", None), ast.Store):
                return Sym(path)             # a bound method value: callable through ev_Call
        if isinstance(base, tuple) and len(base) == 2 and base[0] == "class":
            if self.pm.find_method(base[1].name, n.attr) is not None:
                return ("method", base[1].name, n.attr)
        if isinstance(base, list) and n.attr in ("append", "extend", "copy", "insert", "pop", "sort", "reverse", "index", "count"):
            return ("listmethod", base, n.attr)
        n2 = ast.Attribute(value=_Lit(base), attr=n.attr, ctx=ast.Load())
        return super().ev_Attribute(n2, env)

    def ev__Lit(self, n, env):
        return n.v

    def ev_Subscript(self, n, env):
        base = self.concrete(self.ev(n.value, env))
        if isinstance(base, Sym):
            if isinstance(n.slice, ast.Slice):
                lo, hi, st = (self.concrete(self.ev(x, env)) if x is not None else None for x in (n.slice.lower, n.slice.upper, n.slice.step))
                txt = ":".join("" if x is None else str(self.show(x)) for x in ((lo, hi) if st is None else (lo, hi, st)))
                return SliceV(f"{base.path}[{txt}]", None, base, lo, hi, st)
            k = self.concrete(self.ev(n.slice, env))
            return SubV(f"{base.path}[{self.show(k)}]", None, base, k)
        if isinstance(base, (bytes, bytearray)):                      # a bytes literal of the source
            if isinstance(n.slice, ast.Slice):
                lo = self.concrete(self.ev(n.slice.lower, env)) if n.slice.lower else None
                hi = self.concrete(self.ev(n.slice.upper, env)) if n.slice.upper else None
                st = self.concrete(self.ev(n.slice.step, env)) if n.slice.step else None
                if any(isinstance(x, Sym) for x in (lo, hi, st)):
                    raise Unsupported("symbolic slice of concrete bytes")
                return base[lo:hi:st]
            k = self.concrete(self.ev(n.slice, env))
            if isinstance(k, Sym):
                raise Unsupported("symbolic index into concrete bytes")
            try:
                return base[k]
            except IndexError:
                raise _Raise("IndexError")
        return super().ev_Subscript(ast.Subscript(value=_Lit(base), slice=n.slice, ctx=ast.Load()), env)

    def _elts(self, elts, env):
        out = []
        for e in elts:
            if isinstance(e, ast.Starred):
                v = self.concrete(self.ev(e.value, env))
                if not isinstance(v, (list, tuple)):
                    raise Unsupported("unpacking of a symbolic sequence")
                out.extend(v)
            else:
                out.append(self.ev(e, env))
        return out

    def ev_List(self, n, env):
        return self._elts(n.elts, env)

    def ev_Tuple(self, n, env):
        return tuple(self._elts(n.elts, env))

    def ev_Set(self, n, env):
        return tuple(self._elts(n.elts, env))

    def ev_ListComp(self, n, env):
        if len(n.generators) >= 1 and not any(g.is_async for g in n.generators):
            out = []

            def rec(gi, e):
                if gi == len(n.generators):
                    out.append(self.ev(n.elt, e))
                    return
                g = n.generators[gi]
                it = self.concrete(self.ev(g.iter, e))
                if isinstance(it, dict):
                    it = list(it)
                copies = isinstance(n.elt, ast.Name) and isinstance(g.target, ast.Name) and n.elt.id == g.target.id and len(n.generators) == 1
                if isinstance(it, (list, tuple)) and not copies and not self._generic_seq(it):
                    it = self._plain(it)
                if isinstance(it, (list, tuple, range)) and (copies or not self._generic_seq(it)):
                    for x in it:
                        if isinstance(x, Marker):         # a filtered copy of an accumulator keeps the brackets of its generic part
                            out.append(x)
                            continue
                        e2 = dict(e)
                        self.assign(g.target, x, e2)
                        if all(self.truth(self.ev(c, e2)) for c in g.ifs):
                            rec(gi + 1, e2)
                    return
                if not isinstance(it, (Sym, SymIter, list, tuple)):
                    raise _Symbolic()
                idx = self._begin_generic(it)       # one generic iteration, as for a for-statement
                out.append(Marker("begin", idx.path))
                self.effect("loop-begin", idx.path)
                e2 = dict(e)
                self.loop_elems[idx.path] = self._elem(it, idx)
                self.assign(g.target, self.loop_elems[idx.path], e2)
                if all(self.truth(self.ev(c, e2)) for c in g.ifs):
                    rec(gi + 1, e2)
                self.effect("loop-end", idx.path)
                out.append(Marker("end", idx.path))
            try:
                rec(0, env)
                return out
            except _Symbolic:
                pass
        return Sym(f"[{unparse(n)[:60]}]")

    ev_GeneratorExp = ev_ListComp

    def ev_JoinedStr(self, n, env):
        parts = []
        for v in n.values:
            if isinstance(v, ast.Constant):
                parts.append(str(v.value))
            else:
                x = self.concrete(self.ev(v.value, env))
                parts.append("‹" + x.path + "›" if isinstance(x, Sym) else str(x))
        return "".join(parts)

    def binop(self, op, l, r, node):
        l, r = self.concrete(l), self.concrete(r)
        if isinstance(op, (ast.Sub, ast.BitOr, ast.BitAnd, ast.BitXor)) and isinstance(l, tuple) and isinstance(r, tuple) and _concrete_const(l) and _concrete_const(r):
            # set algebra of literal sets (sets are held as tuples)
            keep = {ast.Sub: lambda x: x in l and x not in r, ast.BitOr: lambda x: True, ast.BitAnd: lambda x: x in l and x in r, ast.BitXor: lambda x: (x in l) != (x in r)}[type(op)]
            return tuple(x for x in dict.fromkeys(l + r) if keep(x))
        if isinstance(op, (ast.Add, ast.Sub)) and (isinstance(l, Sym) or isinstance(r, Sym)):
            a, b = lin_of(l), lin_of(r)
            if a is not None and b is not None:
                return mk_lin(lin_add(a, b, 1 if isinstance(op, ast.Add) else -1), _terms(l, r))
        if isinstance(op, ast.Add) and isinstance(l, list) and isinstance(r, (Sym, tuple)):
            return l + (list(r) if isinstance(r, tuple) else [SpreadV(r.path, r.cls, r)])          # accumulator + content of an emitter
        if isinstance(op, ast.Add) and isinstance(r, list) and isinstance(l, Sym):
            return [SpreadV(l.path, l.cls, l)] + r
        if isinstance(op, ast.Add) and (isinstance(l, str) and isinstance(r, Sym) or isinstance(l, Sym) and isinstance(r, str)):
            return (l if isinstance(l, str) else "‹" + l.path + "›") + (r if isinstance(r, str) else "‹" + r.path + "›")
        return super().binop(op, l, r, node)

    def opaque_sym(self, name: str, args, kw=None, recv=None) -> Sym:
        vals = [self.concrete(x) if not isinstance(x, (list, tuple, dict)) else x for x in args]
        a = [str(self.show(x)) for x in vals]
        a += [f"{k}={self.show(v)}" for k, v in (kw or {}).items()]
        rtxt, _dot, fn = name.rpartition(".")
        return CallV(f"{name}({', '.join(a)})", None, fn, recv if recv is not None else rtxt, tuple(vals), tuple((kw or {}).items()))

    def may_inline(self, fi) -> bool:
        if fi.short.split(".")[-1] in self.opaque:
            return False
        if self.inline is not None:
            return bool(self.inline(fi))
        return bool(fi.cls and self.root_cls and (fi.cls in self.pm.mro(self.root_cls) or self.root_cls in self.pm.mro(fi.cls)))

    def ev_Dict(self, n, env):
        out = {}
        for k, v in zip(n.keys, n.values):
            if k is None:                                    # {**other}: the entries of a dict the evaluation holds concretely
                other = self.concrete(self.ev(v, env))
                if not isinstance(other, dict):
                    raise Unsupported("** expansion of a symbolic mapping in a dict display")
                out.update(other)
            else:
                out[self.concrete(self.ev(k, env))] = self.ev(v, env)
        return out

    def invoke(self, fi, recv, args, n, env, kw=None):
        a = fi.node.args
        if a.vararg is not None:                             # *names: the surplus positional arguments as a tuple
            n_pos = len(a.posonlyargs) + len(a.args) - (1 if fi.cls and not fi.is_static else 0)
            kw = {**(kw or {}), a.vararg.arg: tuple(args[n_pos:])}
            args = list(args[:n_pos])
        n_eff = len(self.run_state.effects)
        saved = dict(self.stores)
        try:
            return super().invoke(fi, recv, args, n, env, kw)
        except Unsupported:
            del self.run_state.effects[n_eff:]
            self.stores = saved
            return self.opaque_sym(fi.short, args, kw)

    def call_named(self, cls: str | None, name: str, recv, args, kw, n, env):
        """call of a project function identified by (class, name): model, effect, inline or opaque"""
        label = f"{recv.path}.{name}" if isinstance(recv, Sym) else (f"{cls}.{name}" if cls else name)
        if name in self.effect_calls:
            self.effect("call", name, recv.path if isinstance(recv, Sym) else (cls or ""), tuple(self.show(a) for a in args), {k: self.show(v) for k, v in kw.items()},
                        raw=(recv, tuple(args), dict(kw)))
            return Sym(f"{label}(…)#{len(self.run_state.effects)}")
        fi = self.pm.find_method(cls, name) if cls else next((f for f in self.pm.funcs.values() if f.short == name and f.cls is None), None)
        if fi is not None and self.may_inline(fi):
            return self.invoke(fi, recv if (fi.cls and not fi.is_static) else None, args, n, env, kw)
        return self.opaque_sym(label, args, kw)

    def ev_Call(self, n, env):
        f = n.func
        if any(isinstance(a, ast.Starred) for a in n.args) or any(k.arg is None for k in n.keywords):
            raise Unsupported("star arguments")
        if isinstance(f, ast.Name):
            nm = f.id
            bound = env.get(nm)
            if nm in ("range", "enumerate", "zip", "sorted", "reversed", "iter", "next", "id", "repr", "abs", "round", "sum", "frozenset") and bound is None:
                args = [self.concrete(self.ev(a, env)) for a in n.args]
                kw = {k.arg: self.concrete(self.ev(k.value, env)) for k in n.keywords}
                if nm == "range":
                    if all(isinstance(v, int) for v in args):
                        return range(*args)
                    start, stop, step = (0, args[0], 1) if len(args) == 1 else (args[0], args[1], args[2] if len(args) > 2 else 1)
                    if isinstance(step, int) and step > 0 and lin_of(start) is not None and lin_of(stop) is not None:
                        return SymIter("range", [start, stop, step], str(self.show(stop)))
                    return Sym("range(" + ", ".join(str(self.show(v)) for v in args) + ")")
                args = [self._plain(a) if isinstance(a, (list, tuple)) and not self._generic_seq(a) else a for a in args]     # literal lists: without empty brackets
                if nm == "enumerate":
                    start = kw.get("start", args[1] if len(args) > 1 else 0)
                    if isinstance(args[0], (list, tuple, range)) and isinstance(start, int) and not self._generic_seq(args[0]):
                        return list(enumerate(args[0], start))
                    return SymIter("enumerate", [args[0], start])
                if nm == "zip":
                    if all(isinstance(a, (list, tuple, range)) and not self._generic_seq(a) for a in args):
                        return list(zip(*args))
                    if any(isinstance(a, (list, tuple, range)) and not self._generic_seq(a) for a in args):
                        raise _Raise("zip(strict) of a one-element literal list and a sequence of unknown length")
                    return SymIter("zip", list(args))
                if nm in ("sorted", "reversed"):
                    if isinstance(args[0], (list, tuple, range)) and not any(isinstance(x, Sym) for x in args[0]) and not kw:
                        return sorted(args[0]) if nm == "sorted" else list(reversed(args[0]))
                    return self.opaque_sym(nm, args, kw)
                if nm == "frozenset":
                    return tuple(args[0]) if args and isinstance(args[0], (list, tuple, range)) else (self.opaque_sym(nm, args) if args else ())
                if nm == "sum" and args and isinstance(args[0], (list, tuple)) and all(isinstance(x, (int, float)) for x in args[0]):
                    return sum(args[0])
                if nm in ("abs", "round") and args and isinstance(args[0], (int, float)) and not kw and len(args) == 1:
                    return abs(args[0]) if nm == "abs" else round(args[0])
                return self.opaque_sym(nm, args, kw)
            if nm in ("deepcopy", "copy") and bound is None and len(n.args) >= 1:
                a0 = self.concrete(self.ev(n.args[0], env))
                new = self.fresh_copy(a0, deep=nm == "deepcopy")
                if isinstance(a0, Sym):
                    self.effect("copy", new.path, a0.path, "deep" if nm == "deepcopy" else "shallow")
                return new
            if nm == "len" and bound is None and len(n.args) == 1:
                v = self.concrete(self.ev(n.args[0], env))
                if isinstance(v, Sym):
                    return Sym(f"len({v.path})")
                if self._generic_seq(v) and self._gen_len(v) is not None:
                    return self._gen_len(v)
                if isinstance(v, SymIter) or self._generic_seq(v):
                    raise Unsupported("len of a sequence built by a generic iteration")
                return len(self._plain(v))
            if nm in ("str", "int", "float") and bound is None and len(n.args) == 1 and not n.keywords:
                v = self.concrete(self.ev(n.args[0], env))
                if isinstance(v, Sym):
                    return CallV(f"{nm}({v.path})", None, nm, "", (v,), ())         # a conversion of a term: keeps its argument
                return super().ev_Call(ast.Call(func=f, args=[_Lit(v)], keywords=[]), env)
            if nm == "partial" and bound is None and n.args:
                fv = self.ev(n.args[0], env)                      # functools.partial: the callable value with its leading arguments
                if self._callable_value(fv):
                    return ("partial", fv, [self.ev(a, env) for a in n.args[1:]], {k.arg: self.ev(k.value, env) for k in n.keywords})
            if self._callable_value(bound):
                args = [self.ev(a, env) for a in n.args]
                kw = {k.arg: self.ev(k.value, env) for k in n.keywords}
                return self.call_value(bound, args, kw, n, env)
            if bound is None and nm not in _DT_BUILTINS:
                fi = env.get("__fi__")
                r = self.pm.resolve(fi.module, nm) if fi else None
                if r is not None and r[0] == "class":
                    kw = {k.arg: self.ev(k.value, env) for k in n.keywords}
                    for a in n.args:
                        self.ev(a, env)
                    self.effect("construct", r[1].name, {k: self.show(v) for k, v in kw.items()}, raw=dict(kw))
                    return Sym(f"{r[1].name}(…)#{len(self.run_state.effects)}", r[1].name)
                if r is None or r[0] == "func" or r[0] == "ext":
                    args = [self.ev(a, env) for a in n.args]
                    kw = {k.arg: self.ev(k.value, env) for k in n.keywords}
                    if r is not None and r[0] == "func":
                        if nm in self.effect_calls:
                            self.effect("call", nm, "", tuple(self.show(a) for a in args), {k: self.show(v) for k, v in kw.items()}, raw=(None, tuple(args), dict(kw)))
                            return Sym(f"{nm}(…)#{len(self.run_state.effects)}")
                        if self.may_inline(r[1]) or (self.inline is None and r[1].cls is None and r[1].module == (fi.module if fi else None) and nm not in self.opaque):
                            return self.invoke(r[1], None, args, n, env, kw)
                        return self.opaque_sym(nm, args, kw)
                    if any(f2.short == nm and f2.cls is None for f2 in self.pm.funcs.values()):
                        return self.call_named(None, nm, None, args, kw, n, env)     # imported inside the function
                    if nm in self.pm.classes:
                        self.effect("construct", nm, {k: self.show(v) for k, v in kw.items()}, raw=dict(kw))
                        return Sym(f"{nm}(…)#{len(self.run_state.effects)}", nm)
                    return self.opaque_sym(nm, args, kw)
            return super().ev_Call(n, env)
        if isinstance(f, ast.Attribute):
            m = f.attr
            base = self.ev(f.value, env)
            if isinstance(base, list) and m in ("append", "extend", "insert", "copy", "index", "count", "pop", "sort", "reverse"):
                args = [self.concrete(self.ev(a, env)) for a in n.args]
                if m == "append":
                    base.append(args[0])
                elif m == "extend":
                    if isinstance(args[0], (list, tuple)):
                        base.extend(args[0])
                    else:
                        base.append(SpreadV(args[0].path, args[0].cls, args[0]) if isinstance(args[0], Sym) else args[0])      # the items of a symbolic sequence (content of one emitter)
                elif m == "insert" and isinstance(args[0], int):
                    base.insert(args[0], args[1])
                elif m == "copy":
                    return list(base)
                elif m == "pop" and (not args or isinstance(args[0], int)) and base:
                    return base.pop(*args)
                elif m == "reverse":
                    base.reverse()
                else:
                    raise Unsupported(f"list.{m} in decision logic")
                return None
            if isinstance(base, str) and m == "join" and len(n.args) == 1:
                a = self.concrete(self.ev(n.args[0], env))
                if isinstance(a, Sym):
                    return a
                if isinstance(a, (list, tuple)):
                    flat = list(_flat(a))             # an element that is itself a joined sequence of pieces is spliced in
                    if all(isinstance(x, str) for x in flat):
                        return base.join(flat)
                    if base.strip() == "" and all(isinstance(x, (str, Sym, Marker)) for x in flat):
                        if all(isinstance(x, (str, Sym)) for x in flat) and len(flat) <= 64 and not any(isinstance(x, Sym) and re.search(r"\(…\)(#\d+)?$", x.path) for x in flat):
                            return base.join(x if isinstance(x, str) else "‹" + x.path + "›" for x in flat)
                        self.effect("join", base, len(flat))
                        return flat                   # the sequence of emitted pieces (joined by whitespace only)
                raise Unsupported("join of " + repr(a)[:40])
            if isinstance(base, tuple) and len(base) == 2 and base[0] == "class":
                args = [self.ev(a, env) for a in n.args]
                kw = {k.arg: self.ev(k.value, env) for k in n.keywords}
                return self.call_named(base[1].name, m, None, args, kw, n, env)
            if isinstance(base, Sym):
                args = [self.ev(a, env) for a in n.args]
                kw = {k.arg: self.ev(k.value, env) for k in n.keywords}
                return self.call_method_on(base, m, args, kw, n, env)
            n2 = ast.Call(func=ast.Attribute(value=_Lit(base), attr=m, ctx=ast.Load()), args=n.args, keywords=n.keywords)
            return super().ev_Call(n2, env)
        return super().ev_Call(n, env)

    @staticmethod
    def _callable_value(v) -> bool:
        if isinstance(v, Sym) and not isinstance(v, (CallV, SubV, SliceV, LinV)):
            return "." in v.path and "(" not in v.path.rsplit(".", 1)[1] and "[" not in v.path.rsplit(".", 1)[1]
        return isinstance(v, tuple) and bool(v) and v[0] in ("method", "closure", "partial")

    def call_value(self, fv, args, kw, n, env):
        """call of a callable VALUE: a bound method held in a local / parameter, a method taken from a class, a closure, a partial"""
        if isinstance(fv, Sym):
            basep, m = fv.path.rsplit(".", 1)
            return self.call_method_on(Sym(basep, self.classes.get(basep)), m, args, kw, n, env)
        if fv[0] == "method":
            return self.call_named(fv[1], fv[2], None, args, kw, n, env)
        if fv[0] == "closure":
            return self.call_closure(fv, args, n, env)
        return self.call_value(fv[1], list(fv[2]) + list(args), {**fv[3], **kw}, n, env)

    def call_method_on(self, base: Sym, m: str, args, kw, n, env):
        if m in self.effect_calls:
            self.effect("call", m, base.path, tuple(self.show(a) for a in args), {k: self.show(v) for k, v in kw.items()}, raw=(base, tuple(args), dict(kw)))
            return Sym(f"{base.path}.{m}(…)#{len(self.run_state.effects)}")
        if m == "get" and self.cls_of(base) is None:
            k = self.concrete(args[0])
            p = f"{base.path}.get({self.show(k)})"
            return self.stores.get(p, Sym(p))
        if m in ("copy", "model_copy", "clone", "__deepcopy__", "__copy__") and not args:
            new = self.fresh_copy(base, deep=bool(kw.get("deep")) or m == "__deepcopy__")
            self.effect("copy", new.path, base.path, "deep" if (kw.get("deep") or m == "__deepcopy__") else "shallow")
            upd = kw.get("update")
            if isinstance(upd, dict):
                for k, v in upd.items():
                    if isinstance(k, str):
                        self.stores[f"{new.path}.{k}"] = v
                        self.effect("store", new.path, k, self.show(v))
            elif upd is not None:
                raise Unsupported("model_copy(update=<symbolic>)")
            return new
        bc = self.cls_of(base)
        fi = env.get("__fi__")
        if base.path == "self" and fi is not None and fi.cls:
            bc = fi.cls
        got = self.pm.find_method(bc, m) if bc else None
        if got is not None and self.may_inline(got):
            return self.invoke(got, base, args, n, env, kw)
        return self.opaque_sym(f"{base.path}.{m}", args, kw, recv=base)


def _concrete_const(v, depth: int = 0) -> bool:
    if isinstance(v, (int, float, str, bytes, bool, type(None))):
        return True
    if isinstance(v, (tuple, list, range)) and depth < 4:
        return all(_concrete_const(x, depth + 1) for x in v)
    return False


class _Lit(ast.expr):
    """an already evaluated value inside a synthetic node"""
    _fields = ()

    def __init__(self, v):
        super().__init__()
        self.v = v


class _Symbolic(Exception):
    pass


_DT_BUILTINS = {"deepcopy", "copy", "len", "bool", "int", "str", "float", "isinstance", "hasattr", "getattr", "setattr", "any", "all",
                "min", "max", "list", "tuple", "dict", "set", "print", "cast"}

# ===============================================================================================================
# rules
# ===============================================================================================================

def required_params(fi, drop_self: bool = False) -> list[str]:
    """positional parameters WITHOUT a default (an opt-in parameter with a default is evaluated with its default: nobody passes it
    where the rule's summary is read, or the normaliser has already substituted it)"""
    a = fi.node.args
    allp = list(a.posonlyargs) + list(a.args)
    req = [x.arg for x in allp[:len(allp) - len(a.defaults)]]
    return [x for x in req if not (drop_self and x in ("self", "cls"))]


PLACEMENTS = ["first", "last", "all"]
PLACEMENT_ATOMS = {f"document.rtf_page.{f}": PLACEMENTS for f in ("page_title", "page_footnote", "page_source")}


def spec_show(loc, first, last) -> bool:
    return loc == "all" or (loc == "first" and first) or (loc == "last" and last)


def predicate_tables(ctx: Ctx, rule: str) -> None:
    pm = ctx.pm
    for short, pname in (("PageRenderer._should_show", "location"), ("PageFeatureProcessor._should_show_element", "element_location")):
        fi = pm.func(short)
        params = required_params(fi, drop_self=True)
        if len(params) != 2:
            ctx.gap(rule, f"{short}: the placement predicate no longer takes (placement, page)")
            continue
        pname, pg = params
        dt = DT(pm, atoms={pname: PLACEMENTS + ["<other>"], f"{pg}.is_first_page": [True, False], f"{pg}.is_last_page": [True, False]},
                classes={pg: "PageContext"})
        rows = 0
        try:
            for loc, first, last in itertools.product(PLACEMENTS + ["<other>"], [True, False], [True, False]):
                val = {pname: loc, f"{pg}.is_first_page": first, f"{pg}.is_last_page": last}
                try:
                    r = dt.run(fi, {pname: Sym(pname), pg: Sym(pg, "PageContext")}, val)
                except NeedAtom as e:
                    ctx.violation(rule, short, "depends on " + e.key, fi.where(), f"{short}: the placement predicate depends on `{e.key}`, which is not one of (placement, is_first_page, is_last_page)")
                    break
                rows += 1
                want = spec_show(loc, first, last)
                got = bool(dt.truth(r.ret)) if r.raised is None else None
                if got != want:
                    ctx.violation(rule, short, f"({loc},{first},{last}) -> {got}", fi.where(),
                                  f"{short}(placement={loc!r}, first={first}, last={last}) = {got}, specification says {want}")
        except (Unsupported, NeedAtom) as e:
            ctx.gap(rule, f"{short}: the placement predicate is outside the decision-table subset ({e})")
            continue
        ctx.instance(rule, fi.where(), f"{short}: decision table over placement x first x last, {rows} rows, equals spec")


def _flat(x):
    if isinstance(x, (list, tuple)):
        for y in x:
            yield from _flat(y)
    else:
        yield x


def emit_of(x) -> str | None:
    """name of the emitter whose (symbolic) result this element is"""
    if isinstance(x, Sym):
        m = re.search(r"([A-Za-z_][A-Za-z_0-9]*)\(…\)(#\d+)?$", x.path)
        if m:
            return m.group(1)
    if isinstance(x, str):
        m = re.search(r"‹[^‹›]*?([A-Za-z_][A-Za-z_0-9]*)\(…\)(#\d+)?›", x)
        if m:
            return m.group(1)
    return None


def emitted(ret) -> list[tuple[str, bool]] | None:
    """(emitter name | literal text, inside a symbolic loop) for every element of a returned accumulator"""
    if not isinstance(ret, (list, tuple)):
        return None
    out = []
    depth = 0
    for x in _flat(ret):
        if isinstance(x, Marker):
            depth += 1 if x.kind == "begin" else -1
            continue
        nm = emit_of(x)
        if nm is not None:
            out.append((nm, depth > 0))
        elif isinstance(x, str):
            out.append(("lit:" + x, depth > 0))
    return out


def _presence(v: dict, comp: str):
    """(present, consulted): every consulted atom about the existence of document.<comp> says it exists"""
    pat = re.compile(r"^(bool\()?(copy(#\d+)?\()?document\." + comp + r"\)?(\.text)?\)?( is None)?$")
    keys = [k for k in v if pat.match(k)]
    return all((not v[k]) if k.endswith(" is None") else bool(v[k]) for k in keys), bool(keys)


def _shown3(v: dict, field: str, first, last):
    """three-valued spec: None when the code decided without consulting an atom the specification needs"""
    loc = v.get(f"document.rtf_page.{field}")
    if loc is None:
        return None
    if loc == "all":
        return True
    return first if loc == "first" else last if loc == "last" else False


RENDER_ORDER = ["generate_page_break", "encode_title", "encode_subline", "_generate_subline_header", "_render_column_headers",
                "encode_spanning_row", "_render_body", "encode_footnote", "encode_source"]
RENDER_PLACED = {"encode_title": ("rtf_title", "page_title"), "encode_subline": ("rtf_subline", "page_title"),
                 "encode_footnote": ("rtf_footnote", "page_footnote"), "encode_source": ("rtf_source", "page_source")}
RELEVANT = ("rtf_title", "rtf_subline", "rtf_footnote", "rtf_source", "rtf_page.page_", "is_first_page", "is_last_page", "needs_header",
            "rtf_column_header", " is first", " is last")


def render_table(ctx: Ctx) -> dict:
    """PageRenderer.render evaluated as a decision table: for every configuration, which blocks reach the returned
    page elements and in which order.  R06.1: placed components appear iff present ∧ spec(placement field);
    R06.2: block order, once-ness, page break iff not first, column headers iff needs_header ∧ configured."""
    memo = ctx.__dict__.setdefault("_memo", {}).get("render_table")
    if memo is not None:
        return memo
    pm = ctx.pm
    fi = pm.func("PageRenderer.render")
    ps = required_params(fi)
    out = {"fi": fi, "rows": [], "error": None}
    ctx.__dict__["_memo"]["render_table"] = out
    if len(ps) != 3:
        out["error"] = "render no longer takes (self, document, page)"
        return out
    _s, doc, pg = ps
    atoms = {k.replace("document.", doc + "."): v for k, v in PLACEMENT_ATOMS.items()}
    atoms.update({f"{pg}.is_first_page": [True, False], f"{pg}.is_last_page": [True, False], f"{pg}.needs_header": [True, False]})
    args = {"self": Sym("self", "PageRenderer"), doc: Sym(doc, "RTFDocument"), pg: Sym(pg, "PageContext")}
    effect = set(RENDER_ORDER) | {"encode_figure", "encode_page_header", "encode_page_footer"}
    for regime, extra in ((True, {}), (False, {f"bool({doc}.{c})": [True] for c, _f in RENDER_PLACED.values()} |
                                         {f"bool({doc}.{c}.text)": [True] for c, _f in RENDER_PLACED.values()})):
        dt = FlowDT(pm, atoms={**atoms, **extra}, effect_calls=effect, classes={pg: "PageContext", doc: "RTFDocument", "self": "PageRenderer"},
                    relevant=RELEVANT, regime=regime, max_atoms=40)
        try:
            rows = dt.table(fi, args, limit=60000)
        except (Unsupported, NeedAtom) as e:
            out["error"] = f"render is outside the decision-table subset ({e})"
            return out
        for v, r in rows:
            v = {k.replace(doc + ".", "document.").replace(pg + ".", "page."): x for k, x in v.items()}
            out["rows"].append((v, r, emitted(r.ret), regime))
    ctx.extra["render_atoms_pinned"] = sorted(dt.pinned)[:20]
    return out


def r06_1_render(ctx: Ctx, rule: str = "R06.1") -> None:
    t = render_table(ctx)
    fi = t["fi"]
    if t["error"]:
        ctx.gap(rule, t["error"])
        return
    rows = t["rows"]
    if any(seq is None for _v, r, seq, _g in rows if r.raised is None):
        ctx.gap(rule, "render does not return the accumulated list of page elements on every path")
        return
    for callee, (comp, field) in RENDER_PLACED.items():
        ever = any(seq and any(nm == callee for nm, _l in seq) for _v, _r, seq, _g in rows)
        if not ever:
            ctx.gap(rule, f"no path of PageRenderer.render lets the result of {callee} reach the page elements (emit site not re-identified)")
            continue
        bad: dict[str, list] = {}
        n = 0
        for v, r, seq, _g in rows:
            if r.raised is not None or seq is None:
                continue
            n += 1
            got = any(nm == callee for nm, _l in seq)
            present, _c = _presence(v, comp)
            sh = _shown3(v, field, v.get("page.is_first_page"), v.get("page.is_last_page"))
            if not present:
                if got:
                    bad.setdefault(f"{callee} shown although document.{comp} is absent or empty", []).append(v)
                continue
            if sh is None:
                what = f"rtf_page.{field}" if f"document.rtf_page.{field}" not in v else ("is_first_page" if v[f"document.rtf_page.{field}"] == "first" else "is_last_page")
                bad.setdefault(f"{callee} ignores {what}", []).append(v)
            elif got != sh:
                bad.setdefault(f"{callee} shown={got} where rtf_page.{field} says {sh}", []).append(v)
        ctx.instance(rule, fi.where(), f"render: {callee} reaches the page elements iff document.{comp} present ∧ spec(rtf_page.{field}) over {n} configurations, "
                     f"{sum(len(x) for x in bad.values())} disagreement(s)")
        for k, vs in sorted(bad.items()):
            ex = {a: b for a, b in vs[0].items() if any(s in a for s in (comp, field, "is_first", "is_last"))}
            ctx.violation(rule, fi.short, k, fi.where(), f"render: {k} on {len(vs)} configuration(s), e.g. {ex}")


def r06_2(ctx: Ctx) -> None:
    t = render_table(ctx)
    fi = t["fi"]
    if t["error"]:
        ctx.gap("R06.2", t["error"])
        return
    rows = [(v, r, seq) for v, r, seq, _g in t["rows"] if r.raised is None and seq is not None]
    if not rows:
        ctx.gap("R06.2", "no evaluated path of render returns its page elements")
        return
    seen = set()
    bad: dict[str, dict] = {}
    for v, r, seq in rows:
        names = [(nm, lp) for nm, lp in seq if nm in RENDER_ORDER]
        seen.update(nm for nm, _l in names)
        for (a, _la), (b, _lb) in zip(names, names[1:]):
            if RENDER_ORDER.index(a) > RENDER_ORDER.index(b):
                bad.setdefault(f"{b} !< {a}", v)
        for nm in set(n_ for n_, _l in names):
            k = sum(1 for n_, _l in names if n_ == nm)
            if k > 1:
                bad.setdefault(f"{nm} x{k}", v)
        for nm, lp in names:
            if lp and nm != "encode_spanning_row":
                bad.setdefault(f"{nm} in loop", v)
        got = any(nm == "generate_page_break" for nm, _l in names)
        first = v.get("page.is_first_page")
        if first is None or got != (not first):
            bad.setdefault("page break guard " + ("ignores is_first_page" if first is None else f"shown={got} on first={first}"), v)
        got = any(nm == "_render_column_headers" for nm, _l in names)
        nh, ch = v.get("page.needs_header"), v.get("bool(document.rtf_column_header)")
        want = False if nh is False or ch is False else True if (nh and ch) else None
        if want is None or got != want:
            bad.setdefault("header guard " + ("ignores needs_header" if nh is None else "ignores rtf_column_header" if ch is None and want is None else f"shown={got} at needs_header={nh}, configured={ch}"), v)
        if not any(nm == "_render_body" for nm, _l in names):
            bad.setdefault("_render_body missing on a path", v)
    for nm in RENDER_ORDER:
        if nm not in seen:
            ctx.gap("R06.2", f"no evaluated path of render lets the result of {nm} reach the page elements (emit site not re-identified)")
    ctx.instance("R06.2", fi.where(), f"render: order of the emitted blocks {' < '.join(n for n in RENDER_ORDER if n in seen)}, once-ness, page break iff not first, "
                 f"column headers iff needs_header ∧ configured: {len(rows)} configurations, {len(bad)} kind(s) of disagreement")
    for k, v in sorted(bad.items()):
        ctx.violation("R06.2", fi.short, k, fi.where(), f"render: {k} (required: page break iff not first page; title, subline, column headers iff needs_header, "
                      f"group heading, body, footnote, source in this order, each once per page); e.g. at {dict(list(v.items())[:8])}")


# ------------------------------------------------------------------------------------------------ figure pages

FIG_EMIT = {"encode_title", "encode_subline", "encode_footnote", "encode_source", "_encode_single_figure"}


FIG_COMPONENTS = (("encode_title", "rtf_title", "page_title"), ("encode_subline", "rtf_subline", "page_title"), ("_encode_single_figure", None, None),
                  ("encode_footnote", "rtf_footnote", "page_footnote"), ("encode_source", "rtf_source", "page_source"))


def _fig_expected(v: dict, first, last) -> list[tuple[str, Any]]:
    """(piece, shown) of ONE figure page, in the specified order; shown is None when the specification depends on a position
    condition (first / last figure) that the evaluated path did not consult"""
    out = []
    for callee, comp, field in FIG_COMPONENTS:
        if comp is None:
            out.append((callee, True))
            continue
        present, _c = _presence(v, comp)
        loc = v[f"document.rtf_page.{field}"]
        sh = True if loc == "all" else first if loc == "first" else last if loc == "last" else False
        out.append((callee, False if not present else sh))
    out.append(("\\page", None if last is None else not last))
    return out


def iteration_pieces(ret):
    """(pieces outside any generic iteration, {loop: pieces of its generic iteration}) of a returned accumulator; a piece is the
    name of the emitter whose result it is, or 'lit:<text>'"""
    outside, inside = [], {}
    stack = []
    for x in _flat(ret):
        if isinstance(x, Marker):
            if x.kind == "begin":
                stack.append(x.loop)
                inside.setdefault(x.loop, [])
            elif stack:
                stack.pop()
            continue
        nm = emit_of(x)
        piece = nm if nm is not None else ("lit:" + x if isinstance(x, str) else None)
        if piece is None:
            continue
        (inside[stack[-1]] if stack else outside).append(piece)
    return outside, inside


def figure_path_table(ctx: Ctx) -> dict:
    """_encode_figure_only evaluated over a symbolic document; the per-figure loop is ONE generic iteration whose position
    conditions are the atoms `is first` / `is last`"""
    memo = ctx.__dict__.setdefault("_memo", {}).get("figure_table")
    if memo is not None:
        return memo
    pm = ctx.pm
    fi = pm.func("UnifiedRTFEncoder._encode_figure_only")
    out = {"fi": fi, "rows": [], "error": None, "dt": None}
    ctx.__dict__["_memo"]["figure_table"] = out
    ps = required_params(fi)
    if len(ps) != 2:
        out["error"] = "_encode_figure_only no longer takes (self, document)"
        return out
    doc = ps[1]
    dt = FlowDT(pm, atoms={k.replace("document.", doc + "."): v for k, v in PLACEMENT_ATOMS.items()}, effect_calls=FIG_EMIT, opaque={"_get_dimension", "rtf_read_figure"},
                classes={doc: "RTFDocument", "self": "UnifiedRTFEncoder"}, relevant=RELEVANT, regime=True, max_atoms=40)
    try:
        rows = dt.table(fi, {"self": Sym("self", "UnifiedRTFEncoder"), doc: Sym(doc, "RTFDocument")}, limit=40000)
    except (Unsupported, NeedAtom) as e:
        out["error"] = f"_encode_figure_only is outside the decision-table subset ({e})"
        return out
    out["dt"] = dt
    out["doc"] = doc
    for v, r in rows:
        v = {k.replace(doc + ".", "document."): x for k, x in v.items()}
        out["rows"].append((v, r))
    return out


def placement_rule(ctx: Ctx, rule: str, figure_only: bool = False) -> None:
    """figure-only documents: in the generic iteration of the per-figure loop, for every valuation of presence x placement x
    (is first, is last), the pieces that reach the output are [title][subline] figure [footnote][source] (\\page unless last),
    each placed component present ∧ spec(placement field, first, last); nothing placed is emitted outside the loop"""
    t = figure_path_table(ctx)
    fi = t["fi"]
    if t["error"]:
        ctx.gap(rule, t["error"])
        return
    bad: dict[str, dict] = {}
    n_rows = 0
    names = {"encode_title": "title", "encode_subline": "subline", "encode_footnote": "footnote", "encode_source": "source", "_encode_single_figure": "figure", "\\page": "page break"}
    for v, r in t["rows"]:
        if r.raised is not None:
            continue
        if not isinstance(r.ret, (list, tuple)):
            ctx.gap(rule, "the figure path does not return the joined sequence of its parts")
            return
        outside, inside = iteration_pieces(r.ret)
        loops = [lp for lp, ps in inside.items() if any(p in FIG_EMIT for p in ps)]
        if [p for p in outside if p in FIG_EMIT] or len(loops) != 1:
            ctx.gap(rule, f"the figure path emits placed components / figures outside one per-figure loop ({[p for p in outside if p in FIG_EMIT][:3]}, {len(loops)} loop(s))")
            return
        lp = loops[0]
        got = [p if p in FIG_EMIT else "\\page" for p in inside[lp] if p in FIG_EMIT or (p.startswith("lit:") and p[4:].strip() == "\\page")]
        first, last = v.get(f"{lp} is first"), v.get(f"{lp} is last")
        n_rows += 1
        free = [f for f in ("page_title", "page_footnote", "page_source") if f"document.rtf_page.{f}" not in v]
        for combo in itertools.product(PLACEMENTS, repeat=len(free)):
            v2 = {**v, **{f"document.rtf_page.{f}": c for f, c in zip(free, combo)}}
            want = _fig_expected(v2, first, last)
            if figure_only:
                want = [(c, sh) for c, sh in want if c != "encode_subline"]
                got_c = [x for x in got if x != "encode_subline"]
            else:
                got_c = got
            shown = {a: b for a, b in v2.items() if "rtf_page.page_" in a or " is " in a or "rtf_" in a and a.startswith(("bool(", "document", "copy"))}
            diff = None
            for c, sh in want:
                k = got_c.count(c)
                if sh is None:
                    fld = next((f for cc, _comp, f in FIG_COMPONENTS if cc == c), None)
                    cond = "first" if fld and v2.get(f"document.rtf_page.{fld}") == "first" else "last"
                    diff = (f"{names[c]} placement", f"{names[c]} is {'emitted' if k else 'left out'} without consulting whether the figure is the {cond} one")
                elif k != (1 if sh else 0):
                    diff = (f"{names[c]} placement", f"{names[c]} emitted {k}x on a figure page where the specification says {'once' if sh else 'not at all'}")
                if diff:
                    break
            if diff is None and got_c != [c for c, sh in want if sh]:
                diff = ("order of the pieces", f"pieces {got_c[:8]} instead of {[c for c, sh in want if sh][:8]}")
            if diff:
                bad.setdefault(diff[0], {**shown, "what": diff[1]})
                break
    ctx.instance(rule, fi.where(), f"figure path: ONE generic iteration of the per-figure loop over {n_rows} valuations of presence x placement x (is first, is last): "
                 f"emitted pieces equal [title][subline] figure [footnote][source] (\\page unless last) with spec placement; {len(bad)} kind(s) of disagreement")
    if not n_rows:
        ctx.gap(rule, "no evaluated path of the figure path returns its parts")
    for k, ex in sorted(bad.items()):
        what = ex.pop("what", k)
        ctx.violation(rule, fi.short, k, fi.where(), f"figure path: {what}; e.g. {ex}")


# ------------------------------------------------------------------------------------------------ R06.3

STRATEGIES = ("DefaultPaginationStrategy.paginate", "PageByStrategy.paginate", "SublineStrategy.paginate")


def _builds_pages(pm, fi, depth: int = 3) -> bool:
    for c in ast.walk(fi.node):
        if isinstance(c, ast.Call):
            d = dotted(c.func)
            if d.split(".")[-1] == "PageContext":
                return True
            if depth > 0 and isinstance(c.func, ast.Attribute) and isinstance(c.func.value, ast.Name) and c.func.value.id in ("self", "cls") and fi.cls:
                g = pm.find_method(fi.cls, c.func.attr)
                if g is not None and g is not fi and _builds_pages(pm, g, depth - 1):
                    return True
    return False


def truth_of(v: dict, x):
    """truth value of a term under the valuation of a row (None: the row does not decide it)"""
    if isinstance(x, Sym):
        return v.get(f"bool({x.path})")
    if isinstance(x, Marker):
        return None
    return bool(x)


def loop_of(effects, k: int) -> str | None:
    """the generic loop iteration inside which effect number k (1-based) happens"""
    open_ = []
    for e in effects[:k - 1]:
        if e[0] == "loop-begin":
            open_.append(e[1])
        elif e[0] == "loop-end" and open_ and open_[-1] == e[1]:
            open_.pop()
    return open_[-1] if open_ else None


def r06_3(ctx: Ctx) -> None:
    """each strategy is evaluated over a symbolic pagination context; the loop over the (symbolic) collection of pages
    is ONE generic iteration.  Every PageContext constructed there must carry, as a function of the consulted
    conditions: is_first_page = (page_number == 1), is_last_page = (page_number == total_pages) with total_pages the
    number of iterated pages, needs_header = pageby_header ∨ first page"""
    pm = ctx.pm
    for short in STRATEGIES:
        fi = pm.func(short)
        ps = required_params(fi)
        if len(ps) != 2:
            ctx.gap("R06.3", f"{short} no longer takes (self, context)")
            continue
        cx = ps[1]
        dt = FlowDT(pm, classes={cx: "PaginationContext", "self": fi.cls}, inline=lambda f: _builds_pages(pm, f), max_atoms=30)
        try:
            rows = dt.table(fi, {"self": Sym("self", fi.cls), cx: Sym(cx, "PaginationContext")}, limit=20000)
        except (Unsupported, NeedAtom) as e:
            ctx.gap("R06.3", f"{short}: outside the interpretable subset ({str(e)[:120]})")
            continue
        seen = 0
        bad: dict[str, str] = {}
        gaps: dict[str, None] = {}
        firsts, lasts = set(), set()
        for v, r in rows:
            if r.raised is not None:
                continue
            ph = v.get(f"bool({cx}.rtf_body.pageby_header)")
            for k, e in enumerate(r.effects, 1):
                if e[0] != "construct" or e[1] != "PageContext":
                    continue
                kw = r.raw.get(k, {})
                lp = loop_of(r.effects, k)
                if lp is None:
                    gaps[f"a PageContext is constructed outside a loop over the pages"] = None
                    continue
                seen += 1
                pn, tp = kw.get("page_number"), kw.get("total_pages")
                if pn is None or tp is None or not all(x in kw for x in ("is_first_page", "is_last_page", "needs_header")):
                    gaps["PageContext(...) is not given page_number, total_pages, is_first_page, is_last_page and needs_header by keyword"] = None
                    continue
                first = dt.cond_value(v, ast.Eq, pn, 1)
                if first is None and lin_of(pn) is not None and set(lin_add(lin_of(pn), {lp: 1, "": 1}, -1)) <= set():
                    first = v.get(f"{lp} is first")
                if first is None and v.get(f"{lp} is first") is not None and isinstance(pn, Sym) and lp in pn.path:
                    first = v.get(f"{lp} is first")                  # by position: the pages are numbered 1..n in iteration order
                last = dt.cond_value(v, ast.Eq, pn, tp)
                if last is None and v.get(f"{lp} is last") is not None and isinstance(pn, Sym) and lp in pn.path:
                    last = v.get(f"{lp} is last")
                # total_pages = number of iterated pages
                n_lins = dt.gen_loops.get(lp, [])
                lt = lin_of(tp)
                if lt is not None and n_lins:
                    diffs = [lin_add(lt, nl, -1) for nl in n_lins]
                    if not any(not d for d in diffs):
                        off = [d[""] for d in diffs if set(d) == {""}]
                        if off:
                            bad.setdefault(f"total_pages off by {off[0]}", f"total_pages is `{dt.show(tp)}`[:80], the number of iterated pages {'+' if off[0] > 0 else '-'} {abs(off[0])}")
                        elif not re.search(r"\[page\].*(n_unique|max|unique)\(", str(dt.show(tp))):
                            gaps[f"total_pages `{str(dt.show(tp))[:80]}` could not be related to the number of iterated pages"] = None
                f_, l_, nh = truth_of(v, kw["is_first_page"]), truth_of(v, kw["is_last_page"]), truth_of(v, kw["needs_header"])
                firsts.add((first, f_, last))
                lasts.add((last, l_, first))
                if f_ is None or l_ is None or nh is None:
                    gaps[f"a page flag is a term the valuation does not decide (`{str(dt.show(kw['is_first_page']))[:40]}`, `{str(dt.show(kw['is_last_page']))[:40]}`, `{str(dt.show(kw['needs_header']))[:40]}`)"] = None
                    continue
                if first is not None and f_ != first:
                    bad.setdefault(f"is_first_page={f_} where page_number == 1 is {first}", "is_first_page must hold exactly on page 1")
                if last is not None and l_ != last:
                    bad.setdefault(f"is_last_page={l_} where page_number == total_pages is {last}", "is_last_page must hold exactly on the last page")
                if ph is True or first is True:
                    want = True
                elif ph is False and first is False:
                    want = False
                else:
                    want = None
                if want is not None:
                    if nh != want:
                        bad.setdefault(f"needs_header={nh} at pageby_header={ph}, first page={first}", "needs_header must be pageby_header ∨ first page")
                elif ph is None and first is False:
                    bad.setdefault("needs_header ignores pageby_header", f"needs_header={nh} on a later page without consulting rtf_body.pageby_header")
                elif first is None and ph is False:
                    bad.setdefault("needs_header ignores the page position", f"needs_header={nh} with pageby_header off without consulting whether the page is the first")
                elif ph is None and first is None:
                    bad.setdefault("needs_header ignores pageby_header", f"needs_header={nh} without consulting rtf_body.pageby_header or the page position")
        for name, pairs, what in (("is_first_page", firsts, "page_number == 1"), ("is_last_page", lasts, "page_number == total_pages")):
            und = {f for c, f, _o in pairs if c is None}
            if und and not any(c is not None for c, _f, _o in pairs):
                if len(und) == 1 and None not in und:
                    bad.setdefault(f"{name} is constantly {und.pop()}", f"{name} does not depend on `{what}`")
                elif all(o is not None and f == o for _c, f, o in pairs):
                    other = "page_number == total_pages" if name == "is_first_page" else "page_number == 1"
                    bad.setdefault(f"{name} follows {other}", f"{name} is computed from `{other}` instead of `{what}`")
                else:
                    gaps[f"{name} is decided without the condition `{what}` (how the flag is computed was not re-identified)"] = None
        if not seen and not gaps:
            ctx.gap("R06.3", f"{short}: no PageContext construction was reached in the generic iteration of the page loop")
            continue
        if not bad:
            for g in gaps:
                ctx.gap("R06.3", f"{short}: {g}")
        ctx.instance("R06.3", fi.where(), f"{short}: ONE generic iteration of the page loop, {len(rows)} valuations of the consulted conditions, {seen} PageContext constructions: "
                     f"(is_first, is_last, needs_header, total) = (number == 1, number == total, pageby_header ∨ first, number of iterated pages); {len(bad)} disagreement(s)")
        for k, msg in sorted(bad.items()):
            ctx.violation("R06.3", short, k, fi.where(), f"{short}: {k}: {msg}")
    ctx.floor("R06.3", 3)


# ------------------------------------------------------------------------------------------------ R06.4

MARGIN_WORDS = ["\\margl", "\\margr", "\\margt", "\\margb", "\\headery", "\\footery"]
_GEOM_CLASSES = {"RTFDocumentService", "RTFEncodingService", "RTFSyntaxGenerator"}


def shared_conversions(pm) -> set[str]:
    """last names of the functions that are (wrappers of) RTFMeasurements.inch_to_twip"""
    names = {"inch_to_twip"}
    for _round in range(2):
        for fi in pm.iter_funcs():
            body = [s for s in fi.node.body if not (isinstance(s, ast.Expr) and isinstance(s.value, ast.Constant))]
            ps = [a.arg for a in fi.node.args.args if a.arg not in ("self", "cls")]
            if len(body) == 1 and isinstance(body[0], ast.Return) and isinstance(body[0].value, ast.Call) and len(ps) == 1:
                c = body[0].value
                if dotted(c.func).split(".")[-1] in names and len(c.args) == 1 and isinstance(c.args[0], ast.Name) and c.args[0].id == ps[0] and not c.keywords:
                    names.add(fi.short.split(".")[-1])
    return names


def _tokens(s: str):
    return [(m.group(1), m.group(2) or "") for m in re.finditer(r"(\\[a-zA-Z]+)(-?\d+|‹[^‹›]*›)?", s)]


def _conv_of(value: str, conv: set[str]):
    """('field expression', via shared conversion?) of an emitted number ‹...› (int()/str() around it do not matter:
    the shared conversion already returns an integer)"""
    t = value.strip("‹›")
    while True:
        m = re.fullmatch(r"(?:int|str)\((.*)\)", t)
        if not m:
            break
        t = m.group(1)
    m = re.fullmatch(r"(?:[A-Za-z_]\w*\.)*([A-Za-z_]\w*)\((.*)\)", t)
    if m and m.group(1) in conv:
        return m.group(2), True
    return t, False


def _geometry(ctx: Ctx, rule: str, fi, s: str, page: str, what: str, bad: dict, conv: set[str]) -> bool:
    """check \\paperw/\\paperh and the six margin words of one fully evaluated block; returns False when the
    block contains pieces that could not be evaluated (gap)"""
    toks = _tokens(s)
    words = [w for w, _v in toks]
    opaque = [v for _w, v in toks if v.startswith("‹") and "(…)" in v] + re.findall(r"‹[^‹›]*\(…\)[^‹›]*›", s)
    # a symbolic piece that is not the numeric argument of a control word is a part of the block that was not evaluated: it may hold any words
    opaque += [m.group(0) for m in re.finditer(r"(?<![a-zA-Z])‹[^‹›]*›", s) if not re.search(r"\\[a-zA-Z]+$", s[:m.start()])]
    for word, fld in (("\\paperw", "width"), ("\\paperh", "height")):
        vals = [v for w, v in toks if w == word]
        if len(vals) != 1:
            if opaque:
                return False
            bad.setdefault(f"{what} geometry", f"{what}: {word} is written {len(vals)} times")
            continue
        src, shared = _conv_of(vals[0], conv)
        other = "height" if fld == "width" else "width"
        if src == f"{page}.{other}":
            bad.setdefault("paperw/paperh swapped", f"{what}: {word} is written from {src}")
        elif src != f"{page}.{fld}" or not shared:
            if not vals[0].startswith("‹") or f"{page}." in vals[0] or "*" in vals[0]:
                bad.setdefault(f"{what} geometry", f"{what}: {word} is written from `{vals[0].strip('‹›')}`, not the shared inch->twip conversion of {page}.{fld}")
            else:
                return False
    if "\\paperw" in words and "\\paperh" in words and words.index("\\paperw") > words.index("\\paperh"):
        bad.setdefault("paperw/paperh order", f"{what}: \\paperw must precede \\paperh")
    got = [(w, v) for w, v in toks if w in MARGIN_WORDS]
    if [w for w, _v in got] != MARGIN_WORDS:
        if (opaque and len(got) < 6) or not got:
            return False                     # the margin words were not re-identified in the evaluated block: a gap, not a verdict
        bad.setdefault(f"margin words {[w for w, _v in got]}", f"{what}: margins are written as {[w for w, _v in got]}, expected {MARGIN_WORDS} in this order")
    else:
        for i, (w, v) in enumerate(got):
            src, shared = _conv_of(v, conv)
            if src != f"{page}.margin[{i}]" or not shared:
                if f"{page}.margin[" in v or not v.startswith("‹"):
                    bad.setdefault(f"margin words {w} <- {v.strip('‹›')}", f"{what}: {w} is written from `{v.strip('‹›')}`, expected the shared conversion of {page}.margin[{i}]")
                else:
                    return False
    return True


def _memo_keys(pm, fi):
    """(container, key expression) of every store `C[key] = ...` into a container that outlives the call"""
    out = []
    for a in walk_no_nested(fi.node):
        tg = a.targets if isinstance(a, ast.Assign) else [a.target] if isinstance(a, (ast.AugAssign, ast.AnnAssign)) else []
        for t in tg:
            if isinstance(t, ast.Subscript):
                b = t.value
                persistent = isinstance(b, ast.Attribute) and isinstance(b.value, ast.Name) and (b.value.id in ("self", "cls") or b.value.id in pm.classes)
                if isinstance(b, ast.Name):
                    mi = pm.modules.get(fi.module)
                    persistent = mi is not None and b.id in mi.assigns
                if persistent:
                    out.append((unparse(b), t.slice))
    return out


def r06_4(ctx: Ctx) -> None:
    pm = ctx.pm
    from .c16 import units_rule
    units_rule(ctx, "R06.4")
    conv = shared_conversions(pm)
    margin = [Sym(f"document.rtf_page.margin[{i}]") for i in range(6)]
    inline = lambda f: f.cls in _GEOM_CLASSES                      # noqa: E731
    # ---- page-break block
    gp = pm.func("RTFDocumentService.generate_page_break")
    ps = required_params(gp)
    bad: dict[str, str] = {}
    if len(ps) != 2:
        ctx.gap("R06.4", "generate_page_break no longer takes (self, document)")
    else:
        doc = ps[1]
        dt = FlowDT(pm, classes={doc: "RTFDocument", "self": "RTFDocumentService", f"{doc}.rtf_page": "RTFPage"}, inline=inline, max_atoms=12,
                    preset={f"{doc}.rtf_page.margin": margin})
        try:
            rows = dt.table(gp, {"self": Sym("self", "RTFDocumentService"), doc: Sym(doc, "RTFDocument")}, limit=400)
        except (Unsupported, NeedAtom) as e:
            rows = None
            ctx.gap("R06.4", f"the page-break block could not be evaluated ({e})")
        if rows is not None:
            n_ok = 0
            for v, r in rows:
                s = r.ret
                if r.raised is not None:
                    continue
                if not isinstance(s, str):
                    ctx.gap("R06.4", f"the page-break block is not a fully evaluated string ({str(s)[:60]})")
                    continue
                s = s.replace(doc + ".", "document.")
                if "\\page" not in [w for w, _v in _tokens(s)]:
                    if "(…)" in s:
                        ctx.gap("R06.4", "the page-break block contains unevaluated pieces and no \\page")
                        continue
                    bad.setdefault("page break geometry", "the page-break block contains no \\page")
                if not _geometry(ctx, "R06.4", gp, s, "document.rtf_page", "page-break block", bad, conv):
                    ctx.gap("R06.4", f"the page-break block contains pieces that could not be traced to rtf_page: {s[:120]!r}")
                else:
                    n_ok += 1
            ctx.instance("R06.4", gp.where(), f"page-break block evaluated on {len(rows)} path(s): \\page, \\paperw/\\paperh and the six margin words from document.rtf_page "
                         f"through the shared conversion ({sorted(conv)}); {len(bad)} disagreement(s)")
    for k, msg in sorted(bad.items()):
        ctx.violation("R06.4", gp.short if "margin" not in k else "RTFEncodingService.encode_page_margin", k, gp.where(), msg)
    # ---- the block must be a function of the current page configuration: no memo keyed by part of it
    for short in ("RTFDocumentService.generate_page_break", "RTFEncodingService.encode_page_break", "RTFEncodingService.encode_page_margin"):
        if not pm.has_func(short):
            continue
        f = pm.func(short)
        for cont, key in _memo_keys(pm, f):
            names = {x.split(".")[-1] for x in leaves(resolve(key, f.node))}
            whole = any(x.endswith("rtf_page") or x in ("page_config",) for x in leaves(resolve(key, f.node)))
            need = {"width", "height", "margin"}
            ctx.instance("R06.4", f.where(), f"{short}: result kept in {cont} keyed by `{unparse(resolve(key, f.node))[:80]}`")
            if whole:
                ctx.gap("R06.4", f"{short} memoises its result by the page object itself; whether later changes of the page are reflected was not decided")
            elif need - names:
                ctx.violation("R06.4", short, "page config source", f.where(key),
                              f"{short} reuses a page-break block memoised in {cont} by `{unparse(resolve(key, f.node))[:80]}`, which omits {sorted(need - names)}: "
                              "the block restates width, height and the six margins of the current rtf_page")
        for d in f.decorators:
            if d.split(".")[-1] in ("lru_cache", "cache", "cached_property"):
                ctx.gap("R06.4", f"{short} is wrapped by {d}; whether the block still follows the current rtf_page was not decided")
    # ---- document start
    ps_f = pm.func("RTFEncodingService.encode_page_settings")
    pp = required_params(ps_f)
    bad = {}
    if len(pp) != 2:
        ctx.gap("R06.4", "encode_page_settings no longer takes (self, page_config)")
    else:
        pc = pp[1]
        dt = FlowDT(pm, classes={"self": "RTFEncodingService"}, inline=inline, max_atoms=12, atoms={f"{pc}.orientation": ["portrait", "landscape"]},
                    preset={f"{pc}.margin": [Sym(f"{pc}.margin[{i}]") for i in range(6)]})
        try:
            rows = dt.table(ps_f, {"self": Sym("self", "RTFEncodingService"), pc: Sym(pc, "RTFPage")}, limit=400)
        except (Unsupported, NeedAtom) as e:
            rows = None
            ctx.gap("R06.4", f"the document-start page settings could not be evaluated ({e})")
        if rows is not None:
            for v, r in rows:
                s = r.ret
                if r.raised is not None:
                    continue
                if not isinstance(s, str):
                    ctx.gap("R06.4", f"the document-start page settings are not a fully evaluated string ({str(s)[:60]})")
                    continue
                if not _geometry(ctx, "R06.4", ps_f, s, pc, "document start", bad, conv):
                    ctx.gap("R06.4", f"the document-start page settings contain pieces that could not be traced to the page configuration: {s[:120]!r}")
                land = "\\landscape" in [w for w, _v in _tokens(s)]
                o = v.get(f"{pc}.orientation")
                others = sorted(k for k in v if k != f"{pc}.orientation")
                if o is None:
                    bad.setdefault("landscape flag ignores orientation", f"\\landscape written={land} without consulting the orientation")
                elif land != (o == "landscape"):
                    bad.setdefault("landscape flag " + (("depends on " + ", ".join(others)[:80]) if others else f"written={land} for {o}"),
                                   f"\\landscape written={land} for orientation={o!r}" + (f" at {{{', '.join(f'{k}: {v[k]}' for k in others)}}}" if others else "") +
                                   "; it must be written exactly when orientation == 'landscape' (no further condition)")
            ctx.instance("R06.4", ps_f.where(), f"document start evaluated on {len(rows)} path(s): same geometry words from the page configuration, \\landscape iff orientation == 'landscape'; "
                         f"{len(bad)} disagreement(s)")
    for k, msg in sorted(bad.items()):
        ctx.violation("R06.4", "RTFSyntaxGenerator.generate_page_settings", k, ps_f.where(), msg)


# ------------------------------------------------------------------------------------------------ R06.5 / R06.6

def _anc(n, stop):
    p = getattr(n, "_parent", None)
    while p is not None and p is not stop:
        yield p
        p = getattr(p, "_parent", None)


def r06_5(ctx: Ctx) -> None:
    pm = ctx.pm
    for path in ("UnifiedRTFEncoder.encode", "UnifiedRTFEncoder._encode_multi_section", "UnifiedRTFEncoder._encode_figure_only"):
        fi = pm.func(path)
        from ..cfg import CFG
        g = CFG(fi.node)
        live = g.reachable(g.entry)
        for callee, comp in (("encode_page_header", "rtf_page_header"), ("encode_page_footer", "rtf_page_footer"), ("encode_page_settings", "rtf_page"),
                             ("encode_font_table", None), ("encode_color_table", None), ("encode_document_start", None)):
            calls = [c for c in walk_no_nested(fi.node) if isinstance(c, ast.Call) and dotted(c.func).split(".")[-1] == callee]
            calls = [c for c in calls if any(id(nd) in live for nd in g.node_containing(c))]
            in_loop = [c for c in calls if any(isinstance(a, (ast.For, ast.While)) for a in _anc(c, fi.node))]
            ctx.instance("R06.5", fi.where(), f"{path}: {callee} called {len(calls)}x in reachable code, in a loop: {len(in_loop)}")
            if not calls:
                ctx.gap("R06.5", f"{path}: the call of {callee} could not be re-identified")
            elif len(calls) != 1 or in_loop:
                ctx.violation("R06.5", path, f"{callee} x{len(calls)} loop={len(in_loop)}", fi.where(), f"{path}: {callee} must be emitted exactly once per document ({len(calls)} call(s), {len(in_loop)} in loops)")
            elif comp and not any(x == comp or x.endswith("." + comp) for a in list(calls[0].args) + [k.value for k in calls[0].keywords] for x in leaves(resolve(a, fi.node))):
                ctx.violation("R06.5", path, f"{callee} argument", fi.where(calls[0]), f"{path}: {callee} is not given document.{comp}")
    r = pm.func("PageRenderer.render")
    for callee in ("encode_page_header", "encode_page_footer"):
        if any(isinstance(c, ast.Call) and dotted(c.func).split(".")[-1] == callee for c in ast.walk(r.node)):
            ctx.violation("R06.5", r.short, callee + " per page", r.where(), f"render emits {callee} on every page; header/footer groups must be defined once per document")
    for callee, word in (("RTFEncodingService.encode_page_header", "\\\\header"), ("RTFEncodingService.encode_page_footer", "\\\\footer")):
        f = pm.func(callee)
        rets = [unparse(r_.value) for r_ in walk_no_nested(f.node) if isinstance(r_, ast.Return) and r_.value is not None]
        ok = any(word in x and x.count("{{") >= 1 for x in rets) and "''" in rets
        ctx.instance("R06.5", f.where(), f"{callee} returns {rets}")
        if not ok:
            ctx.gap("R06.5", f"{callee}: the two results ('' / one {word.replace(chr(92) * 2, chr(92))} group) could not be re-identified among {str(rets)[:80]}")
    ctx.floor("R06.5", 18)


def r06_6(ctx: Ctx) -> None:
    """page flags are data of the pagination result: nobody rewrites them afterwards"""
    pm = ctx.pm
    flags = {"is_first_page", "is_last_page", "needs_header", "page_number", "total_pages"}
    n = 0
    for fi in pm.iter_funcs():
        for nd in walk_no_nested(fi.node):
            targets = []
            if isinstance(nd, ast.Assign):
                targets = nd.targets
            elif isinstance(nd, (ast.AugAssign, ast.AnnAssign)):
                targets = [nd.target]
            for t in targets:
                if isinstance(t, ast.Attribute) and t.attr in flags and not (isinstance(t.value, ast.Name) and t.value.id == "self" and fi.cls == "PageContext"):
                    n += 1
                    ctx.violation("R06.6", fi.short, "store " + unparse(t), fi.where(nd),
                                  f"{fi.short}: `{unparse(nd)[:70]}` rewrites a page flag after pagination; placement decisions (first/last/all) read it later")
            if isinstance(nd, ast.Call) and isinstance(nd.func, ast.Name) and nd.func.id == "setattr" and len(nd.args) > 1 and isinstance(nd.args[1], ast.Constant) and nd.args[1].value in flags:
                ctx.violation("R06.6", fi.short, "setattr " + str(nd.args[1].value), fi.where(nd), f"{fi.short}: rewrites page flag {nd.args[1].value}")
    ctors = sum(1 for fi in pm.iter_funcs() for c in walk_no_nested(fi.node) if isinstance(c, ast.Call) and dotted(c.func).split(".")[-1] == "PageContext")
    ctx.instance("R06.6", "src/rtflite", f"page flags are set only through {ctors} PageContext(...) constructions; {n} later stores")


ABSTRACTION = (
    "Abstract evaluation of the syntax tree (FlowDT, an extension of the decision-table evaluator sa/dtab.DT): the analysed function is evaluated over symbolic inputs; every parameter is an "
    "uninterpreted symbol, values are structured terms (subscript, slice, call, integer-linear form), list accumulators hold the symbolic pieces that reach the output, literals of the source are "
    "folded; whenever a condition has an undetermined truth value the evaluation forks, so the table of ALL valuations of the consulted conditions is enumerated (no feasibility pruning, no "
    "solver); a loop over a symbolic collection (for / comprehension / while) is evaluated as ONE generic iteration: the position is a symbol, its comparisons with the ends of the collection are "
    "the atoms `is first` / `is last` (0 <= position <= n-1), what the iteration adds to an accumulator is bracketed, loop-carried locals of a while loop are unconstrained; loops over "
    "literal sequences of the source are unrolled. The verdict is read off this summary and holds for every value of the symbols. Nothing of the analysed package is imported, compiled or executed.")


def check(ctx: Ctx) -> None:
    ctx.explain(ABSTRACTION)
    ctx.explain(
        "R06.1 the two placement predicates are evaluated as decision tables over placement x first x last (16 rows each) and "
        "equal the specification; PageRenderer.render is evaluated as a whole over symbolic (document, page) for every "
        "configuration of component presence x placement fields x first/last x needs_header, and each placed component must reach "
        "the returned page elements iff present ∧ spec(placement field); the figure path is evaluated over a symbolic document with ONE "
        "generic iteration of the per-figure loop: for every valuation of presence x placement x (is first, is last) the pieces the iteration "
        "emits must equal the specified page. R06.2 order and once-ness of the blocks in "
        "the returned page elements, page break iff not first, headers iff needs_header. R06.3 the three strategies evaluated over a symbolic "
        "pagination context, ONE generic iteration of the page loop: flags of the constructed PageContext as functions of the consulted "
        "conditions (page_number == 1, page_number == total_pages, pageby_header). R06.4 who-may-convert rule plus "
        "the evaluated page-break block and document-start block (words, order, sources, shared conversion), no partial-key "
        "memoisation; landscape flag. R06.5 once-per-document emitters. R06.6 no store to page flags after pagination.")
    ctx.assume("PageContext flags are read, not recomputed, by the renderer and the processor")
    ctx.assume("the distinct page numbers assigned by the row metadata are 1..n in ascending order (see C04), so `page_number == 1` / `page_number == total_pages` identify the first / last page")
    ctx.assume("conditions are treated as independent atoms (all combinations enumerated, also infeasible ones); in render / the figure path, conditions that mention none of the placement-relevant "
               "names (component, placement field, page flag, loop position) are pinned to one value per regime (two regimes: every such test true / every such test false) and listed in the evidence")
    ctx.assume("the result of an emitter call (encode_title, encode_footnote, ...) is taken to be non-empty where the code tests it before appending")
    ctx.assume("rtf_page.margin is a sequence of six values (validated by RTFPage): it is represented as the tuple of terms margin[0..5]")
    ctx.undecided("numeric values of the geometry words; which concrete rows land on which page; behaviour of a loop over several iterations beyond the one generic step")
    predicate_tables(ctx, "R06.1")
    r06_1_render(ctx, "R06.1")
    placement_rule(ctx, "R06.1")
    r06_2(ctx)
    r06_3(ctx)
    r06_4(ctx)
    r06_5(ctx)
    r06_6(ctx)
    ctx.extra["exhaustive"] = True
