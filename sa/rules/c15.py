"""C15 - concurrent encodes do not interfere.

R15.1 (sufficient condition): no function reachable from rtf_encode writes process-shared mutable
state (module-level objects, singletons, class-level attributes), except context-local state
(contextvars.ContextVar / threading.local) and idempotent registrations of constants.
R15.2: no memoisation decorator (functools.lru_cache/cache) and no lazily initialised class-level
singleton on the encode graph.
"""
from __future__ import annotations

import ast

from ..callgraph import CallGraph
from ..effects import Shared, stores_in
from ..pm import dotted, unparse, walk_no_nested
from ..report import Ctx

ROOTS = ["RTFDocument.rtf_encode"]


def idempotent_registration(ctx: Ctx, cg: CallGraph, st) -> tuple[bool, str]:
    """`cls._strategies[name] = strategy_cls` in a classmethod whose every call site passes
    (constant string, class name): re-registration writes the same value -> benign race."""
    fi = st.fi
    if not (st.how == "item" and isinstance(st.node, ast.Assign)):
        return False, "not a plain item assignment"
    params = [a.arg for a in fi.node.args.args]
    tgt = st.node.targets[0]
    if not (isinstance(tgt, ast.Subscript) and isinstance(tgt.slice, ast.Name) and tgt.slice.id in params
            and isinstance(st.node.value, ast.Name) and st.node.value.id in params):
        return False, "key/value are not the function's parameters"
    sites = cg.callers_of(fi.short)
    if not sites:
        return True, "no call sites"
    pairs = set()
    for caller, call in sites:
        if len(call.args) != 2 or not isinstance(call.args[0], ast.Constant) or not isinstance(call.args[1], ast.Name):
            return False, f"call {unparse(call)} in {caller.short} does not pass a constant name and a class"
        r = ctx.pm.resolve(caller.module, call.args[1].id)
        if not (r and r[0] == "class"):
            return False, f"{unparse(call.args[1])} in {caller.short} is not a class"
        pairs.add((call.args[0].value, r[1].name))
    names = [p[0] for p in pairs]
    if len(set(names)) != len(names):
        return False, f"the same name is registered with different classes: {sorted(pairs)}"
    return True, f"always the same constant pairs {sorted(pairs)}"


def shared_writes(ctx: Ctx, cg: CallGraph, roots, rule: str):
    pm = ctx.pm
    sh = Shared(pm)
    reach = cg.reachable(roots)
    ctx.extra["shared_roots"] = sh.describe()
    ctx.extra["functions_reachable"] = len(reach)
    out = []
    for short in sorted(reach):
        fi = pm.funcs.get(short)
        if fi is None:
            continue
        for st in stores_in(fi):
            tgt = sh.shared_target(cg, st)
            if tgt is None:
                continue
            out.append((fi, st, tgt))
    return sh, reach, out


def check(ctx: Ctx) -> None:
    pm = ctx.pm
    cg = CallGraph(pm)
    ctx.explain(
        "R15.1 sufficient condition for schedule independence: inventory of process-shared mutable roots (module-level "
        "containers and instances, class-level containers/rebindable attributes), then every attribute/item store and "
        "mutator call in every function reachable from RTFDocument.rtf_encode (call graph with class-hierarchy "
        "fallback) is resolved to its root; a write whose root is shared is a violation unless the state is held in "
        "contextvars.ContextVar/threading.local or is an idempotent registration of constants. R15.2 no memoised "
        "function and no lazily created class-level singleton on that graph.")
    ctx.assume("documents encoded concurrently are distinct objects (the property's premise); objects reachable only from the call's own document are not shared")
    ctx.assume("polars, PIL and pydantic are thread-safe for independent objects")
    ctx.undecided("interleavings inside third-party libraries")
    sh, reach, writes = shared_writes(ctx, cg, ROOTS, "R15.1")
    for root in sh.describe():
        ctx.instance("R15.1", "src/rtflite", "shared root " + root, nontrivial=False)
    n_stores = 0
    for short in sorted(reach):
        fi = pm.funcs.get(short)
        if fi is not None:
            n_stores += len(stores_in(fi))
    ctx.extra["store_sites_classified"] = n_stores
    for fi, st, tgt in writes:
        ok, why = idempotent_registration(ctx, cg, st)
        ctx.instance("R15.1", st.where, f"{fi.short}: {st.how} write to shared {tgt}: `{st.text()}` -> {'idempotent: ' + why if ok else 'RACE'}")
        if not ok:
            ctx.violation("R15.1", fi.short, f"{st.how} {tgt}", st.where,
                          f"{fi.short} (reachable from rtf_encode) writes process-shared state {tgt}: `{st.text()}`; "
                          "two threads encoding different documents read each other's value")
    # context-local state is fine: list it
    for (m, n) in sorted(sh.safe):
        ctx.instance("R15.1", m, f"context-local state {m}.{n}", nontrivial=False)
    # R15.2 memoisation / lazily created singletons
    for short in sorted(reach):
        fi = pm.funcs.get(short)
        if fi is None:
            continue
        for d in fi.decorators:
            if d.split(".")[-1] in ("lru_cache", "cache", "cached_property"):
                from ..effects import memo_is_pure
                pure, why_pure = memo_is_pure(pm, fi)
                ctx.instance("R15.2", fi.where(), f"{fi.short} is memoised with {d}; pure in its arguments: {pure} ({why_pure})")
                if pure:
                    continue        # functools caches are thread-safe; a pure function's cached value is what any thread would compute
                ctx.violation("R15.2", fi.short, f"decorator {d}", fi.where(),
                              f"{fi.short} on the encode path is memoised ({d}): results computed for one call are served to others")
    ctx.instance("R15.2", "src/rtflite", f"{len(reach)} reachable functions scanned for memoisation decorators")
    ctx.floor("R15.1", 9)
    if len(reach) < 100:
        from ..pm import AnalysisError
        raise AnalysisError(f"only {len(reach)} functions reachable from rtf_encode (>=100 confirmed): call graph lost edges")
