"""C15 - concurrent encodes do not interfere.

R15.1 (sufficient condition): no function reachable from rtf_encode writes process-shared mutable
state (module-level objects, singletons, class-level attributes), except context-local state
(contextvars.ContextVar / threading.local) and idempotent registrations of constants.
R15.2: no memoisation decorator (functools.lru_cache/cache) and no lazily initialised class-level
singleton on the encode graph.
"""
from __future__ import annotations

import ast

from ..callgraph import CallGraph
from ..effects import Shared, bound_arg, stores_in
from ..pm import dotted, unparse, walk_no_nested
from ..report import Ctx

ROOTS = ["RTFDocument.rtf_encode"]


def _literal_of(pm, caller, e: ast.AST, depth: int = 4):
    """the literal expression a name stands for: single local assignment or module-level constant (following imports)"""
    from ..astmatch import assignments
    while isinstance(e, ast.Name) and depth > 0:
        depth -= 1
        asg = assignments(caller.node).get(e.id, [])
        if len(asg) == 1 and not (isinstance(asg[0], ast.Constant) and isinstance(asg[0].value, str) and asg[0].value.startswith("<")):
            e = asg[0]
            continue
        if asg:
            return e
        r = pm.resolve(caller.module, e.id)
        if r and r[0] == "value":
            e = r[1][1]
            continue
        break
    return e


def _loop_binding(node: ast.AST, stop: ast.AST, name: str):
    """(loop/comprehension that binds `name` around `node`, index of `name` in the target tuple or None)"""
    p = getattr(node, "_parent", None)
    while p is not None and p is not stop:
        gens = [p] if isinstance(p, ast.For) else (list(p.generators) if isinstance(p, (ast.ListComp, ast.SetComp, ast.GeneratorExp, ast.DictComp)) else [])
        for g in gens:
            t = g.target
            if isinstance(t, ast.Name) and t.id == name:
                return g, None
            if isinstance(t, (ast.Tuple, ast.List)):
                for i, e in enumerate(t.elts):
                    if isinstance(e, ast.Name) and e.id == name:
                        return g, i
        p = getattr(p, "_parent", None)
    return None, None


def _const_pairs_at(pm, caller, call: ast.Call, key_e: ast.AST, val_e: ast.AST):
    """the (constant name, class) pairs one call site can register, or a string saying why they cannot be enumerated"""
    def one(k, v):
        k = _literal_of(pm, caller, k)
        if not (isinstance(k, ast.Constant) and isinstance(k.value, str)):
            return f"key `{unparse(k)}` is not a constant name"
        v = _literal_of(pm, caller, v)
        if not isinstance(v, ast.Name):
            return f"value `{unparse(v)}` is not a class name"
        r = pm.resolve(caller.module, v.id)
        if not (r and r[0] == "class"):
            return f"{v.id} in {caller.short} is not a class"
        return (k.value, r[1].name)

    if isinstance(key_e, ast.Name) and isinstance(val_e, ast.Name):
        gk, ik = _loop_binding(call, caller.node, key_e.id)
        gv, iv = _loop_binding(call, caller.node, val_e.id)
        if gk is not None and gk is gv and ik is not None and iv is not None and ik != iv:
            it = gk.iter
            while isinstance(it, ast.Call) and isinstance(it.func, ast.Name) and it.func.id in ("list", "tuple", "iter") and len(it.args) == 1:
                it = it.args[0]
            rows = None
            if isinstance(it, ast.Call) and isinstance(it.func, ast.Attribute) and it.func.attr == "items" and not it.args:
                d = _literal_of(pm, caller, it.func.value)
                if isinstance(d, ast.Dict) and all(k is not None for k in d.keys) and (ik, iv) in ((0, 1), (1, 0)):
                    rows = [[k, v] for k, v in zip(d.keys, d.values)]
            else:
                lit = _literal_of(pm, caller, it)
                if isinstance(lit, (ast.Tuple, ast.List)) and all(isinstance(r, (ast.Tuple, ast.List)) and len(r.elts) > max(ik, iv) for r in lit.elts):
                    rows = [r.elts for r in lit.elts]
            if rows is None:
                return f"GAP:loop over `{unparse(gk.iter)[:60]}` in {caller.short} is not a literal table of pairs"
            out = []
            for r in rows:
                pr = one(r[ik], r[iv])
                if isinstance(pr, str):
                    return pr
                out.append(pr)
            return out
        if gk is not None or gv is not None:
            return f"call {unparse(call)[:60]} in {caller.short}: key and value come from different loops"
    pr = one(key_e, val_e)
    return pr if isinstance(pr, str) else [pr]


def idempotent_registration(ctx: Ctx, cg: CallGraph, st) -> tuple[bool | None, str]:
    """Role: a registration `SHARED[key] = value` (or SHARED.setdefault(key, value)) whose key and value are the
    function's own parameters.  Verified: every call site passes (constant string, class) pairs - directly or by
    looping over a constant table of pairs - and no name is paired with two classes; then re-registration writes the
    value that is already there (benign race, no history).  Returns (True, why) / (False, why); (None, why) when the
    store has the registration shape but the registered pairs cannot be enumerated (analysis gap)."""
    from ..astmatch import resolve
    fi = st.fi
    key_e = val_e = None
    if st.how == "item" and isinstance(st.node, ast.Assign) and len(st.node.targets) == 1 and isinstance(st.node.targets[0], ast.Subscript):
        key_e, val_e = st.node.targets[0].slice, st.node.value
    elif st.how in ("mutator:setdefault", "mutator:__setitem__") and isinstance(st.node, ast.Call) and len(st.node.args) == 2 and not st.node.keywords:
        key_e, val_e = st.node.args
    if key_e is None:
        return False, "not a plain keyed registration"
    a = fi.node.args
    params = [x.arg for x in list(a.posonlyargs) + list(a.args) + list(a.kwonlyargs)]
    key_e, val_e = resolve(key_e, fi.node), resolve(val_e, fi.node)
    if not (isinstance(key_e, ast.Name) and key_e.id in params and isinstance(val_e, ast.Name) and val_e.id in params and key_e.id != val_e.id):
        return False, "key/value are not the function's parameters"
    sites = cg.callers_of(fi.short)
    if not sites:
        return True, "no call sites"
    pairs = set()
    for caller, call in sites:
        k, v = bound_arg(call, fi, key_e.id), bound_arg(call, fi, val_e.id)
        if k is None or v is None:
            return None, f"call {unparse(call)[:60]} in {caller.short}: arguments cannot be matched to ({key_e.id}, {val_e.id})"
        got = _const_pairs_at(ctx.pm, caller, call, k, v)
        if isinstance(got, str):
            return (None, got[4:]) if got.startswith("GAP:") else (False, got)
        pairs.update(got)
    names = [p[0] for p in pairs]
    if len(set(names)) != len(names):
        return False, f"the same name is registered with different classes: {sorted(pairs)}"
    return True, f"always the same constant pairs {sorted(pairs)}"


def shared_writes(ctx: Ctx, cg: CallGraph, roots, rule: str):
    pm = ctx.pm
    sh = Shared(pm)
    reach = cg.reachable(roots)
    ctx.extra["shared_roots"] = sh.describe()
    ctx.extra["functions_reachable"] = len(reach)
    out = []
    for short in sorted(reach):
        fi = pm.funcs.get(short)
        if fi is None:
            continue
        for st in stores_in(fi):
            tgt = sh.shared_target(cg, st)
            if tgt is None:
                continue
            out.append((fi, st, tgt))
    return sh, reach, out


def check(ctx: Ctx) -> None:
    pm = ctx.pm
    cg = CallGraph(pm)
    ctx.explain(
        "R15.1 sufficient condition for schedule independence: inventory of process-shared mutable roots (module-level "
        "containers and instances, class-level containers/rebindable attributes), then every attribute/item store and "
        "mutator call in every function reachable from RTFDocument.rtf_encode (call graph with class-hierarchy "
        "fallback) is resolved to its root; a write whose root is shared is a violation unless the state is held in "
        "contextvars.ContextVar/threading.local or is an idempotent registration of constants. R15.2 no memoised "
        "function and no lazily created class-level singleton on that graph.")
    ctx.assume("documents encoded concurrently are distinct objects (the property's premise); objects reachable only from the call's own document are not shared")
    ctx.assume("polars, PIL and pydantic are thread-safe for independent objects")
    ctx.undecided("interleavings inside third-party libraries")
    sh, reach, writes = shared_writes(ctx, cg, ROOTS, "R15.1")
    for root in sh.describe():
        ctx.instance("R15.1", "src/rtflite", "shared root " + root, nontrivial=False)
    n_stores = 0
    for short in sorted(reach):
        fi = pm.funcs.get(short)
        if fi is not None:
            n_stores += len(stores_in(fi))
    ctx.extra["store_sites_classified"] = n_stores
    for fi, st, tgt in writes:
        ok, why = idempotent_registration(ctx, cg, st)
        ctx.instance("R15.1", st.where, f"{fi.short}: {st.how} write to shared {tgt}: `{st.text()}` -> {'idempotent: ' + why if ok else 'RACE' if ok is False else 'undecided'}")
        if ok is None:
            ctx.gap("R15.1", f"{fi.short}: registration `{st.text()}` into shared {tgt}: {why}")
        elif not ok:
            ctx.violation("R15.1", fi.short, f"{st.how} {tgt}", st.where,
                          f"{fi.short} (reachable from rtf_encode) writes process-shared state {tgt}: `{st.text()}`; "
                          "two threads encoding different documents read each other's value")
    # context-local state is fine: list it
    for (m, n) in sorted(sh.safe):
        ctx.instance("R15.1", m, f"context-local state {m}.{n}", nontrivial=False)
    # R15.2 memoisation / lazily created singletons
    for short in sorted(reach):
        fi = pm.funcs.get(short)
        if fi is None:
            continue
        for d in fi.decorators:
            if d.split(".")[-1] in ("lru_cache", "cache", "cached_property"):
                from ..effects import memo_is_pure
                pure, why_pure = memo_is_pure(pm, fi)
                ctx.instance("R15.2", fi.where(), f"{fi.short} is memoised with {d}; pure in its arguments: {pure} ({why_pure})")
                if pure:
                    continue        # functools caches are thread-safe; a pure function's cached value is what any thread would compute
                ctx.violation("R15.2", fi.short, f"decorator {d}", fi.where(),
                              f"{fi.short} on the encode path is memoised ({d}): results computed for one call are served to others")
    ctx.instance("R15.2", "src/rtflite", f"{len(reach)} reachable functions scanned for memoisation decorators")
    ctx.floor("R15.1", 9)
    if len(reach) < 100:
        from ..pm import AnalysisError
        raise AnalysisError(f"only {len(reach)} functions reachable from rtf_encode (>=100 confirmed): call graph lost edges")
