"""C16 - figures are embedded byte-exactly, one per page, at the configured size.

R16.1 payload identity (file bytes -> hex, unmodified, unmemoised) and hex line partition;
R16.2 format tables agree; R16.3 PNG/JPEG dimension offsets; R16.4 goal size through the shared
inch->twip conversion (who-may-convert rule, shared with C06); R16.5 per-figure loop shape and the
dimension reuse rule; R16.6 placement predicates of the figure path (shared with C06).

The figure functions are small and pure; they are decided by *abstract evaluation* of their syntax trees (FlowDT of c06: the
repository code is never imported): every input is an uninterpreted symbol (the image bytes, the list of paths, the size
lists, the figure index), every consulted condition is enumerated over all valuations, loops over symbolic collections are
ONE generic iteration, and the verdict is read off the resulting terms (which slice of which buffer is decoded with which
struct format, which bounds the hex lines have as linear forms, which element of which list reaches which argument).  The
only exhaustively enumerated concrete domain is the value of a byte (0..255) in the JPEG marker test.  A function that
leaves the interpretable subset is an analysis gap.
"""
from __future__ import annotations

import ast
import re

from ..consteval import const_expr
from ..dtab import NeedAtom, Sym, Unsupported
from ..linform import linform
from ..pm import dotted, unparse, walk_no_nested
from ..report import Ctx


def units_rule(ctx: Ctx, rule: str) -> None:
    """who may convert: multiplying by TWIPS_PER_INCH/1440 is allowed only inside
    RTFMeasurements.inch_to_twip (and dividing for the inverse)"""
    pm = ctx.pm
    allowed = {"RTFMeasurements.inch_to_twip", "RTFMeasurements.twip_to_inch"}
    n = 0
    for fi in pm.iter_funcs():
        for b in walk_no_nested(fi.node):
            if isinstance(b, ast.BinOp) and isinstance(b.op, ast.Mult):
                for side in (b.left, b.right):
                    txt = unparse(side)
                    is_k = (isinstance(side, ast.Constant) and side.value == 1440) or txt.endswith("TWIPS_PER_INCH")
                    if is_k:
                        n += 1
                        ok = fi.short in allowed
                        ctx.instance(rule, fi.where(b), f"{fi.short}: `{unparse(b)}` multiplies by twips-per-inch ({'the shared conversion' if ok else 'LOCAL conversion'})")
                        if not ok:
                            ctx.violation(rule, fi.short, "local inch->twip " + unparse(b), fi.where(b),
                                          f"{fi.short}: `{unparse(b)}` converts inches to twips locally instead of through RTFMeasurements.inch_to_twip "
                                          "(its rounding can disagree with the document start: int() truncates, the shared helper rounds)")
    f = pm.func("RTFMeasurements.inch_to_twip")
    rets = [r for r in walk_no_nested(f.node) if isinstance(r, ast.Return)]
    p0 = f.node.args.args[0].arg
    ref = linform(ast.parse(f"{p0} * RTFConstants.TWIPS_PER_INCH", mode="eval").body)
    from ..astmatch import resolve
    val0 = resolve(rets[0].value, f.node) if len(rets) == 1 and rets[0].value is not None else None
    ok = val0 is not None and isinstance(val0, ast.Call) and dotted(val0.func) == "round" and len(val0.args) == 1 and linform(val0.args[0]) == ref
    val = const_expr(pm, f.module, ast.parse("RTFConstants.TWIPS_PER_INCH", mode="eval").body)
    ctx.instance(rule, f.where(), f"inch_to_twip returns `{unparse(rets[0].value) if rets else '?'}`; TWIPS_PER_INCH = {val}")
    if not ok or val != 1440:
        ctx.violation(rule, f.short, "shared conversion " + (unparse(rets[0].value) if rets else "?"), f.where(),
                      "RTFMeasurements.inch_to_twip is no longer round(inches * 1440)")
    ctx.floor(rule, 2)


# ---------------------------------------------------------------------------------------------------- helpers

def _flow(pm, **kw):
    from .c06 import FlowDT
    return FlowDT(pm, **kw)


def _table(ctx: Ctx, rule: str, dt, fi, args, what: str, limit: int = 4000):
    try:
        return dt.table(fi, args, limit=limit)
    except (Unsupported, NeedAtom) as e:
        ctx.gap(rule, f"{what} is outside the interpretable subset ({str(e)[:120]})")
        return None


def _params(fi) -> list[str]:
    """the parameters a caller must pass (opt-in parameters with defaults are evaluated with their defaults)"""
    from .c06 import required_params
    return required_params(fi, drop_self=True)


# ---------------------------------------------------------------------------------------------------- R16.1

_PATH_WRAPPERS = {"Path", "PurePath", "str", "fspath", "resolve", "expanduser", "absolute"}


def _unwrap_path(x):
    """the term a path-like term was made from (Path(p), str(p), p.resolve() ... -> p)"""
    from .c06 import CallV
    for _ in range(6):
        if isinstance(x, CallV) and x.fn in _PATH_WRAPPERS:
            if len(x.args) == 1 and not x.kw:
                x = x.args[0]
                continue
            if not x.args and isinstance(x.recv, Sym):
                x = x.recv
                continue
        break
    return x


def _flat_syms(x):
    if isinstance(x, Sym):
        yield x
    elif isinstance(x, (list, tuple)):
        for y in x:
            yield from _flat_syms(y)


def _own_element(term, lp: str, loop_elems: dict) -> str:
    """is `term` the element that the generic iteration lp works on?  'own': subscripted by the position of lp, or (part of) the
    element term of lp (an element handed on from an earlier generic iteration); 'wrong': an element selected by a literal index or
    by a shifted position (positive evidence); 'unknown' otherwise"""
    from .c06 import SubV, lin_of
    own = {x.path for x in _flat_syms(loop_elems.get(lp))}
    if isinstance(term, Sym) and term.path in own:
        return "own"
    if isinstance(term, SubV):
        k = term.key
        if isinstance(k, Sym) and k.path == lp:
            return "own"
        lk = lin_of(k)
        if isinstance(k, int) or (lk is not None and lp in lk and lk != {lp: 1}):
            return "wrong"
    return "unknown"


def _mentions_call(term, fn: str, depth: int = 0) -> bool:
    """does the term contain the result of a call of fn (the value was derived from it)?"""
    from .c06 import CallV, LinV, SliceV, SubV
    if depth > 8:
        return False
    if isinstance(term, CallV):
        return term.fn == fn or any(_mentions_call(a, fn, depth + 1) for a in list(term.args) + [x for _k, x in term.kw] + [term.recv])
    if isinstance(term, (SubV, SliceV)):
        return _mentions_call(term.base, fn, depth + 1)
    if isinstance(term, LinV):
        return any(_mentions_call(t, fn, depth + 1) for t in term.terms)
    if isinstance(term, (list, tuple)):
        return any(_mentions_call(t, fn, depth + 1) for t in term)
    return False


def _split_generic(lst):
    """(elements outside any generic iteration, {loop: elements added by its generic iteration}) of an accumulator"""
    from .c06 import Marker
    outside, inside, stack = [], {}, []
    for x in lst:
        if isinstance(x, Marker):
            if x.kind == "begin":
                stack.append(x.loop)
                inside.setdefault(x.loop, [])
            elif stack:
                stack.pop()
        elif stack:
            inside[stack[-1]].append(x)
        else:
            outside.append(x)
    return outside, inside


def r16_1(ctx: Ctx) -> None:
    pm = ctx.pm
    rd = pm.func("_read_image_data")
    for d in rd.decorators:
        ctx.violation("R16.1", rd.short, "decorator " + d, rd.where(), f"_read_image_data is wrapped by {d}: the embedded bytes may not be the file's current bytes")
    # call-graph closure: every function through which the file's bytes flow (it reads a file or calls, directly or transitively, a function
    # that does) must be unmemoised
    readers = {rd.short}
    for _round in range(4):
        for f in pm.iter_funcs():
            if f.short in readers:
                continue
            called = {dotted(c.func).split(".")[-1] for c in ast.walk(f.node) if isinstance(c, ast.Call)}
            if called & ({x.split(".")[-1] for x in readers} | {"read_bytes"}) and (f.module == rd.module or f.module.endswith("figure_service")):
                readers.add(f.short)
    for f in pm.iter_funcs():
        if f.short in readers and f.short != rd.short:
            for d in f.decorators:
                if d.split(".")[-1].split("(")[0] in ("lru_cache", "cache", "cached", "memoize", "cached_property"):
                    ctx.violation("R16.1", f.short, "decorator " + d, f.where(), f"{f.short}, through which the image bytes are read, is memoised by {d}: the embedded bytes may not be the file's current bytes")
    ctx.instance("R16.1", rd.where(), f"functions through which file bytes flow ({sorted(readers)}) carry no memoising decorator")
    opens = [c for c in walk_no_nested(rd.node) if isinstance(c, ast.Call) and dotted(c.func).split(".")[-1] == "open"]
    rets = [r for r in walk_no_nested(rd.node) if isinstance(r, ast.Return) and r.value is not None]
    from ..astmatch import resolve
    desc = []
    verdict = "ok"
    for c in opens:
        mode = c.args[1] if len(c.args) > 1 else next((k.value for k in c.keywords if k.arg == "mode"), None)
        if dotted(c.func) != "open" and isinstance(c.func, ast.Attribute):     # path.open(mode)
            mode = c.args[0] if c.args else next((k.value for k in c.keywords if k.arg == "mode"), None)
        m = mode.value if isinstance(mode, ast.Constant) else None
        desc.append(f"open(..., {m!r})")
        if m is None and mode is not None:
            verdict = "gap"
        elif m is None or "b" not in str(m) or any(ch in str(m) for ch in "wax+"):
            verdict = "bad"
    if len(rets) != 1:
        verdict = "gap" if verdict == "ok" else verdict
    else:
        v = resolve(rets[0].value, rd.node)
        desc.append(f"returns `{unparse(v)}`")
        if isinstance(v, ast.Call) and isinstance(v.func, ast.Attribute) and v.func.attr == "read" and opens:
            if v.args or v.keywords:
                verdict = "bad"          # partial read
        elif isinstance(v, ast.Call) and isinstance(v.func, ast.Attribute) and v.func.attr == "read_bytes" and not v.args:
            pass
        elif isinstance(v, ast.Call) and isinstance(v.func, ast.Attribute) and v.func.attr == "read_text":
            verdict = "bad"
        elif verdict == "ok":
            verdict = "gap"
    ctx.instance("R16.1", rd.where(), f"_read_image_data: {'; '.join(desc)}: whole binary content: {verdict}")
    if verdict == "bad":
        ctx.violation("R16.1", rd.short, "read " + (unparse(rets[0].value) if rets else "?"), rd.where(), "image bytes are not the complete binary content of the file")
    elif verdict == "gap":
        ctx.gap("R16.1", "how _read_image_data obtains the file content could not be re-identified (expected open(path, 'rb').read() or Path.read_bytes())")
    _read_figure_flow(ctx)
    _hex_partition(ctx)


def _read_figure_flow(ctx: Ctx) -> None:
    """rtf_read_figure over a symbolic argument: in the generic iteration of the loop over the paths, the element appended to
    the data list is _read_image_data(<path of the current element>) and the one appended to the format list is
    _determine_image_format(<path of the same element>); both lists start empty and are returned as (data, formats)"""
    from .c06 import CallV, SubV
    pm = ctx.pm
    rf = pm.func("rtf_read_figure")
    for d in rf.decorators:
        ctx.violation("R16.1", rf.short, "decorator " + d, rf.where(), f"rtf_read_figure is wrapped by {d}")
    ps = _params(rf)
    if len(ps) != 1:
        ctx.gap("R16.1", "rtf_read_figure no longer takes one argument")
        return
    dt = _flow(pm, opaque={"_determine_image_format", "_read_image_data"}, max_atoms=12)
    rows = _table(ctx, "R16.1", dt, rf, {ps[0]: Sym(ps[0])}, "rtf_read_figure")
    if rows is None:
        return
    full = [(v, r) for v, r in rows if r.raised is None]
    if not full:
        ctx.gap("R16.1", "rtf_read_figure returns on no evaluated path")
        return
    bad = unrec = None
    n_ok = n_gen = 0
    for v, r in full:
        ret = r.ret
        if not (isinstance(ret, (tuple, list)) and len(ret) == 2 and all(isinstance(x, list) for x in ret)):
            ctx.gap("R16.1", f"rtf_read_figure does not return a pair of lists ({str(ret)[:60]})")
            return
        (d_out, d_in), (f_out, f_in) = _split_generic(ret[0]), _split_generic(ret[1])
        pairs = []                    # (data element, format element, the source element both must come from)
        if len(d_out) != len(f_out) or set(d_in) != set(f_in):
            bad = bad or f"the data list and the format list are filled in different places ({len(d_out)}/{len(f_out)} literal, loops {sorted(d_in)}/{sorted(f_in)})"
            continue
        for de, fe in zip(d_out, f_out):
            pairs.append((de, fe, None))
        for lp in d_in:
            n_gen += 1
            if len(d_in[lp]) != 1 or len(f_in[lp]) != 1:
                bad = bad or f"one iteration over the paths appends {len(d_in[lp])} data element(s) and {len(f_in[lp])} format(s), expected one each"
                continue
            pairs.append((d_in[lp][0], f_in[lp][0], lp))
        for de, fe, lp in pairs:
            if not (isinstance(de, CallV) and de.fn == "_read_image_data" and len(de.args) == 1):
                if _mentions_call(de, "_read_image_data"):
                    bad = bad or f"a data element is `{str(dt.show(de))[:70]}`, not the unchanged result of _read_image_data(path)"
                else:
                    unrec = unrec or f"a data element `{str(dt.show(de))[:70]}` was not re-identified as the result of _read_image_data(path)"
                continue
            if not (isinstance(fe, CallV) and fe.fn == "_determine_image_format" and len(fe.args) == 1):
                if _mentions_call(fe, "_determine_image_format") or _mentions_call(fe, "_read_image_data"):
                    bad = bad or f"a format element is `{str(dt.show(fe))[:70]}`, not the result of _determine_image_format(path)"
                else:
                    unrec = unrec or f"a format element `{str(dt.show(fe))[:70]}` was not re-identified as the result of _determine_image_format(path)"
                continue
            src_d, src_f = _unwrap_path(de.args[0]), _unwrap_path(fe.args[0])
            if not (isinstance(src_d, Sym) and isinstance(src_f, Sym) and src_d.path == src_f.path):
                bad = bad or f"data is read from `{dt.show(src_d)}` but the format is determined from `{dt.show(src_f)}`"
                continue
            if lp is not None:
                kind = _own_element(src_d, lp, r.loop_elems)
                if kind == "wrong" or (kind == "own" and isinstance(src_d, SubV) and isinstance(src_d.base, Sym) and src_d.base.path != ps[0] and isinstance(src_d.key, Sym) and src_d.key.path == lp):
                    bad = bad or f"iteration {lp} reads `{dt.show(src_d)}`, not the current element of {ps[0]}"
                    continue
                if kind != "own":
                    ctx.gap("R16.1", f"rtf_read_figure: iteration {lp} reads `{dt.show(src_d)}`, which was not re-identified as the current element of {ps[0]}")
                    return
            elif src_d.path != ps[0]:
                bad = bad or f"a single path is read from `{dt.show(src_d)}`, not from {ps[0]}"
                continue
            n_ok += 1
    ctx.instance("R16.1", rf.where(), f"rtf_read_figure over a symbolic argument ({len(full)} returning valuation(s), {n_gen} generic iteration(s) of the path loop): data element = "
                 f"_read_image_data(current path), format element = _determine_image_format(same path), lists start empty, returned as (data, formats): {n_ok} element pair(s) ok"
                 + (f", disagreement: {bad}" if bad else ""))
    if bad:
        ctx.violation("R16.1", rf.short, "figure data flow", rf.where(), f"rtf_read_figure no longer returns each file's bytes unchanged and in the given order: {bad[:200]}")
    elif unrec:
        ctx.gap("R16.1", "rtf_read_figure: " + unrec)
    elif not n_gen:
        ctx.gap("R16.1", "rtf_read_figure: no loop over the given paths was re-identified")


def _hex_partition(ctx: Ctx) -> None:
    """_binary_to_hex over symbolic bytes: the lines are the slices H[s : s + L] of H = data.hex() for s over range(0, len(H), L)
    (linear forms of the slice bounds: consecutive bounds partition H), L a positive even literal of the source (no byte is
    split across lines), joined by whitespace only"""
    from .c06 import CallV, SliceV, lin_of, lin_add
    pm = ctx.pm
    bh = pm.func("RTFFigureService._binary_to_hex")
    ps = _params(bh)
    if len(ps) != 1:
        ctx.gap("R16.1", "_binary_to_hex no longer takes one argument")
        return
    dt = _flow(pm, max_atoms=8)
    rows = _table(ctx, "R16.1", dt, bh, {ps[0]: Sym(ps[0])}, "_binary_to_hex")
    if rows is None:
        return
    bad: dict[str, str] = {}
    n_ok = 0
    for v, r in rows:
        if r.raised is not None:
            continue
        out = r.ret
        if isinstance(out, CallV) and out.fn == "hex" and isinstance(out.recv, Sym) and out.recv.path == ps[0] and not out.args:
            n_ok += 1                 # the unbroken hex string
            continue
        if not isinstance(out, list):
            ctx.gap("R16.1", f"_binary_to_hex does not evaluate to a whitespace-joined sequence of pieces ({str(dt.show(out))[:60]})")
            return
        outside, inside = _split_generic(out)
        joins = [e for e in r.effects if e[0] == "join"]
        if any(str(e[1]).strip() for e in joins):
            bad.setdefault("separator", f"hex lines are joined by {joins[0][1]!r}, not by whitespace only")
        if [x for x in outside if not (isinstance(x, str) and not x.strip())] or len(inside) != 1:
            ctx.gap("R16.1", f"_binary_to_hex: the result is not built by one loop over the hex string ({len(inside)} loop(s), literal pieces {outside[:2]})")
            return
        (lp, pieces), = inside.items()
        if len(pieces) != 1 or not isinstance(pieces[0], SliceV):
            ctx.gap("R16.1", f"_binary_to_hex: one iteration adds {[str(dt.show(x))[:40] for x in pieces]}, expected one slice of the hex string")
            return
        sl = pieces[0]
        h = sl.base
        if not (isinstance(h, CallV) and h.fn == "hex" and isinstance(h.recv, Sym) and h.recv.path == ps[0] and not h.args and not h.kw):
            bad.setdefault("payload source", f"the lines are slices of `{dt.show(h)}`, not of {ps[0]}.hex()")
            continue
        lo, hi = lin_of(sl.lo if sl.lo is not None else 0), (lin_of(sl.hi) if sl.hi is not None else None)
        if lo is None or hi is None or sl.step is not None:
            ctx.gap("R16.1", f"_binary_to_hex: the bounds of the line slice `{dt.show(sl)}` are not linear in the loop position")
            return
        step = lo.get(lp)
        start = {k: c for k, c in lo.items() if k != lp}
        width = lin_add(hi, lo, -1)
        n_it = dt.gen_loops.get(lp, [])
        if not isinstance(step, int) or step <= 0 or set(width) - {""}:
            ctx.gap("R16.1", f"_binary_to_hex: line bounds `{dt.show(sl)}` do not advance by a constant number of hex digits per line")
            return
        w = width.get("", 0)
        if start:
            bad.setdefault("partition", f"the first line starts at `{start}` instead of 0 (leading hex digits are lost)")
        if w != step:
            bad.setdefault("partition", f"line k is H[{step}k : {step}k + {w}] but the next line starts at {step}(k+1): "
                           + ("lines overlap, hex digits are duplicated" if w > step else "hex digits between the lines are lost"))
        # the loop must run to the end of H: range(0, len(H), L) -- its stop is the length of the sliced string
        stops = [e for e in r.effects if e[0] == "loop-begin" and e[1] == lp]
        rng = getattr(dt, "range_of", {}).get(lp)
        if rng is None:
            ctx.gap("R16.1", "_binary_to_hex: the line loop is not a range over the positions of the hex string")
            return
        stop = lin_of(rng[1])
        if stop != {f"len({h.path})": 1}:
            bad.setdefault("partition", f"the line starts run up to `{dt.show(rng[1])}`, not to len({ps[0]}.hex()): the tail of the payload is lost or padded")
        if step % 2:
            bad.setdefault("partition odd line length", f"a line holds {step} hex digits: an odd line length splits a byte across lines")
        if not bad:
            n_ok += 1
    ctx.instance("R16.1", bh.where(), f"_binary_to_hex over symbolic bytes ({len(rows)} valuation(s)): lines = H[Lk : Lk + L] for k over range(0, len(H), L), H = data.hex(), L even literal, "
                 f"whitespace separators: {n_ok} ok, {len(bad)} kind(s) of disagreement")
    if not n_ok and not bad:
        ctx.gap("R16.1", "_binary_to_hex: no evaluated path returns the hex lines")
    for k, msg in sorted(bad.items()):
        ctx.violation("R16.1", bh.short, k, bh.where(), f"_binary_to_hex: {msg}")


# ---------------------------------------------------------------------------------------------------- R16.2 / R16.3 / R16.4

WANT_SUFFIX = {".png": "png", ".jpg": "jpeg", ".jpeg": "jpeg", ".emf": "emf"}
WANT_MIME = {"image/png": "png", "image/jpeg": "jpeg", "image/jpg": "jpeg"}
WANT_BLIP = {"png": "\\pngblip", "jpeg": "\\jpegblip", "emf": "\\emfblip"}


# ---- format facts (PNG: W3C PNG specification, 11.2.2 IHDR; JPEG: ITU-T T.81, table B.1 / B.2.2)
PNG_SIGNATURE = b"\x89PNG\r\n\x1a\n"
PNG_WIDTH, PNG_HEIGHT = (16, 4, "big"), (20, 4, "big")            # (offset, size, byte order) of IHDR width / height
JPEG_SOI = b"\xff\xd8"
JPEG_SOF = frozenset(range(0xC0, 0xD0)) - {0xC4, 0xC8, 0xCC}       # start-of-frame markers (not DHT, JPG, DAC)
JPEG_HEIGHT, JPEG_WIDTH, JPEG_SEGLEN = (5, 2, "big"), (7, 2, "big"), (2, 2, "big")     # relative to the 0xFF of the marker

_STRUCT_SIZES = {"x": 1, "c": 1, "b": 1, "B": 1, "?": 1, "h": 2, "H": 2, "i": 4, "I": 4, "l": 4, "L": 4, "q": 8, "Q": 8}


def _struct_layout(fmt: str):
    """(byte order, [(offset, size)] of the values, total size) of a struct format with an explicit byte order (standard sizes)"""
    if not fmt or fmt[0] not in "<>!":
        return None
    order = "little" if fmt[0] == "<" else "big"
    vals, off = [], 0
    for cnt, code in re.findall(r"(\d*)([a-zA-Z?])", fmt[1:]):
        if code not in _STRUCT_SIZES or "".join(c + k for c, k in re.findall(r"(\d*)([a-zA-Z?])", fmt[1:])) != fmt[1:].replace(" ", ""):
            return None
        for _ in range(int(cnt) if cnt else 1):
            if code != "x":
                vals.append((off, _STRUCT_SIZES[code]))
            off += _STRUCT_SIZES[code]
    return order, vals, off


def decoded_field(x):
    """(buffer term, offset as linear form, size, byte order) of an integer term decoded from a buffer, None if the term is not
    recognised as such, a string describing the inconsistency when the slice and the struct format disagree"""
    from .c06 import CallV, SliceV, SubV, lin_add, lin_of
    if isinstance(x, SubV) and isinstance(x.base, CallV) and x.base.fn in ("unpack", "unpack_from") and isinstance(x.key, int) and not isinstance(x.key, bool):
        c = x.base
        fmt = c.args[0] if c.args and isinstance(c.args[0], str) else None
        lay = _struct_layout(fmt) if fmt else None
        if lay is None:
            return None
        order, vals, total = lay
        if not 0 <= x.key < len(vals):
            return f"value {x.key} of struct format {fmt!r}"
        off, size = vals[x.key]
        if c.fn == "unpack" and len(c.args) == 2 and isinstance(c.args[1], SliceV) and c.args[1].step is None:
            sl = c.args[1]
            lo = lin_of(sl.lo if sl.lo is not None else 0)
            hi = lin_of(sl.hi) if sl.hi is not None else None
            if lo is None:
                return None
            if hi is not None:
                w = lin_add(hi, lo, -1)
                if set(w) <= {""} and w.get("", 0) != total:
                    return f"struct format {fmt!r} ({total} bytes) applied to a slice of {w.get('', 0)} bytes"
            return sl.base, lin_add(lo, {"": off} if off else {}), size, order
        if c.fn == "unpack_from" and len(c.args) >= 2:
            kw = dict(c.kw)
            o = c.args[2] if len(c.args) > 2 else kw.get("offset", 0)
            lo = lin_of(o)
            if lo is None:
                return None
            return c.args[1], lin_add(lo, {"": off} if off else {}), size, order
        return None
    if isinstance(x, CallV) and x.fn == "from_bytes" and x.args and isinstance(x.args[0], SliceV) and x.args[0].step is None:
        sl = x.args[0]
        kw = dict(x.kw)
        order = x.args[1] if len(x.args) > 1 else kw.get("byteorder", "big")
        lo = lin_of(sl.lo if sl.lo is not None else 0)
        hi = lin_of(sl.hi) if sl.hi is not None else None
        if lo is None or hi is None or not isinstance(order, str) or kw.get("signed") not in (None, False):
            return None
        w = lin_add(hi, lo, -1)
        if set(w) - {""}:
            return None
        return sl.base, lo, w.get("", 0), order
    return None


def _offset_terms(x) -> list:
    """the symbolic terms the offset of a decoded integer is computed from"""
    from .c06 import CallV, LinV, SliceV, SubV
    off = None
    if isinstance(x, SubV) and isinstance(x.base, CallV) and x.base.fn in ("unpack", "unpack_from"):
        c = x.base
        if c.fn == "unpack" and len(c.args) == 2 and isinstance(c.args[1], SliceV):
            off = c.args[1].lo
        elif c.fn == "unpack_from" and len(c.args) >= 2:
            off = c.args[2] if len(c.args) > 2 else dict(c.kw).get("offset")
    elif isinstance(x, CallV) and x.fn == "from_bytes" and x.args and isinstance(x.args[0], SliceV):
        off = x.args[0].lo
    if isinstance(off, LinV):
        return list(off.terms)
    return [off] if isinstance(off, Sym) else []


_SEARCHES, _POSITIONS, _FINDS = {"search", "match", "finditer", "fullmatch"}, {"start", "end", "span"}, {"find", "index", "rfind", "rindex"}


def _search_origin(t, data: str, depth: int = 0) -> bool:
    """is the term a position found by searching the buffer `data` for a pattern (m.start() of a regex search over data, data.find(...))?"""
    from .c06 import CallV, SubV
    if depth > 4:
        return False
    if isinstance(t, SubV):
        return _search_origin(t.base, data, depth + 1)
    if not isinstance(t, CallV):
        return False
    over_data = any(isinstance(a, Sym) and a.path == data for a in t.args)
    if t.fn in _FINDS and ((isinstance(t.recv, Sym) and t.recv.path == data) or over_data):
        return True
    if t.fn in _POSITIONS and isinstance(t.recv, CallV) and t.recv.fn in _SEARCHES and any(isinstance(a, Sym) and a.path == data for a in t.recv.args):
        return True
    return False


def _field_ok(got, data: str, want_off: dict, size: int, order: str) -> bool:
    return isinstance(got, tuple) and isinstance(got[0], Sym) and got[0].path == data and got[1] == want_off and got[2] == size and got[3] == order


def _show_field(dt, got) -> str:
    from .c06 import lin_text
    if isinstance(got, str):
        return got
    return f"{got[2]} bytes at offset {lin_text(got[1])} of `{dt.show(got[0])}`, {got[3]}-endian"


def r16_2_3(ctx: Ctx) -> None:
    pm = ctx.pm
    # ---- suffix / MIME -> format: decision table of _determine_image_format
    df = pm.func("_determine_image_format")
    ps = _params(df)
    if len(ps) != 1:
        ctx.gap("R16.2", "_determine_image_format no longer takes one argument")
    else:
        # the domain of a compared string is partitioned by the literals it can be compared with: every key of the documented tables, every
        # string literal of the analysed function of the same kind, and ONE representative of "any other string" (plus an upper-case
        # variant of a key where the suffix is compared without case folding)
        lits = [c.value for c in ast.walk(df.node) if isinstance(c, ast.Constant) and isinstance(c.value, str)]
        sfx_dom = list(dict.fromkeys(list(WANT_SUFFIX) + [x for x in lits if re.fullmatch(r"\.\w{1,8}", x)] + [".~other"]))
        mime_dom = list(dict.fromkeys(list(WANT_MIME) + [x for x in lits if re.fullmatch(r"[\w.+-]+/[\w.+-]+", x)] + ["~other/~other", None]))

        def dom(path: str):
            if re.search(r"\.suffix(es\[-1\])?(\.lower\(\)|\.casefold\(\))$", path):
                return sfx_dom
            if re.search(r"\.suffix(es\[-1\])?$", path):
                return sfx_dom + [".PNG"]                        # compared without case folding
            if "guess_type" in path and path.endswith("[0]"):
                return mime_dom
            return None
        dt = _flow(pm, sym_domain=dom, max_atoms=12)
        rows = _table(ctx, "R16.2", dt, df, {ps[0]: Sym(ps[0])}, "_determine_image_format")
        if rows is not None:
            bad = {}
            n = 0
            for v, r in rows:
                sfx = next((x for k, x in v.items() if ".suffix" in k and isinstance(x, str)), None)
                mime = next((x for k, x in v.items() if "guess_type" in k), "<unconsulted>")
                others = [k for k in v if ".suffix" not in k and "guess_type" not in k]
                if sfx is None or others:
                    ctx.gap("R16.2", f"_determine_image_format decides by {sorted(v)[:3]}, not by the path's suffix / guessed MIME type")
                    break
                n += 1
                got = r.ret if r.raised is None else "<raises>"
                want = WANT_SUFFIX.get(sfx.lower())
                if want is None:
                    want = WANT_MIME.get(mime, "<raises>") if mime != "<unconsulted>" else None
                if want is None and isinstance(got, str) and got != "<raises>":
                    bad.setdefault(f"suffix table {sfx} -> {got}", f"_determine_image_format gives {got!r} for the undocumented suffix {sfx!r} without consulting the guessed MIME type; "
                                   f"documented suffixes are {sorted(WANT_SUFFIX)}")
                    continue
                if want is None or (isinstance(got, Sym)):
                    ctx.gap("R16.2", f"_determine_image_format: result `{got}` for suffix {sfx!r} is not decided by the model")
                    break
                if got != want:
                    bad.setdefault(f"suffix table {sfx} -> {got}" if sfx.lower() in WANT_SUFFIX else f"mime table {mime} -> {got}",
                                   f"_determine_image_format gives {got!r} for suffix {sfx!r}" + (f", MIME {mime!r}" if mime != "<unconsulted>" else "") + f"; documented {want!r}"
                                   + (" (suffix comparison must be case-insensitive)" if sfx != sfx.lower() else ""))
            ctx.instance("R16.2", df.where(), f"_determine_image_format: decision table over suffix ({len(sfx_dom)} classes: documented keys, literals of the source, any other) x guessed MIME type "
                         f"({len(mime_dom)} classes), {n} rows, equals {WANT_SUFFIX} / {WANT_MIME}; {len(bad)} disagreement(s)")
            for k, msg in sorted(bad.items()):
                ctx.violation("R16.2", df.short, k, df.where(), msg)
    # ---- the picture group: blip per format, \picw/\pich from the reader (or the 96 dpi fallback), goal sizes through the shared conversion, payload
    es = pm.func("RTFFigureService._encode_single_figure")
    ps = _params(es)
    if len(ps) != 5:
        ctx.gap("R16.3", "_encode_single_figure no longer takes (data, format, width, height, alignment)")
    else:
        from .c06 import _tokens, _conv_of, shared_conversions
        conv = shared_conversions(pm)
        data, fmt, w, h, al = ps
        dt = _flow(pm, atoms={fmt: ["png", "jpeg", "emf"]}, opaque={"_get_image_dimensions", "_binary_to_hex"}, max_atoms=16, root_cls="RTFFigureService")
        rows = _table(ctx, "R16.3", dt, es, {p: Sym(p) for p in ps}, "_encode_single_figure")
        if rows is not None:
            bad2, bad3, bad4, bad1 = {}, {}, {}, {}
            n = 0
            dims = r"(?:\w+\.)*_get_image_dimensions\(%s, (?:%s|png|jpeg|emf)\)" % (re.escape(data), re.escape(fmt))
            for v, r in rows:
                s = r.ret
                if r.raised is not None:
                    continue
                if not isinstance(s, str):
                    ctx.gap("R16.3", f"_encode_single_figure does not evaluate to a string ({str(s)[:60]})")
                    break
                n += 1
                toks = _tokens(s)
                f_ = v.get(fmt)
                blips = [w_ for w_, _x in toks if w_.endswith("blip")]
                if f_ is None:
                    bad2.setdefault("blip ignores the format", f"the picture type {blips} is written without consulting the figure's format")
                elif blips != [WANT_BLIP[f_]]:
                    bad2.setdefault(f"blip for {f_}: {blips}", f"format {f_!r} is tagged {blips}, expected {WANT_BLIP[f_]!r}")
                for word, idx, p in (("\\picw", 0, w), ("\\pich", 1, h)):
                    vals = [x for w_, x in toks if w_ == word]
                    okv = len(vals) == 1 and (re.fullmatch(r"‹%s\[%d\]›" % (dims, idx), vals[0]) or re.fullmatch(r"‹int\(%s \* 96\)›" % re.escape(p), vals[0]))
                    if not okv:
                        if len(vals) == 1 and (("_get_image_dimensions" in vals[0]) or re.search(r"\b(%s|%s)\b" % (re.escape(w), re.escape(h)), vals[0])):
                            bad3.setdefault(f"{word} source", f"{word} is written from `{vals[0].strip('‹›')}`, expected element {idx} of the image's own dimensions (or int({p} * 96))")
                        else:
                            ctx.gap("R16.3", f"the source of {word} (`{vals}`) could not be re-identified")
                for word, p in (("\\picwgoal", w), ("\\pichgoal", h)):
                    vals = [x for w_, x in toks if w_ == word]
                    if len(vals) != 1:
                        ctx.gap("R16.4", f"{word} is written {len(vals)} times in the picture group")
                        continue
                    src, shared = _conv_of(vals[0], conv)
                    if src != p or not shared:
                        bad4.setdefault(f"{word} = {vals[0].strip('‹›')}", f"display size {word} is `{vals[0].strip('‹›')}`, not the shared inch->twip conversion of the configured {p}")
                pay = re.findall(r"‹(?:\w+\.)*_binary_to_hex\(([^‹›]*)\)›", s)
                if pay != [data]:
                    if len(pay) == 1 or len(pay) > 1:
                        bad1.setdefault("payload argument", f"the hex payload is computed from {pay}, expected exactly once from `{data}` as received")
                    else:
                        ctx.gap("R16.1", "the hex payload could not be re-identified in the picture group")
                elif not re.search(r"\{\\pict.*‹[^‹›]*_binary_to_hex[^‹›]*›\}", s, re.S):
                    bad1.setdefault("payload position", "the hex payload is not inside the {\\pict ...} group")
            ctx.instance("R16.2", es.where(), f"_encode_single_figure evaluated on {n} path(s): blip per format equals {WANT_BLIP}; {len(bad2)} disagreement(s)")
            ctx.instance("R16.3", es.where(), f"\\picw/\\pich <- the image's own (width, height) or the 96-dpi fallback: {len(bad3)} disagreement(s)")
            ctx.instance("R16.4", es.where(), f"\\picwgoal/\\pichgoal <- shared conversion ({sorted(conv)}) of the configured width/height: {len(bad4)} disagreement(s)")
            ctx.instance("R16.1", es.where(), f"payload = _binary_to_hex({data}) once, inside the pict group: {len(bad1)} disagreement(s)")
            for rule, bd in (("R16.2", bad2), ("R16.3", bad3), ("R16.4", bad4), ("R16.1", bad1)):
                for k, msg in sorted(bd.items()):
                    ctx.violation(rule, es.short, k, es.where(), f"_encode_single_figure: {msg}")
    # ---- dispatch of the dimension readers
    gi = pm.func("RTFFigureService._get_image_dimensions")
    ps = _params(gi)
    if len(ps) != 2:
        ctx.gap("R16.3", "_get_image_dimensions no longer takes (data, format)")
    else:
        dt = _flow(pm, atoms={ps[1]: ["png", "jpeg", "emf"]}, opaque={"_get_png_dimensions", "_get_jpeg_dimensions"}, max_atoms=8, root_cls="RTFFigureService")
        rows = _table(ctx, "R16.3", dt, gi, {ps[0]: Sym(ps[0]), ps[1]: Sym(ps[1])}, "_get_image_dimensions")
        if rows is not None:
            bad = {}
            for v, r in rows:
                f_ = v.get(ps[1])
                got = str(r.ret.path if isinstance(r.ret, Sym) else r.ret)
                want = {"png": "_get_png_dimensions", "jpeg": "_get_jpeg_dimensions"}.get(f_)
                if f_ is None:
                    bad.setdefault("dispatch", "pixel dimensions are read without consulting the figure's format")
                elif want and not re.fullmatch(r"(\w+\.)*%s\(%s\)" % (want, re.escape(ps[0])), got):
                    bad.setdefault("dispatch", f"format {f_!r}: dimensions come from `{got[:60]}`, expected {want}({ps[0]})")
                elif not want and "_dimensions(" in got:
                    bad.setdefault("dispatch", f"format {f_!r}: dimensions come from `{got[:60]}`")
            ctx.instance("R16.3", gi.where(), f"dimension dispatch png/jpeg by the figure's own format over {len(rows)} rows: {len(bad)} disagreement(s)")
            for k, msg in sorted(bad.items()):
                ctx.violation("R16.3", gi.short, k, gi.where(), "pixel dimensions are not read by the reader of the figure's own format: " + msg)
    _png_reader(ctx)
    _jpeg_reader(ctx)


def _signature_checks(dt, data: str):
    """[(atom key, slice bounds as (lo, hi) linear forms, bytes constant, polarity of the atom meaning 'matches')] for the
    comparisons of a leading slice of the buffer with a bytes literal"""
    from .c06 import SliceV, lin_of
    out = []
    for key, (op, l, r) in dt.cmpinfo.items():
        if op not in (ast.Eq, ast.NotEq):
            continue
        sl, const = (l, r) if isinstance(r, (bytes, bytearray)) else (r, l)
        if isinstance(sl, SliceV) and isinstance(const, (bytes, bytearray)) and isinstance(sl.base, Sym) and sl.base.path == data and sl.step is None:
            out.append((key, lin_of(sl.lo if sl.lo is not None else 0), lin_of(sl.hi) if sl.hi is not None else None, bytes(const), op is ast.Eq))
    return out


def _png_reader(ctx: Ctx) -> None:
    """_get_png_dimensions over symbolic bytes: on every path that returns dimensions, width and height are terms decoding 4
    big-endian bytes at offsets 16 and 20 of the data (IHDR directly after the 8-byte signature); the signature test compares
    data[0:8] with the PNG signature and dimensions are returned only when it matches"""
    pm = ctx.pm
    fi = pm.func("RTFFigureService._get_png_dimensions")
    ps = _params(fi)
    if len(ps) != 1:
        ctx.gap("R16.3", f"{fi.short} no longer takes one argument")
        return
    data = ps[0]
    dt = _flow(pm, max_atoms=10, root_cls="RTFFigureService")
    rows = _table(ctx, "R16.3", dt, fi, {data: Sym(data)}, fi.short)
    if rows is None:
        return
    bad: list[str] = []
    n_dim = 0
    sigs = _signature_checks(dt, data)
    for key, lo, hi, const, pol in sigs:
        if lo != {} or hi != {"": len(PNG_SIGNATURE)} or const != PNG_SIGNATURE:
            bad.append(f"the signature test compares data[{lo.get('', 0) if lo is not None else '?'}:{hi.get('', '?') if hi else '?'}] with {const!r}; a PNG file starts with the 8 bytes {PNG_SIGNATURE!r}")
    for v, r in rows:
        ret = r.ret
        if r.raised is not None or not (isinstance(ret, (tuple, list)) and len(ret) == 2) or ret[0] is None or ret[1] is None:
            continue
        n_dim += 1
        for key, _lo, _hi, _c, pol in sigs:
            if key in v and v[key] != pol:
                bad.append("dimensions are returned on a path where the signature test fails")
        for name, term, (off, size, order) in (("width", ret[0], PNG_WIDTH), ("height", ret[1], PNG_HEIGHT)):
            got = decoded_field(term)
            if got is None:
                ctx.gap("R16.3", f"{fi.short}: the {name} `{str(dt.show(term))[:70]}` is not recognised as an integer decoded from the image bytes")
                return
            if not _field_ok(got, data, {"": off}, size, order):
                bad.append(f"{name} is decoded from {_show_field(dt, got)}; IHDR {name} is {size} bytes at offset {off}, {order}-endian")
    ctx.instance("R16.3", fi.where(), f"{fi.short} over symbolic bytes ({len(rows)} valuation(s), {n_dim} returning dimensions): width/height = big-endian 32-bit fields at offsets 16 / 20, "
                 f"signature test on data[0:8] ({len(sigs)} found): {len(bad)} disagreement(s)")
    if not n_dim:
        ctx.gap("R16.3", f"{fi.short}: no evaluated path returns dimensions")
    if bad:
        ctx.violation("R16.3", fi.short, "IHDR offsets", fi.where(), "PNG width/height are not read big-endian from IHDR bytes 16-20 / 20-24 after the 8-byte signature; "
                      + bad[0] + (f" (+{len(bad) - 1} more)" if len(bad) > 1 else ""))


def _jpeg_reader(ctx: Ctx) -> None:
    """_get_jpeg_dimensions over symbolic bytes: the scan loop is ONE generic iteration from an unconstrained cursor c; the byte
    at the cursor and the marker byte after it are enumerated over all 256 values.  Required: dimensions are returned exactly
    when data[c] == 0xFF and data[c+1] is a start-of-frame marker, as (width, height) = big-endian 16-bit fields at c+7 / c+5;
    every other marker segment is skipped by its big-endian 16-bit length at c+2 (cursor += 2 + length); the scan starts at 2,
    after the start-of-image marker"""
    from .c06 import LinV, SubV, lin_of, lin_text
    pm = ctx.pm
    fi = pm.func("RTFFigureService._get_jpeg_dimensions")
    ps = _params(fi)
    if len(ps) != 1:
        ctx.gap("R16.3", f"{fi.short} no longer takes one argument")
        return
    data = ps[0]
    pat = re.compile(re.escape(data) + r"\[[^\]\[:]*\]$")
    dt = _flow(pm, max_atoms=12, root_cls="RTFFigureService", sym_domain=lambda path: list(range(256)) if pat.match(path) else None)
    rows = _table(ctx, "R16.3", dt, fi, {data: Sym(data)}, fi.short, limit=6000)
    if rows is None:
        return
    bad: list[str] = []
    # ---- the cursor: byte reads at c and c + 1
    reads = {p: lin_of(t.key) for p, t in dt.domain_reads.items() if isinstance(t, SubV) and lin_of(t.key) is not None}
    cursors = {k for lf in reads.values() for k in lf if k != "" and "@w" in k}
    if len(cursors) != 1:
        # no segment walk was re-identified.  Positive evidence of a different mechanism: the dimensions are decoded at an offset that is the
        # result of a pattern search over the WHOLE buffer (re search / bytes.find of a marker byte pair): marker bytes inside the payload of an
        # earlier segment (an Exif thumbnail's frame header in APP1) are found first, because no segment is skipped by its length field
        found = None
        for v, r in rows:
            ret = r.ret
            if r.raised is None and isinstance(ret, (tuple, list)) and len(ret) == 2 and ret[0] is not None and ret[1] is not None:
                for term in ret:
                    for t in _offset_terms(term):
                        if _search_origin(t, data):
                            found = found or str(dt.show(t))
        walks = any(e[0] in ("while-begin", "loop-begin") for _v, r in rows for e in r.effects)
        if found and not walks:
            ctx.instance("R16.3", fi.where(), f"{fi.short} over symbolic bytes: dimensions are decoded at an offset computed from `{found[:80]}` (pattern search over the whole data), no loop over the segments")
            ctx.violation("R16.3", fi.short, "SOF parsing", fi.where(), "JPEG height/width are not read from offsets +5/+7 of an SOF0-15 marker (excluding DHT/JPG/DAC) with length-based segment skipping; "
                          f"the frame header is located by a pattern search over the whole data (`{found[:80]}`) and no segment is skipped by its length at +2: marker bytes inside an earlier "
                          "segment's payload (e.g. the thumbnail in an Exif APP1 segment) are taken for the frame header")
            return
        ctx.gap("R16.3", f"{fi.short}: the scan cursor was not re-identified (single bytes are read at {sorted(reads)[:4]})")
        return
    c = cursors.pop()
    at = {tuple(sorted(lf.items())): p for p, lf in reads.items()}
    p0, p1 = at.get(((c, 1),)), at.get(tuple(sorted({c: 1, "": 1}.items())))
    if p0 is None or p1 is None or len(reads) != 2:
        ctx.gap("R16.3", f"{fi.short}: expected single-byte reads at the cursor and directly after it, found {sorted(reads)}")
        return
    wid = c.split("@", 1)[1]
    accepted, n_dim, n_skip = set(), 0, 0
    for v, r in rows:
        if r.raised is not None:
            continue
        ret = r.ret
        dims = isinstance(ret, (tuple, list)) and len(ret) == 2 and ret[0] is not None and ret[1] is not None
        b0, m = v.get(p0), v.get(p1)
        if dims:
            n_dim += 1
            if b0 is None or m is None:
                bad.append("dimensions are returned on a path that does not look at the marker bytes at the cursor")
                continue
            if b0 != 0xFF:
                bad.append(f"dimensions are returned although the byte at the cursor is 0x{b0:02X}, not 0xFF")
                continue
            accepted.add(m)
            for name, term, (off, size, order) in (("width", ret[0], JPEG_WIDTH), ("height", ret[1], JPEG_HEIGHT)):
                got = decoded_field(term)
                if got is None:
                    ctx.gap("R16.3", f"{fi.short}: the {name} `{str(dt.show(term))[:70]}` is not recognised as an integer decoded from the image bytes")
                    return
                if not _field_ok(got, data, {c: 1, "": off}, size, order):
                    bad.append(f"{name} is decoded from {_show_field(dt, got)}; in a frame header it is {size} bytes at marker+{off}, {order}-endian")
        elif b0 == 0xFF and m is not None:
            post = [r.raw.get(k) for k, e in enumerate(r.effects, 1) if e[0] == "while-iter" and e[1] == wid]
            if not post:
                continue
            nxt = post[-1].get(c.split("@", 1)[0])
            lf = lin_of(nxt)
            if lf is None:
                ctx.gap("R16.3", f"{fi.short}: the cursor after a non-frame segment (`{str(dt.show(nxt))[:60]}`) is not a linear form")
                return
            rest = {k: x for k, x in lf.items() if k not in (c, "")}
            terms = {t.path: t for t in (nxt.terms if isinstance(nxt, LinV) else ())}
            if lf.get(c) == 1 and len(rest) == 1 and list(rest.values()) == [1] and next(iter(rest)) in terms:
                got = decoded_field(terms[next(iter(rest))])
                if got is None:
                    ctx.gap("R16.3", f"{fi.short}: the segment length `{next(iter(rest))[:60]}` is not recognised as an integer decoded from the image bytes")
                    return
                n_skip += 1
                off, size, order = JPEG_SEGLEN
                if not _field_ok(got, data, {c: 1, "": off}, size, order) or lf.get("", 0) != 2:
                    bad.append(f"a non-frame segment (marker 0x{m:02X}) moves the cursor to `{lin_text(lf)[:80]}`; the next marker is at cursor + 2 + the big-endian 16-bit length at cursor+2")
            elif lf == {c: 1, "": 1}:
                bad.append(f"after a non-frame marker 0x{m:02X} the cursor only advances by one byte: the segment payload is scanned for marker bytes")
            else:
                ctx.gap("R16.3", f"{fi.short}: the cursor after a non-frame segment (`{lin_text(lf)[:60]}`) was not re-identified as cursor + 2 + length")
                return
    wrong_in, wrong_out = sorted(accepted - JPEG_SOF), sorted(JPEG_SOF - accepted)
    if n_dim and wrong_in:
        names = {0xC4: "DHT", 0xC8: "JPG", 0xCC: "DAC"}
        bad.insert(0, "marker(s) " + ", ".join(f"0x{m:02X}" + (f" ({names[m]})" if m in names else "") for m in wrong_in[:6]) + " are taken for a frame header: their payload is misread as height/width")
    if n_dim and wrong_out:
        bad.insert(0, "start-of-frame marker(s) " + ", ".join(f"0x{m:02X}" for m in wrong_out[:6]) + " are not recognised")
    # ---- initial state of the loop-carried cursor and the start-of-image test
    for v, r in rows[:1]:
        for k, e in enumerate(r.effects, 1):
            if e[0] == "while-begin" and e[1] == wid:
                init = r.raw.get(k, {}).get(c.split("@", 1)[0])
                if isinstance(init, int) and init != len(JPEG_SOI):
                    bad.append(f"the scan starts at offset {init}, not directly after the 2-byte start-of-image marker")
                elif not isinstance(init, int):
                    ctx.gap("R16.3", f"{fi.short}: the initial value of the scan cursor (`{dt.show(init)}`) is not a literal")
    for key, lo, hi, const, pol in _signature_checks(dt, data):
        if lo != {} or hi != {"": len(JPEG_SOI)} or const != JPEG_SOI:
            bad.append(f"the start-of-image test compares data[{lo.get('', 0) if lo is not None else '?'}:{hi.get('', '?') if hi else '?'}] with {const!r}; a JPEG file starts with {JPEG_SOI!r}")
    ctx.instance("R16.3", fi.where(), f"{fi.short} over symbolic bytes: ONE generic iteration of the scan loop from cursor `{c}`, {len(rows)} valuations (both marker bytes over 0..255): "
                 f"dimensions returned for {len(accepted)} marker values (= the 13 SOF markers: {not wrong_in and not wrong_out}), height/width at +5/+7, {n_skip} segment skip(s) by the length at +2: "
                 f"{len(bad)} disagreement(s)")
    if not n_dim:
        ctx.gap("R16.3", f"{fi.short}: no evaluated path returns dimensions")
    if bad:
        ctx.violation("R16.3", fi.short, "SOF parsing", fi.where(), "JPEG height/width are not read from offsets +5/+7 of an SOF0-15 marker (excluding DHT/JPG/DAC) with length-based segment skipping; "
                      + bad[0] + (f" (+{len(bad) - 1} more)" if len(bad) > 1 else ""))


# ---------------------------------------------------------------------------------------------------- R16.5

_NUM_TYPES, _SEQ_TYPES = {"int", "float", "Real", "Number", "numbers"}, {"list", "tuple", "Sequence", "abc", "collections", "typing", "Iterable"}


def _dimension_rule(ctx: Ctx) -> None:
    """_get_dimension over symbolic (dimension, index): decision table over the consulted conditions (is the size a number /
    a sequence, index < len(sizes)) with the returned TERM: the sizes themselves for a scalar, sizes[index] inside the list,
    sizes[-1] beyond its end"""
    from .c06 import CallV, SubV, lin_of
    pm = ctx.pm
    gd = pm.func("RTFFigureService._get_dimension")
    ps = _params(gd)
    if len(ps) != 2:
        ctx.gap("R16.5", "_get_dimension no longer takes (dimension, index)")
        return
    dim, idx = ps
    dt = _flow(pm, max_atoms=8, root_cls="RTFFigureService")
    rows = _table(ctx, "R16.5", dt, gd, {dim: Sym(dim), idx: Sym(idx)}, "_get_dimension")
    if rows is None:
        return
    n_len = {f"len({dim})": 1}
    bad: dict[str, str] = {}
    gaps: list[str] = []
    for v, r in rows:
        scalar = None
        for k, x in v.items():
            m = re.fullmatch(r"isinstance\(%s, ([\w|]+)\)" % re.escape(dim), k)
            if m:
                names = set(m.group(1).split("|"))
                scalar = x if names <= _NUM_TYPES else (not x) if names <= _SEQ_TYPES else scalar
            m = re.fullmatch(r"hasattr\(%s, (__len__|__getitem__|__iter__)\)" % re.escape(dim), k)
            if m:
                scalar = not x
        inr = dt.cond_value(v, ast.Lt, Sym(idx), Sym(f"len({dim})"))
        ret = r.ret
        if r.raised is not None:
            kind, txt = "raises", f"raises {r.raised}"
        elif isinstance(ret, Sym) and ret.path == dim:
            kind, txt = "whole", dim
        elif isinstance(ret, SubV) and isinstance(ret.base, Sym) and ret.base.path == dim:
            key, lk = ret.key, lin_of(ret.key)
            txt = str(dt.show(ret))
            if lk == {idx: 1}:
                kind = "at-index"
            elif lk == {"": -1} or lk == {**n_len, "": -1}:
                kind = "last"
            elif isinstance(key, CallV) and key.fn == "min" and len(key.args) == 2 and sorted(map(str, (lin_of(a) for a in key.args))) == sorted(map(str, ({idx: 1}, {**n_len, "": -1}))):
                kind = "clamped"
            else:
                kind = "other"
        else:
            kind, txt = "?", str(dt.show(ret))[:60]
        cond = f"number={scalar}, index < len={inr}"
        if kind == "?":
            gaps.append(f"_get_dimension returns `{txt}` ({cond}), which is not the size value or one of its elements")
        elif scalar is True:
            if kind != "whole":
                bad.setdefault("reuse rule scalar " + txt[:60], f"a scalar size yields `{txt}`; it applies unchanged to every figure")
        elif scalar is None:
            gaps.append(f"_get_dimension returns `{txt}` without deciding whether the size is a number or a sequence")
        elif kind == "whole":
            bad.setdefault("reuse rule whole list", "a list of sizes is returned whole instead of the figure's own element")
        elif kind == "raises":
            bad.setdefault("reuse rule " + txt[:60], f"a list of sizes {txt} ({cond})")
        elif kind == "clamped":
            pass
        elif inr is True:
            if kind != "at-index":
                bad.setdefault("reuse rule " + txt[:60], f"inside the list (index < len) figure `{idx}` gets `{txt}`, expected {dim}[{idx}]")
        elif inr is False:
            if kind != "last":
                bad.setdefault("reuse rule " + txt[:60], f"beyond the end of the list (index >= len) figure `{idx}` gets `{txt}`, expected the last value {dim}[-1]")
        else:
            bad.setdefault("reuse rule " + txt[:60], f"figure `{idx}` gets `{txt}` without comparing the index with the length of the list; expected {dim}[{idx}] if {idx} < len({dim}) else {dim}[-1]")
    ctx.instance("R16.5", gd.where(), f"_get_dimension over symbolic (sizes, index): {len(rows)} valuation(s) of (number / sequence, index < len): terms d, d[i], d[-1] as specified: "
                 f"{len(bad)} disagreement(s)")
    if not bad:
        for g in gaps[:2]:
            ctx.gap("R16.5", g)
    for k, msg in sorted(bad.items()):
        ctx.violation("R16.5", gd.short, k, gd.where(), "per-figure sizes are not `d[i] if i < len(d) else d[-1]` (positional, last value reused): " + msg)


def r16_5(ctx: Ctx) -> None:
    pm = ctx.pm
    _dimension_rule(ctx)
    # ---- the two per-figure loops: ONE generic iteration each
    from .c06 import figure_path_table
    t = figure_path_table(ctx)
    fi = t["fi"]
    if t["error"]:
        ctx.gap("R16.5", t["error"])
    else:
        _figure_loop(ctx, fi, t["rows"], t["dt"], r"(?:\w+\.)*rtf_figure")
    ef = pm.func("RTFFigureService.encode_figure")
    ps = _params(ef)
    if len(ps) != 1:
        ctx.gap("R16.5", "encode_figure no longer takes one argument")
    else:
        dt = _flow(pm, effect_calls={"_encode_single_figure"}, opaque={"_get_dimension", "rtf_read_figure"}, max_atoms=10, root_cls="RTFFigureService")
        tb = _table(ctx, "R16.5", dt, ef, {ps[0]: Sym(ps[0], "RTFFigure")}, "encode_figure")
        if tb is not None:
            _figure_loop(ctx, ef, tb, dt, re.escape(ps[0]))
    ctx.floor("R16.5", 3)


def _figure_loop(ctx: Ctx, fi, rows, dt, fig_obj: str) -> None:
    """rows of a function with a per-figure loop, evaluated with ONE generic iteration: the figure of iteration i is encoded from
    (data[i], formats[i]) of one rtf_read_figure result, _get_dimension(fig_width, i), _get_dimension(fig_height, i), exactly once,
    and followed by \\page iff the iteration is not the last"""
    from .c06 import CallV, SubV, loop_of, iteration_pieces
    short = fi.short
    bad: dict[str, str] = {}
    gaps: dict[str, None] = {}
    seen = set()
    n_calls = 0
    for v, r in rows:
        if r.raised is not None:
            continue
        calls = [(k, e) for k, e in enumerate(r.effects, 1) if e[0] == "call" and e[1] == "_encode_single_figure"]
        if not calls:
            continue
        ret = r.ret if isinstance(r.ret, (list, tuple)) else [r.ret]
        _outside, inside = iteration_pieces(ret)
        sig = (tuple(str(e[3]) + str(e[4]) for _k, e in calls), tuple((lp, tuple(ps)) for lp, ps in inside.items() if "_encode_single_figure" in ps), tuple(sorted((k, x) for k, x in v.items() if " is last" in k)))
        if sig in seen:
            continue
        seen.add(sig)
        per_loop: dict = {}
        for k, e in calls:
            per_loop.setdefault(loop_of(r.effects, k), []).append((k, e))
        if None in per_loop:
            gaps[f"a figure is encoded outside a loop over the figures"] = None
            continue
        for lp, cs in per_loop.items():
            if len(cs) != 1:
                bad.setdefault("figure count", f"one iteration over the figures encodes {len(cs)} figures")
                continue
            k, e = cs[0]
            n_calls += 1
            _recv, args, kw = r.raw.get(k, (None, (), {}))
            a = list(args) + [None] * 5
            d_, f_, w_, h_ = kw.get("figure_data", a[0]), kw.get("figure_format", a[1]), kw.get("width", a[2]), kw.get("height", a[3])

            def elem_of(x):
                """(sequence term, index term) of an element of a sequence"""
                return (x.base, x.key) if isinstance(x, SubV) else (None, None)
            (dseq, dk), (fseq, fk) = elem_of(d_), elem_of(f_)
            kinds = {_own_element(d_, lp, r.loop_elems), _own_element(f_, lp, r.loop_elems)}
            own = kinds == {"own"}
            src_ok = isinstance(dseq, SubV) and isinstance(fseq, SubV) and isinstance(dseq.base, CallV) and dseq.base.fn == "rtf_read_figure" and fseq.base is dseq.base or \
                (isinstance(dseq, SubV) and isinstance(fseq, SubV) and isinstance(dseq.base, Sym) and isinstance(fseq.base, Sym) and dseq.base.path == fseq.base.path and "rtf_read_figure" in dseq.base.path)
            if "wrong" in kinds:
                bad.setdefault(f"figure arguments {[str(dt.show(d_))[:40], str(dt.show(f_))[:40]]}", f"iteration {lp} encodes data `{str(dt.show(d_))[:60]}` / format `{str(dt.show(f_))[:60]}`, expected the iteration's own elements")
            elif not own:
                gaps[f"the figure data / format of iteration {lp} (`{str(dt.show(d_))[:50]}`, `{str(dt.show(f_))[:50]}`) were not re-identified as the iteration's own elements"] = None
            elif not src_ok:
                gaps[f"the figure data / format (`{str(dt.show(d_))[:50]}`, `{str(dt.show(f_))[:50]}`) could not be traced to one rtf_read_figure result"] = None
            elif (dseq.key, fseq.key) != (0, 1):
                bad.setdefault("figure arguments data/format swapped", f"data is element {dseq.key} and format element {fseq.key} of the rtf_read_figure result, expected (0, 1)")
            for val, fld, other in ((w_, "fig_width", "fig_height"), (h_, "fig_height", "fig_width")):
                txt = str(dt.show(val))
                if isinstance(val, CallV) and val.fn == "_get_dimension" and len(val.args) == 2:
                    src, ix = val.args
                    sp = src.path if isinstance(src, Sym) else str(src)
                    if not (isinstance(ix, Sym) and ix.path == lp):
                        bad.setdefault("dimension lookup " + txt[:60], f"iteration {lp}: {fld[4:]} is `{txt}`, expected _get_dimension({fld}, <own index>)")
                    elif re.fullmatch(r"%s\.%s" % (fig_obj, fld), sp):
                        continue
                    elif re.fullmatch(r"%s\.%s" % (fig_obj, other), sp):
                        bad.setdefault("figure arguments width/height swapped", f"{fld[4:]} is taken from {other}")
                    else:
                        bad.setdefault("dimension lookup " + txt[:60], f"{fld[4:]} is `{txt}`, expected _get_dimension({fld}, index)")
                elif fld in txt or other in txt or "BroadcastValue" in txt:
                    bad.setdefault("dimension lookup", f"{fld[4:]} is `{txt[:80]}`, not taken by _get_dimension({fld}, index) (positional, last value reused)")
                else:
                    gaps[f"the {fld[4:]} passed for a figure (`{txt[:60]}`) could not be traced to {fld}"] = None
            # page break guard of this iteration
            pieces = inside.get(lp)
            if pieces is not None:
                got = [p for p in pieces if p == "_encode_single_figure" or (p.startswith("lit:") and p[4:].strip() == "\\page")]
                n_pg = len(got) - got.count("_encode_single_figure")
                last = v.get(f"{lp} is last")
                if last is None:
                    bad.setdefault("page guard", f"\\page is emitted {n_pg}x per figure without consulting whether the figure is the last one")
                elif n_pg != (0 if last else 1) or (n_pg and got[-1] == "_encode_single_figure"):
                    bad.setdefault("page guard", f"figure and page break are emitted as {[g if g[0] == '_' else g[4:] for g in got]} with last={last}, expected the figure followed by \\page iff it is not the last")
    ctx.instance("R16.5", fi.where(), f"{short}: ONE generic iteration of the per-figure loop ({n_calls} distinct evaluated call(s)): figure i is encoded from (data[i], format[i], _get_dimension(fig_width, i), "
                 f"_get_dimension(fig_height, i)) and followed by \\page unless last: {len(bad)} kind(s) of disagreement")
    if not n_calls and not gaps:
        ctx.gap("R16.5", f"{short}: no evaluated path encodes a figure")
    if not bad:
        for g in gaps:
            ctx.gap("R16.5", f"{short}: {g}")
    for k, msg in sorted(bad.items()):
        ctx.violation("R16.5", short, k, fi.where(), f"{short}: {msg}")


def check(ctx: Ctx) -> None:
    ctx.explain(
        "Abstract evaluation of the syntax tree (FlowDT of c06, an extension of sa/dtab.DT): inputs are uninterpreted symbols, values are structured terms (subscript, slice, call, "
        "integer-linear form), every consulted condition is enumerated over all its valuations, a loop over a symbolic collection (for / comprehension / while) is ONE generic iteration "
        "(position symbol, atoms `is first` / `is last`, loop-carried locals unconstrained); nothing of the package is imported or run. "
        "R16.1 dataflow identity: open(path,'rb').read() unmemoised; rtf_read_figure: the generic iteration appends _read_image_data(p) and _determine_image_format(p) of the same current "
        "path p to lists that start empty; the picture group contains _binary_to_hex(data) once; _binary_to_hex: lines are H[Lk : Lk+L] over range(0, len(H), L), H = data.hex(), L even "
        "(linear forms of the slice bounds), whitespace separators. R16.2 decision table of the format detection over suffix x MIME type (keys of the tables plus one other value each) and blip "
        "word per format. R16.3 PNG reader: width/height terms decode 4 big-endian bytes at 16 / 20, signature test data[0:8]; JPEG reader: generic iteration of the scan loop, both marker bytes "
        "enumerated over 0..255, dimensions returned exactly for the 13 SOF markers from +7/+5, other segments skipped by the length at +2. R16.4 goal sizes use the shared inch->twip "
        "conversion and nobody else multiplies by 1440. R16.5 _get_dimension: decision table with result terms d / d[i] / d[-1]; the two per-figure loops: own data/format, "
        "_get_dimension(size, i), \\page iff not last. R16.6 placement on figure pages: see C06.")
    ctx.assume("struct.unpack / int.from_bytes / bytes.hex behave as documented; format facts: PNG IHDR layout (W3C PNG 11.2.2), JPEG marker codes and frame header layout (ITU-T T.81 B.1, B.2.2)")
    ctx.assume("conditions are treated as independent atoms (all combinations enumerated, also infeasible ones); atoms that do not mention a property-relevant name are pinned to one "
               "value where a rule says so (figure path: see C06)")
    ctx.undecided("pixel dimensions of malformed image files; behaviour of the JPEG scan over several iterations beyond the one generic step (termination, standalone markers without a length)")
    r16_1(ctx)
    # R16.1 complement: a memo on the figure read path whose key omits (or only projects) an input of the stored bytes
    from ..effects import memo_key_gaps
    for fi in ctx.pm.iter_funcs():
        if not (fi.module.endswith(".figure") or fi.module.endswith("figure_service")):
            continue
        for node, cont, kl, vl, missing in memo_key_gaps(ctx.pm, fi):
            ctx.instance("R16.1", fi.where(node), f"{fi.short}: memo in {cont}: key {kl}; value depends on {vl}")
            if missing:
                ctx.violation("R16.1", fi.short, f"memo {cont} key lacks {','.join(missing)[:80]}", fi.where(node),
                              f"{fi.short}: image bytes/format are cached in {cont} under a key that does not determine them ({missing}): a different file with the same key "
                              "is embedded with another file's payload and dimensions")
    r16_2_3(ctx)
    units_rule(ctx, "R16.4")
    r16_5(ctx)
    from .c06 import placement_rule
    placement_rule(ctx, "R16.6", figure_only=True)
