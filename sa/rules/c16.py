"""C16 - figures are embedded byte-exactly, one per page, at the configured size.

R16.1 payload identity (file bytes -> hex, unmodified, unmemoised) and hex line partition;
R16.2 format tables agree; R16.3 PNG/JPEG dimension offsets; R16.4 goal size through the shared
inch->twip conversion (who-may-convert rule, shared with C06); R16.5 per-figure loop shape and the
dimension reuse rule; R16.6 placement predicates of the figure path (shared with C06).
"""
from __future__ import annotations

import ast

from ..absint import NOC
from ..consteval import const_expr
from ..linform import linform
from ..pm import AnalysisError, dotted, unparse, walk_no_nested
from ..report import Ctx


def units_rule(ctx: Ctx, rule: str) -> None:
    """who may convert: multiplying by TWIPS_PER_INCH/1440 is allowed only inside
    RTFMeasurements.inch_to_twip (and dividing for the inverse)"""
    pm = ctx.pm
    allowed = {"RTFMeasurements.inch_to_twip", "RTFMeasurements.twip_to_inch"}
    n = 0
    for fi in pm.iter_funcs():
        for b in walk_no_nested(fi.node):
            if isinstance(b, ast.BinOp) and isinstance(b.op, ast.Mult):
                for side in (b.left, b.right):
                    txt = unparse(side)
                    is_k = (isinstance(side, ast.Constant) and side.value == 1440) or txt.endswith("TWIPS_PER_INCH")
                    if is_k:
                        n += 1
                        ok = fi.short in allowed
                        ctx.instance(rule, fi.where(b), f"{fi.short}: `{unparse(b)}` multiplies by twips-per-inch ({'the shared conversion' if ok else 'LOCAL conversion'})")
                        if not ok:
                            ctx.violation(rule, fi.short, "local inch->twip " + unparse(b), fi.where(b),
                                          f"{fi.short}: `{unparse(b)}` converts inches to twips locally instead of through RTFMeasurements.inch_to_twip "
                                          "(its rounding can disagree with the document start: int() truncates, the shared helper rounds)")
    f = pm.func("RTFMeasurements.inch_to_twip")
    rets = [r for r in walk_no_nested(f.node) if isinstance(r, ast.Return)]
    p0 = f.node.args.args[0].arg
    ref = linform(ast.parse(f"{p0} * RTFConstants.TWIPS_PER_INCH", mode="eval").body)
    ok = len(rets) == 1 and isinstance(rets[0].value, ast.Call) and dotted(rets[0].value.func) == "round" and len(rets[0].value.args) == 1 \
        and linform(rets[0].value.args[0]) == ref
    val = const_expr(pm, f.module, ast.parse("RTFConstants.TWIPS_PER_INCH", mode="eval").body)
    ctx.instance(rule, f.where(), f"inch_to_twip returns `{unparse(rets[0].value) if rets else '?'}`; TWIPS_PER_INCH = {val}")
    if not ok or val != 1440:
        ctx.violation(rule, f.short, "shared conversion " + (unparse(rets[0].value) if rets else "?"), f.where(),
                      "RTFMeasurements.inch_to_twip is no longer round(inches * 1440)")
    ctx.floor(rule, 2)


def r16_1(ctx: Ctx) -> None:
    pm = ctx.pm
    rd = pm.func("_read_image_data")
    for d in rd.decorators:
        ctx.violation("R16.1", rd.short, "decorator " + d, rd.where(), f"_read_image_data is wrapped by {d}: the embedded bytes may not be the file's current bytes")
    opens = [c for c in walk_no_nested(rd.node) if isinstance(c, ast.Call) and dotted(c.func) == "open"]
    ok_mode = opens and all(len(c.args) > 1 and isinstance(c.args[1], ast.Constant) and c.args[1].value == "rb" for c in opens)
    rets = [r for r in walk_no_nested(rd.node) if isinstance(r, ast.Return)]
    ok_ret = len(rets) == 1 and isinstance(rets[0].value, ast.Call) and isinstance(rets[0].value.func, ast.Attribute) \
        and rets[0].value.func.attr == "read" and not rets[0].value.args
    ctx.instance("R16.1", rd.where(), f"_read_image_data: open(..., 'rb') {bool(ok_mode)}, returns `{unparse(rets[0].value) if rets else '?'}`")
    if not (ok_mode and ok_ret):
        ctx.violation("R16.1", rd.short, "read " + (unparse(rets[0].value) if rets else "?"), rd.where(), "image bytes are not the complete binary content of the file")
    # rtf_read_figure appends the data unchanged, in input order
    rf = pm.func("rtf_read_figure")
    data_assign = [a for a in walk_no_nested(rf.node) if isinstance(a, ast.Assign) and isinstance(a.value, ast.Call) and dotted(a.value.func) == "_read_image_data"]
    apps = [c for c in walk_no_nested(rf.node) if isinstance(c, ast.Call) and isinstance(c.func, ast.Attribute) and c.func.attr == "append" and unparse(c.func.value) == "figure_data"]
    ok = len(data_assign) == 1 and len(apps) == 1 and unparse(apps[0].args[0]) == unparse(data_assign[0].targets[0])
    loop = [n for n in walk_no_nested(rf.node) if isinstance(n, ast.For)]
    order_ok = bool(loop) and unparse(loop[0].iter) == "file_paths"
    ctx.instance("R16.1", rf.where(), f"rtf_read_figure: data appended unchanged {ok}; iterates file_paths in order {order_ok}")
    if not ok or not order_ok:
        ctx.violation("R16.1", rf.short, "figure data flow", rf.where(), "rtf_read_figure no longer returns each file's bytes unchanged and in the given order")
    for d in rf.decorators:
        ctx.violation("R16.1", rf.short, "decorator " + d, rf.where(), f"rtf_read_figure is wrapped by {d}")
    # _encode_single_figure passes its data parameter to _binary_to_hex unmodified, once, inside {\pict ...}
    es = pm.func("RTFFigureService._encode_single_figure")
    hx = [c for c in walk_no_nested(es.node) if isinstance(c, ast.Call) and dotted(c.func).endswith("_binary_to_hex")]
    p0 = es.node.args.args[0].arg
    reassigned = any(isinstance(a, (ast.Assign, ast.AugAssign)) and any(isinstance(t, ast.Name) and t.id == p0 for t in (a.targets if isinstance(a, ast.Assign) else [a.target])) for a in walk_no_nested(es.node))
    ok = len(hx) == 1 and len(hx[0].args) == 1 and unparse(hx[0].args[0]) == p0 and not reassigned
    ctx.instance("R16.1", es.where(), f"_encode_single_figure: _binary_to_hex({unparse(hx[0].args[0]) if hx else '?'}) with `{p0}` never reassigned: {ok}")
    if not ok:
        ctx.violation("R16.1", es.short, "payload argument", es.where(), "the hex payload is not computed from the figure's bytes exactly as received")
    # _binary_to_hex: whole-object hex(), partition by a cursor with stride = chunk length, whitespace separator
    bh = pm.func("RTFFigureService._binary_to_hex")
    p = bh.node.args.args[0].arg
    hexcalls = [c for c in walk_no_nested(bh.node) if isinstance(c, ast.Call) and isinstance(c.func, ast.Attribute) and c.func.attr == "hex"]
    ok_hex = len(hexcalls) == 1 and unparse(hexcalls[0].func.value) == p and not hexcalls[0].args
    from ..linform import single_assign_env
    env = single_assign_env(bh.node)
    loops = [n for n in walk_no_nested(bh.node) if isinstance(n, (ast.For, ast.comprehension)) and isinstance(n.iter, ast.Call) and dotted(n.iter.func) == "range"]
    ok_part = False
    desc = "no range loop"
    if loops:
        lp = loops[0]
        ra = lp.iter.args
        iv = lp.target.id if isinstance(lp.target, ast.Name) else "?"
        slices = [s for s in ast.walk(bh.node) if isinstance(s, ast.Subscript) and isinstance(s.slice, ast.Slice)]
        if len(ra) == 3 and slices:
            sl = slices[0].slice
            stride = linform(ra[2], env)
            lo = linform(sl.lower, env) if sl.lower is not None else None
            up = linform(sl.upper, env) if sl.upper is not None else None
            start0 = linform(ra[0], env) == {}
            stop_len = unparse(ra[1]) == f"len({unparse(slices[0].value)})"
            width = None
            if lo is not None and up is not None:
                width = {k: up.get(k, 0) - lo.get(k, 0) for k in set(up) | set(lo) if up.get(k, 0) - lo.get(k, 0) != 0}
            ok_part = start0 and stop_len and lo == {iv: 1} and width == stride and stride.get("", 0) > 0 and (stride.get("", 0) % 2 == 0)
            desc = f"range(0, len, {stride}) slices [{lo}:{up}]"
    joins = [c for c in walk_no_nested(bh.node) if isinstance(c, ast.Call) and isinstance(c.func, ast.Attribute) and c.func.attr == "join"]
    sep = const_expr(pm, bh.module, joins[0].func.value) if joins else NOC
    ok_sep = isinstance(sep, str) and sep.strip() == ""
    ctx.instance("R16.1", bh.where(), f"_binary_to_hex: {p}.hex() {ok_hex}; partition {desc} exact: {ok_part}; separator {sep!r}")
    if not ok_hex:
        ctx.violation("R16.1", bh.short, "hex()", bh.where(), "the payload is not bytes.hex() of the whole object")
    if not ok_part:
        ctx.violation("R16.1", bh.short, "partition " + desc, bh.where(), f"hex lines do not partition the string exactly ({desc}): characters are lost, duplicated, or a byte is split across lines")
    if not ok_sep:
        ctx.violation("R16.1", bh.short, f"separator {sep!r}", bh.where(), "hex lines are joined by something other than whitespace")


def r16_2_3(ctx: Ctx) -> None:
    pm = ctx.pm
    df = pm.func("_determine_image_format")
    es = pm.func("RTFFigureService._encode_single_figure")
    fmaps = {unparse(a.targets[0]): const_expr(pm, df.module, a.value) for a in walk_no_nested(df.node) if isinstance(a, ast.Assign) and isinstance(a.value, ast.Dict)}
    emaps = {unparse(a.targets[0]): const_expr(pm, es.module, a.value) for a in walk_no_nested(es.node) if isinstance(a, ast.Assign) and isinstance(a.value, ast.Dict)}
    suffix = fmaps.get("format_map", {})
    mime = fmaps.get("mime_to_format", {})
    blip = emaps.get("format_map", {})
    ctx.instance("R16.2", df.where(), f"suffix table {suffix}; mime table {mime}")
    ctx.instance("R16.2", es.where(), f"blip table {blip}")
    want_suffix = {".png": "png", ".jpg": "jpeg", ".jpeg": "jpeg", ".emf": "emf"}
    want_blip = {"png": "\\pngblip", "jpeg": "\\jpegblip", "emf": "\\emfblip"}
    if suffix != want_suffix:
        ctx.violation("R16.2", df.short, f"suffix table {suffix}", df.where(), f"suffix->format table is {suffix}, documented {want_suffix}")
    produced = set(suffix.values()) | set(mime.values()) if isinstance(mime, dict) else set(suffix.values())
    for f in sorted(produced):
        if blip.get(f) != want_blip.get(f):
            ctx.violation("R16.2", es.short, f"blip for {f}: {blip.get(f)}", es.where(), f"format {f!r} is tagged {blip.get(f)!r}, expected {want_blip.get(f)!r}")
    if "lower" not in unparse(df.node):
        ctx.violation("R16.2", df.short, "suffix case", df.where(), "suffix comparison is no longer case-insensitive")
    # dispatch of dimension readers
    gi = pm.func("RTFFigureService._get_image_dimensions")
    txt = unparse(gi.node)
    ok = "format == 'png'" in txt and "_get_png_dimensions(data)" in txt and "format == 'jpeg'" in txt and "_get_jpeg_dimensions(data)" in txt
    ctx.instance("R16.3", gi.where(), f"dimension dispatch png/jpeg: {ok}")
    if not ok:
        ctx.violation("R16.3", gi.short, "dispatch", gi.where(), "pixel dimensions are not read by the reader of the figure's own format")
    png = pm.func("RTFFigureService._get_png_dimensions")
    t = unparse(png.node)
    sig = const_expr(pm, png.module, ast.parse(repr(b"\x89PNG\r\n\x1a\n"), mode="eval").body)
    ok = "struct.unpack('>I', data[16:20])[0]" in t and "struct.unpack('>I', data[20:24])[0]" in t and "data[:8] == b'\\x89PNG\\r\\n\\x1a\\n'" in t
    order = t.find("width = struct.unpack('>I', data[16:20])") < t.find("height = struct.unpack('>I', data[20:24])") and "return (width, height)" in t
    ctx.instance("R16.3", png.where(), f"PNG: signature check + big-endian u32 at 16:20 (width) and 20:24 (height): {ok and order}")
    if not (ok and order):
        ctx.violation("R16.3", png.short, "IHDR offsets", png.where(), "PNG width/height are not read big-endian from IHDR bytes 16-20 / 20-24 after the 8-byte signature")
    jp = pm.func("RTFFigureService._get_jpeg_dimensions")
    t = unparse(jp.node)
    ok = "struct.unpack('>H', data[i + 5:i + 7])[0]" in t and "struct.unpack('>H', data[i + 7:i + 9])[0]" in t and \
        t.find("height = struct.unpack('>H', data[i + 5:i + 7])") != -1 and t.find("width = struct.unpack('>H', data[i + 7:i + 9])") != -1 and "return (width, height)" in t
    skip = "i += 2 + length" in t and "struct.unpack('>H', data[i + 2:i + 4])[0]" in t
    sof = None
    for n in walk_no_nested(jp.node):
        if isinstance(n, ast.Assign) and unparse(n.targets[0]) == "sof_markers":
            sof = const_expr(pm, jp.module, n.value)
    want = sorted(set(range(0xC0, 0xD0)) - {0xC4, 0xC8, 0xCC})
    sof_ok = sof is not NOC and sof is not None and sorted(sof) == want
    ctx.instance("R16.3", jp.where(), f"JPEG: SOF height at +5, width at +7: {ok}; segment skip by length: {skip}; SOF marker set correct: {sof_ok}")
    if not (ok and skip and sof_ok):
        ctx.violation("R16.3", jp.short, "SOF parsing", jp.where(), "JPEG height/width are not read from offsets +5/+7 of an SOF0-15 marker (excluding DHT/JPG/DAC) with length-based segment skipping")
    # pixel dims and goal dims reach the right control words
    t = unparse(es.node)
    for word, var in (("\\\\picw", "pic_width"), ("\\\\pich", "pic_height"), ("\\\\picwgoal", "width_twips"), ("\\\\pichgoal", "height_twips")):
        ok = f"f'{word}{{{var}}}'" in t
        ctx.instance("R16.3", es.where(), f"{word} <- {var}: {ok}")
        if not ok:
            ctx.violation("R16.3", es.short, f"{word} source", es.where(), f"{word.replace(chr(92)*2, chr(92))} is not written from {var}")
    env = {unparse(a.targets[0]): unparse(a.value) for a in walk_no_nested(es.node) if isinstance(a, ast.Assign) and len(a.targets) == 1}
    for var, p in (("width_twips", "width"), ("height_twips", "height")):
        v = env.get(var, "?")
        ok = v.replace(" ", "") in (f"Utils._inch_to_twip({p})", f"RTFMeasurements.inch_to_twip({p})")
        ctx.instance("R16.4", es.where(), f"{var} = {v}")
        if not ok:
            ctx.violation("R16.4", es.short, f"{var} = {v}", es.where(), f"display size {var} is `{v}`, not the shared inch->twip conversion of the configured {p}")


def r16_5(ctx: Ctx) -> None:
    pm = ctx.pm
    gd = pm.func("RTFFigureService._get_dimension")
    rets = [unparse(r.value) for r in walk_no_nested(gd.node) if isinstance(r, ast.Return)]
    ok = "dimension[index] if index < len(dimension) else dimension[-1]" in rets
    ctx.instance("R16.5", gd.where(), f"_get_dimension returns {rets}")
    if not ok:
        ctx.violation("R16.5", gd.short, "reuse rule " + str(rets), gd.where(), "per-figure sizes are not `d[i] if i < len(d) else d[-1]` (positional, last value reused)")
    for short in ("UnifiedRTFEncoder._encode_figure_only", "RTFFigureService.encode_figure"):
        fi = pm.func(short)
        loops = [n for n in walk_no_nested(fi.node) if isinstance(n, ast.For)]
        main = None
        for lp in loops:
            if any(isinstance(c, ast.Call) and dotted(c.func).endswith("_encode_single_figure") for c in ast.walk(lp)):
                main = lp
        if main is None:
            ctx.violation("R16.5", short, "no per-figure loop", fi.where(), f"{short}: figures are not encoded one per loop iteration")
            continue
        iv = main.target.id if isinstance(main.target, ast.Name) else (main.target.elts[0].id if isinstance(main.target, ast.Tuple) else "i")
        dims = [c for c in ast.walk(main) if isinstance(c, ast.Call) and dotted(c.func).endswith("_get_dimension")]
        okd = len(dims) == 2 and all(len(c.args) == 2 and unparse(c.args[1]) == iv for c in dims) and \
            sorted(unparse(c.args[0]).split(".")[-1] for c in dims) == ["fig_height", "fig_width"]
        es = [c for c in ast.walk(main) if isinstance(c, ast.Call) and dotted(c.func).endswith("_encode_single_figure")][0]
        args = [unparse(a) for a in es.args]
        env = {unparse(a.targets[0]): a.value for a in ast.walk(main) if isinstance(a, ast.Assign) and len(a.targets) == 1}
        def src_of(a):
            v = env.get(a)
            return unparse(v) if v is not None else a
        w_ok = len(args) >= 4 and "fig_width" in src_of(args[2]) and "fig_height" in src_of(args[3])
        data_ok = len(args) >= 2 and (args[0] in (f"figs[{iv}]", "figure_data")) and (args[1] in (f"formats[{iv}]", "figure_format"))
        pages = [x for x in ast.walk(main) if isinstance(x, ast.Constant) and isinstance(x.value, str) and x.value.startswith("\\page")]
        pg_guard = None
        if pages:
            for a in _anc(pages[0], main):
                if isinstance(a, ast.If):
                    pg_guard = unparse(a.test)
        pg_ok = pg_guard in ("not is_last", f"{iv} < len(figure_data_list) - 1", f"{iv} < num - 1", f"{iv} != num - 1")
        ctx.instance("R16.5", fi.where(main), f"{short}: per-figure dims by index {okd}; args {args[:4]} ok {w_ok and data_ok}; \\page under `{pg_guard}`")
        if not okd:
            ctx.violation("R16.5", short, "dimension lookup", fi.where(main), f"{short}: width/height of figure i are not taken by _get_dimension(fig_width/fig_height, {iv}) inside the loop")
        if not (w_ok and data_ok):
            ctx.violation("R16.5", short, "figure arguments " + str(args[:4]), fi.where(es), f"{short}: figure i is not encoded from its own data, format, width and height (width/height swapped or wrong index)")
        if not pg_ok:
            ctx.violation("R16.5", short, f"page guard {pg_guard}", fi.where(main), f"{short}: a page break must follow every figure except the last")
    ctx.floor("R16.5", 3)


def _anc(n, stop):
    p = getattr(n, "_parent", None)
    while p is not None and p is not stop:
        yield p
        p = getattr(p, "_parent", None)


def check(ctx: Ctx) -> None:
    ctx.explain(
        "R16.1 dataflow identity: open(path,'rb').read() unmemoised -> appended in order -> passed unmodified to _binary_to_hex -> "
        "whole-object hex(), partitioned by range(0,len,k) with slices [i:i+k] (linear forms; k even), whitespace-joined. "
        "R16.2 suffix/MIME/blip tables agree with the documented ones. R16.3 PNG IHDR and JPEG SOF offsets and marker set "
        "against the format specifications; control words take their documented sources. R16.4 goal sizes use the shared "
        "inch->twip conversion and nobody else multiplies by 1440. R16.5 per-figure loop: index-wise dimensions with the "
        "last-value reuse rule, own data/format, \\page iff not last. R16.6 placement predicates: see C06 (same rule).")
    ctx.assume("struct.unpack and bytes.hex behave as documented")
    ctx.undecided("pixel dimensions of arbitrary (possibly malformed) image files")
    r16_1(ctx)
    r16_2_3(ctx)
    units_rule(ctx, "R16.4")
    r16_5(ctx)
    from .c06 import placement_rule
    placement_rule(ctx, "R16.6", figure_only=True)
