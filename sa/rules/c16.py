"""C16 - figures are embedded byte-exactly, one per page, at the configured size.

R16.1 payload identity (file bytes -> hex, unmodified, unmemoised) and hex line partition;
R16.2 format tables agree; R16.3 PNG/JPEG dimension offsets; R16.4 goal size through the shared
inch->twip conversion (who-may-convert rule, shared with C06); R16.5 per-figure loop shape and the
dimension reuse rule; R16.6 placement predicates of the figure path (shared with C06).

The figure functions are small and pure, so they are decided by *evaluating* their syntax trees (FlowDT of c06, the
repository code is never imported) on concrete models: synthetic PNG/JPEG headers, hex strings of several lengths,
size lists of several lengths, lists of 1-3 figures.  A function that leaves the interpretable subset is an analysis gap.
"""
from __future__ import annotations

import ast
import re
import struct

from ..consteval import const_expr
from ..dtab import NeedAtom, Sym, Unsupported
from ..linform import linform
from ..pm import dotted, unparse, walk_no_nested
from ..report import Ctx


def units_rule(ctx: Ctx, rule: str) -> None:
    """who may convert: multiplying by TWIPS_PER_INCH/1440 is allowed only inside
    RTFMeasurements.inch_to_twip (and dividing for the inverse)"""
    pm = ctx.pm
    allowed = {"RTFMeasurements.inch_to_twip", "RTFMeasurements.twip_to_inch"}
    n = 0
    for fi in pm.iter_funcs():
        for b in walk_no_nested(fi.node):
            if isinstance(b, ast.BinOp) and isinstance(b.op, ast.Mult):
                for side in (b.left, b.right):
                    txt = unparse(side)
                    is_k = (isinstance(side, ast.Constant) and side.value == 1440) or txt.endswith("TWIPS_PER_INCH")
                    if is_k:
                        n += 1
                        ok = fi.short in allowed
                        ctx.instance(rule, fi.where(b), f"{fi.short}: `{unparse(b)}` multiplies by twips-per-inch ({'the shared conversion' if ok else 'LOCAL conversion'})")
                        if not ok:
                            ctx.violation(rule, fi.short, "local inch->twip " + unparse(b), fi.where(b),
                                          f"{fi.short}: `{unparse(b)}` converts inches to twips locally instead of through RTFMeasurements.inch_to_twip "
                                          "(its rounding can disagree with the document start: int() truncates, the shared helper rounds)")
    f = pm.func("RTFMeasurements.inch_to_twip")
    rets = [r for r in walk_no_nested(f.node) if isinstance(r, ast.Return)]
    p0 = f.node.args.args[0].arg
    ref = linform(ast.parse(f"{p0} * RTFConstants.TWIPS_PER_INCH", mode="eval").body)
    from ..astmatch import resolve
    val0 = resolve(rets[0].value, f.node) if len(rets) == 1 and rets[0].value is not None else None
    ok = val0 is not None and isinstance(val0, ast.Call) and dotted(val0.func) == "round" and len(val0.args) == 1 and linform(val0.args[0]) == ref
    val = const_expr(pm, f.module, ast.parse("RTFConstants.TWIPS_PER_INCH", mode="eval").body)
    ctx.instance(rule, f.where(), f"inch_to_twip returns `{unparse(rets[0].value) if rets else '?'}`; TWIPS_PER_INCH = {val}")
    if not ok or val != 1440:
        ctx.violation(rule, f.short, "shared conversion " + (unparse(rets[0].value) if rets else "?"), f.where(),
                      "RTFMeasurements.inch_to_twip is no longer round(inches * 1440)")
    ctx.floor(rule, 2)


# ---------------------------------------------------------------------------------------------------- helpers

def _flow(pm, **kw):
    from .c06 import FlowDT
    return FlowDT(pm, **kw)


def _table(ctx: Ctx, rule: str, dt, fi, args, what: str, limit: int = 4000):
    try:
        return dt.table(fi, args, limit=limit)
    except (Unsupported, NeedAtom) as e:
        ctx.gap(rule, f"{what} is outside the interpretable subset ({str(e)[:120]})")
        return None


def _params(fi) -> list[str]:
    return [a.arg for a in fi.node.args.args if a.arg not in ("self", "cls")]


# ---------------------------------------------------------------------------------------------------- R16.1

def _hex_model(n_bytes: int) -> str:
    return bytes((37 * k + 11) % 256 for k in range(n_bytes)).hex()


def r16_1(ctx: Ctx) -> None:
    pm = ctx.pm
    rd = pm.func("_read_image_data")
    for d in rd.decorators:
        ctx.violation("R16.1", rd.short, "decorator " + d, rd.where(), f"_read_image_data is wrapped by {d}: the embedded bytes may not be the file's current bytes")
    opens = [c for c in walk_no_nested(rd.node) if isinstance(c, ast.Call) and dotted(c.func).split(".")[-1] == "open"]
    rets = [r for r in walk_no_nested(rd.node) if isinstance(r, ast.Return) and r.value is not None]
    from ..astmatch import resolve
    desc = []
    verdict = "ok"
    for c in opens:
        mode = c.args[1] if len(c.args) > 1 else next((k.value for k in c.keywords if k.arg == "mode"), None)
        if dotted(c.func) != "open" and isinstance(c.func, ast.Attribute):     # path.open(mode)
            mode = c.args[0] if c.args else next((k.value for k in c.keywords if k.arg == "mode"), None)
        m = mode.value if isinstance(mode, ast.Constant) else None
        desc.append(f"open(..., {m!r})")
        if m is None and mode is not None:
            verdict = "gap"
        elif m is None or "b" not in str(m) or any(ch in str(m) for ch in "wax+"):
            verdict = "bad"
    if len(rets) != 1:
        verdict = "gap" if verdict == "ok" else verdict
    else:
        v = resolve(rets[0].value, rd.node)
        desc.append(f"returns `{unparse(v)}`")
        if isinstance(v, ast.Call) and isinstance(v.func, ast.Attribute) and v.func.attr == "read" and opens:
            if v.args or v.keywords:
                verdict = "bad"          # partial read
        elif isinstance(v, ast.Call) and isinstance(v.func, ast.Attribute) and v.func.attr == "read_bytes" and not v.args:
            pass
        elif isinstance(v, ast.Call) and isinstance(v.func, ast.Attribute) and v.func.attr == "read_text":
            verdict = "bad"
        elif verdict == "ok":
            verdict = "gap"
    ctx.instance("R16.1", rd.where(), f"_read_image_data: {'; '.join(desc)}: whole binary content: {verdict}")
    if verdict == "bad":
        ctx.violation("R16.1", rd.short, "read " + (unparse(rets[0].value) if rets else "?"), rd.where(), "image bytes are not the complete binary content of the file")
    elif verdict == "gap":
        ctx.gap("R16.1", "how _read_image_data obtains the file content could not be re-identified (expected open(path, 'rb').read() or Path.read_bytes())")
    # rtf_read_figure on concrete lists of paths: data/format k come from file k, unchanged, in the given order
    rf = pm.func("rtf_read_figure")
    for d in rf.decorators:
        ctx.violation("R16.1", rf.short, "decorator " + d, rf.where(), f"rtf_read_figure is wrapped by {d}")
    ps = _params(rf)
    if len(ps) != 1:
        ctx.gap("R16.1", "rtf_read_figure no longer takes one argument")
    else:
        bad = None
        n_ok = 0
        for n in (1, 3):
            paths = [Sym(f"p{k}") for k in range(n)]
            dt = _flow(pm, opaque={"_determine_image_format", "_read_image_data"}, max_atoms=12)
            rows = _table(ctx, "R16.1", dt, rf, {ps[0]: list(paths)}, "rtf_read_figure")
            if rows is None:
                break
            full = [(v, r) for v, r in rows if r.raised is None]
            if not full:
                ctx.gap("R16.1", "rtf_read_figure returns on no evaluated path")
                break
            for v, r in full:
                ret = r.ret
                if not (isinstance(ret, (tuple, list)) and len(ret) == 2 and all(isinstance(x, list) for x in ret)):
                    ctx.gap("R16.1", f"rtf_read_figure does not return a pair of lists on the model ({str(ret)[:60]})")
                    bad = bad or ""
                    continue
                datas = [str(x.path if isinstance(x, Sym) else x) for x in ret[0]]
                fmts = [str(x.path if isinstance(x, Sym) else x) for x in ret[1]]
                ok_d = len(datas) == n and all(re.fullmatch(r"_read_image_data\((Path\()?p%d\)?\)" % k, d) for k, d in enumerate(datas))
                ok_f = len(fmts) == n and all(re.fullmatch(r"_determine_image_format\((Path\()?p%d\)?\)" % k, d) for k, d in enumerate(fmts))
                if ok_d and ok_f:
                    n_ok += 1
                elif bad is None:
                    bad = f"data {datas} formats {fmts}"
        ctx.instance("R16.1", rf.where(), f"rtf_read_figure on 1 and 3 paths: data[k] = _read_image_data(path k), format[k] = _determine_image_format(path k), in order: {n_ok} path(s) ok"
                     + (f", disagreement {bad}" if bad else ""))
        if bad:
            ctx.violation("R16.1", rf.short, "figure data flow", rf.where(), f"rtf_read_figure no longer returns each file's bytes unchanged and in the given order: {bad[:160]}")
    # _binary_to_hex on concrete hex strings: the lines partition the string exactly, no byte is split, whitespace separators
    bh = pm.func("RTFFigureService._binary_to_hex")
    ps = _params(bh)
    if len(ps) != 1:
        ctx.gap("R16.1", "_binary_to_hex no longer takes one argument")
        return
    bad = {}
    n_ok = 0
    for n_bytes in (0, 1, 39, 40, 41, 80, 81, 100, 159, 400):
        hx = _hex_model(n_bytes)
        dt = _flow(pm, call_model={"hex": lambda a, k, hx=hx: hx if not a and not k else (_ for _ in ()).throw(ValueError("hex with separator"))}, max_atoms=8)
        rows = _table(ctx, "R16.1", dt, bh, {ps[0]: Sym(ps[0])}, "_binary_to_hex")
        if rows is None:
            return
        for v, r in rows:
            out = r.ret
            if r.raised is not None or not isinstance(out, str) or "‹" in out:
                ctx.gap("R16.1", f"_binary_to_hex does not evaluate to a string on the model of {n_bytes} bytes ({r.raised or str(out)[:60]})")
                return
            lines = out.split("\n") if out else []
            if "".join(out.split()) != hx:
                bad.setdefault("partition", f"{n_bytes} bytes: the joined lines differ from bytes.hex() (characters lost or duplicated)")
            elif any(len(ln.strip()) % 2 for ln in re.split(r"\s+", out) if ln):
                bad.setdefault("partition odd line length", f"{n_bytes} bytes: a line of {max(len(x) for x in lines)} hex digits splits a byte across lines")
            elif re.sub(r"[0-9a-f\s]", "", out):
                bad.setdefault("separator", f"{n_bytes} bytes: hex lines are joined by something other than whitespace")
            else:
                n_ok += 1
    ctx.instance("R16.1", bh.where(), f"_binary_to_hex evaluated on hex strings of 10 lengths: lines concatenate to bytes.hex(), even line lengths, whitespace separators: {n_ok} ok, {len(bad)} kind(s) of disagreement")
    for k, msg in sorted(bad.items()):
        ctx.violation("R16.1", bh.short, k, bh.where(), f"_binary_to_hex: {msg}")


# ---------------------------------------------------------------------------------------------------- R16.2 / R16.3 / R16.4

WANT_SUFFIX = {".png": "png", ".jpg": "jpeg", ".jpeg": "jpeg", ".emf": "emf"}
WANT_MIME = {"image/png": "png", "image/jpeg": "jpeg", "image/jpg": "jpeg"}
WANT_BLIP = {"png": "\\pngblip", "jpeg": "\\jpegblip", "emf": "\\emfblip"}


def _png(width: int, height: int) -> bytes:
    ihdr = struct.pack(">II", width, height) + bytes([8, 6, 0, 0, 0])
    return b"\x89PNG\r\n\x1a\n" + struct.pack(">I", len(ihdr)) + b"IHDR" + ihdr + b"\x12\x34\x56\x78" + b"\x00\x00\x00\x00IEND\xaeB`\x82"


def _jpeg_segment(marker: int, payload: bytes) -> bytes:
    return bytes([0xFF, marker]) + struct.pack(">H", len(payload) + 2) + payload


def _jpeg(sof: int, width: int, height: int, before: tuple = ()) -> bytes:
    body = b"\xff\xd8" + _jpeg_segment(0xE0, b"JFIF\x00\x01\x01\x00\x00\x01\x00\x01\x00\x00")
    for m in before:
        # a non-frame segment whose payload, if misread as a frame header, would give 0x0111 x 0x0222
        body += _jpeg_segment(m, b"\x08" + struct.pack(">HH", 0x0111, 0x0222) + b"\x03\x01\x22\x00\x02\x11\x01\x03\x11\x01")
    body += _jpeg_segment(sof, b"\x08" + struct.pack(">HH", height, width) + b"\x03\x01\x22\x00\x02\x11\x01\x03\x11\x01")
    return body + _jpeg_segment(0xDA, b"\x00" * 10) + b"\x00" * 16 + b"\xff\xd9"


_STRUCT = {"unpack": lambda a, k: struct.unpack(*a), "unpack_from": lambda a, k: struct.unpack_from(*a, **k),
           "calcsize": lambda a, k: struct.calcsize(*a), "from_bytes": lambda a, k: int.from_bytes(*a, **k)}


def r16_2_3(ctx: Ctx) -> None:
    pm = ctx.pm
    # ---- suffix / MIME -> format: decision table of _determine_image_format
    df = pm.func("_determine_image_format")
    ps = _params(df)
    if len(ps) != 1:
        ctx.gap("R16.2", "_determine_image_format no longer takes one argument")
    else:
        def dom(path: str):
            if re.search(r"\.suffix(es\[-1\])?(\.lower\(\)|\.casefold\(\))$", path):
                return list(WANT_SUFFIX) + [".gif"]
            if re.search(r"\.suffix(es\[-1\])?$", path):
                return list(WANT_SUFFIX) + [".PNG", ".gif"]       # compared without case folding
            if "guess_type" in path and path.endswith("[0]"):
                return list(WANT_MIME) + ["image/gif", None]
            return None
        dt = _flow(pm, sym_domain=dom, max_atoms=12)
        rows = _table(ctx, "R16.2", dt, df, {ps[0]: Sym(ps[0])}, "_determine_image_format")
        if rows is not None:
            bad = {}
            n = 0
            for v, r in rows:
                sfx = next((x for k, x in v.items() if ".suffix" in k and isinstance(x, str)), None)
                mime = next((x for k, x in v.items() if "guess_type" in k), "<unconsulted>")
                others = [k for k in v if ".suffix" not in k and "guess_type" not in k]
                if sfx is None or others:
                    ctx.gap("R16.2", f"_determine_image_format decides by {sorted(v)[:3]}, not by the path's suffix / guessed MIME type")
                    break
                n += 1
                got = r.ret if r.raised is None else "<raises>"
                want = WANT_SUFFIX.get(sfx.lower())
                if want is None:
                    want = WANT_MIME.get(mime, "<raises>") if mime != "<unconsulted>" else None
                if want is None or (isinstance(got, Sym)):
                    ctx.gap("R16.2", f"_determine_image_format: result `{got}` for suffix {sfx!r} is not decided by the model")
                    break
                if got != want:
                    bad.setdefault(f"suffix table {sfx} -> {got}" if sfx.lower() in WANT_SUFFIX else f"mime table {mime} -> {got}",
                                   f"_determine_image_format gives {got!r} for suffix {sfx!r}" + (f", MIME {mime!r}" if mime != "<unconsulted>" else "") + f"; documented {want!r}"
                                   + (" (suffix comparison must be case-insensitive)" if sfx != sfx.lower() else ""))
            ctx.instance("R16.2", df.where(), f"_determine_image_format: decision table over suffix x guessed MIME type, {n} rows, equals {WANT_SUFFIX} / {WANT_MIME}; {len(bad)} disagreement(s)")
            for k, msg in sorted(bad.items()):
                ctx.violation("R16.2", df.short, k, df.where(), msg)
    # ---- the picture group: blip per format, \picw/\pich from the reader (or the 96 dpi fallback), goal sizes through the shared conversion, payload
    es = pm.func("RTFFigureService._encode_single_figure")
    ps = _params(es)
    if len(ps) != 5:
        ctx.gap("R16.3", "_encode_single_figure no longer takes (data, format, width, height, alignment)")
    else:
        from .c06 import _tokens, _conv_of, shared_conversions
        conv = shared_conversions(pm)
        data, fmt, w, h, al = ps
        dt = _flow(pm, atoms={fmt: ["png", "jpeg", "emf"]}, opaque={"_get_image_dimensions", "_binary_to_hex"}, max_atoms=16, root_cls="RTFFigureService")
        rows = _table(ctx, "R16.3", dt, es, {p: Sym(p) for p in ps}, "_encode_single_figure")
        if rows is not None:
            bad2, bad3, bad4, bad1 = {}, {}, {}, {}
            n = 0
            dims = r"(?:\w+\.)*_get_image_dimensions\(%s, (?:%s|png|jpeg|emf)\)" % (re.escape(data), re.escape(fmt))
            for v, r in rows:
                s = r.ret
                if r.raised is not None:
                    continue
                if not isinstance(s, str):
                    ctx.gap("R16.3", f"_encode_single_figure does not evaluate to a string ({str(s)[:60]})")
                    break
                n += 1
                toks = _tokens(s)
                f_ = v.get(fmt)
                blips = [w_ for w_, _x in toks if w_.endswith("blip")]
                if f_ is None:
                    bad2.setdefault("blip ignores the format", f"the picture type {blips} is written without consulting the figure's format")
                elif blips != [WANT_BLIP[f_]]:
                    bad2.setdefault(f"blip for {f_}: {blips}", f"format {f_!r} is tagged {blips}, expected {WANT_BLIP[f_]!r}")
                for word, idx, p in (("\\picw", 0, w), ("\\pich", 1, h)):
                    vals = [x for w_, x in toks if w_ == word]
                    okv = len(vals) == 1 and (re.fullmatch(r"‹%s\[%d\]›" % (dims, idx), vals[0]) or re.fullmatch(r"‹int\(%s \* 96\)›" % re.escape(p), vals[0]))
                    if not okv:
                        if len(vals) == 1 and (("_get_image_dimensions" in vals[0]) or re.search(r"\b(%s|%s)\b" % (re.escape(w), re.escape(h)), vals[0])):
                            bad3.setdefault(f"{word} source", f"{word} is written from `{vals[0].strip('‹›')}`, expected element {idx} of the image's own dimensions (or int({p} * 96))")
                        else:
                            ctx.gap("R16.3", f"the source of {word} (`{vals}`) could not be re-identified")
                for word, p in (("\\picwgoal", w), ("\\pichgoal", h)):
                    vals = [x for w_, x in toks if w_ == word]
                    if len(vals) != 1:
                        ctx.gap("R16.4", f"{word} is written {len(vals)} times in the picture group")
                        continue
                    src, shared = _conv_of(vals[0], conv)
                    if src != p or not shared:
                        bad4.setdefault(f"{word} = {vals[0].strip('‹›')}", f"display size {word} is `{vals[0].strip('‹›')}`, not the shared inch->twip conversion of the configured {p}")
                pay = re.findall(r"‹(?:\w+\.)*_binary_to_hex\(([^‹›]*)\)›", s)
                if pay != [data]:
                    if len(pay) == 1 or len(pay) > 1:
                        bad1.setdefault("payload argument", f"the hex payload is computed from {pay}, expected exactly once from `{data}` as received")
                    else:
                        ctx.gap("R16.1", "the hex payload could not be re-identified in the picture group")
                elif not re.search(r"\{\\pict.*‹[^‹›]*_binary_to_hex[^‹›]*›\}", s, re.S):
                    bad1.setdefault("payload position", "the hex payload is not inside the {\\pict ...} group")
            ctx.instance("R16.2", es.where(), f"_encode_single_figure evaluated on {n} path(s): blip per format equals {WANT_BLIP}; {len(bad2)} disagreement(s)")
            ctx.instance("R16.3", es.where(), f"\\picw/\\pich <- the image's own (width, height) or the 96-dpi fallback: {len(bad3)} disagreement(s)")
            ctx.instance("R16.4", es.where(), f"\\picwgoal/\\pichgoal <- shared conversion ({sorted(conv)}) of the configured width/height: {len(bad4)} disagreement(s)")
            ctx.instance("R16.1", es.where(), f"payload = _binary_to_hex({data}) once, inside the pict group: {len(bad1)} disagreement(s)")
            for rule, bd in (("R16.2", bad2), ("R16.3", bad3), ("R16.4", bad4), ("R16.1", bad1)):
                for k, msg in sorted(bd.items()):
                    ctx.violation(rule, es.short, k, es.where(), f"_encode_single_figure: {msg}")
    # ---- dispatch of the dimension readers
    gi = pm.func("RTFFigureService._get_image_dimensions")
    ps = _params(gi)
    if len(ps) != 2:
        ctx.gap("R16.3", "_get_image_dimensions no longer takes (data, format)")
    else:
        dt = _flow(pm, atoms={ps[1]: ["png", "jpeg", "emf"]}, opaque={"_get_png_dimensions", "_get_jpeg_dimensions"}, max_atoms=8, root_cls="RTFFigureService")
        rows = _table(ctx, "R16.3", dt, gi, {ps[0]: Sym(ps[0]), ps[1]: Sym(ps[1])}, "_get_image_dimensions")
        if rows is not None:
            bad = {}
            for v, r in rows:
                f_ = v.get(ps[1])
                got = str(r.ret.path if isinstance(r.ret, Sym) else r.ret)
                want = {"png": "_get_png_dimensions", "jpeg": "_get_jpeg_dimensions"}.get(f_)
                if f_ is None:
                    bad.setdefault("dispatch", "pixel dimensions are read without consulting the figure's format")
                elif want and not re.fullmatch(r"(\w+\.)*%s\(%s\)" % (want, re.escape(ps[0])), got):
                    bad.setdefault("dispatch", f"format {f_!r}: dimensions come from `{got[:60]}`, expected {want}({ps[0]})")
                elif not want and "_dimensions(" in got:
                    bad.setdefault("dispatch", f"format {f_!r}: dimensions come from `{got[:60]}`")
            ctx.instance("R16.3", gi.where(), f"dimension dispatch png/jpeg by the figure's own format over {len(rows)} rows: {len(bad)} disagreement(s)")
            for k, msg in sorted(bad.items()):
                ctx.violation("R16.3", gi.short, k, gi.where(), "pixel dimensions are not read by the reader of the figure's own format: " + msg)
    # ---- the readers on synthetic images
    png = pm.func("RTFFigureService._get_png_dimensions")
    ps = _params(png)
    cases = [("PNG 513x258", _png(0x01020304, 0x0A0B0C0D), (0x01020304, 0x0A0B0C0D)), ("PNG 640x480", _png(640, 480), (640, 480)),
             ("not a PNG", b"\x00" * 8 + _png(640, 480)[8:], (None, None)), ("truncated PNG", _png(640, 480)[:20], (None, None))]
    _reader(ctx, png, ps, cases, "IHDR offsets", "PNG width/height are not read big-endian from IHDR bytes 16-20 / 20-24 after the 8-byte signature")
    jp = pm.func("RTFFigureService._get_jpeg_dimensions")
    ps = _params(jp)
    cases = []
    for m in sorted(set(range(0xC0, 0xD0)) - {0xC4, 0xC8, 0xCC}):
        cases.append((f"JPEG SOF{m - 0xC0} 0x{m:02X}", _jpeg(m, 0x0321, 0x0234), (0x0321, 0x0234)))
    for m in (0xC4, 0xC8, 0xCC, 0xDB, 0xFE):
        cases.append((f"JPEG with a 0x{m:02X} segment before SOF0", _jpeg(0xC0, 0x0321, 0x0234, before=(m,)), (0x0321, 0x0234)))
    cases.append(("not a JPEG", b"\x00\x00" + _jpeg(0xC0, 10, 20)[2:], (None, None)))
    _reader(ctx, jp, ps, cases, "SOF parsing", "JPEG height/width are not read from offsets +5/+7 of an SOF0-15 marker (excluding DHT/JPG/DAC) with length-based segment skipping")


def _reader(ctx: Ctx, fi, ps, cases, key: str, msg: str) -> None:
    pm = ctx.pm
    if len(ps) != 1:
        ctx.gap("R16.3", f"{fi.short} no longer takes one argument")
        return
    bad = []
    for name, data, want in cases:
        dt = _flow(pm, call_model=_STRUCT, max_atoms=6, root_cls="RTFFigureService")
        rows = _table(ctx, "R16.3", dt, fi, {ps[0]: data}, fi.short)
        if rows is None:
            return
        if len(rows) != 1:
            ctx.gap("R16.3", f"{fi.short} is not decided by the image bytes alone (atoms {sorted(dt.discovered)[:3]})")
            return
        v, r = rows[0]
        got = r.ret
        if r.raised is not None:
            got = (None, None)            # the caller (_get_image_dimensions) maps exceptions to (None, None)
        if not (isinstance(got, (tuple, list)) and len(got) == 2 and all(x is None or isinstance(x, int) for x in got)):
            ctx.gap("R16.3", f"{fi.short} does not evaluate to a pair of integers on {name} ({str(got)[:60]})")
            return
        if tuple(got) != tuple(want):
            bad.append(f"{name}: (width, height) = {tuple(got)}, the image says {tuple(want)}")
    ctx.instance("R16.3", fi.where(), f"{fi.short} evaluated on {len(cases)} synthetic images: {len(bad)} wrong result(s)")
    if bad:
        ctx.violation("R16.3", fi.short, key, fi.where(), f"{msg}; {bad[0]}" + (f" (+{len(bad) - 1} more)" if len(bad) > 1 else ""))


# ---------------------------------------------------------------------------------------------------- R16.5

def r16_5(ctx: Ctx) -> None:
    pm = ctx.pm
    gd = pm.func("RTFFigureService._get_dimension")
    ps = _params(gd)
    if len(ps) != 2:
        ctx.gap("R16.5", "_get_dimension no longer takes (dimension, index)")
    else:
        bad = []
        n = 0
        models = [([3.5], "list of 1"), ([1.5, 2.5], "list of 2"), ([1.5, 2.5, 4.0], "list of 3"), ((1.5, 2.5), "tuple of 2"), (6.25, "scalar"), (7, "integer scalar")]
        for dim, name in models:
            for idx in range(0, 5):
                dt = _flow(pm, max_atoms=6, root_cls="RTFFigureService")
                rows = _table(ctx, "R16.5", dt, gd, {ps[0]: dim, ps[1]: idx}, "_get_dimension")
                if rows is None:
                    return
                if len(rows) != 1:
                    ctx.gap("R16.5", f"_get_dimension is not decided by (dimension, index) alone (atoms {sorted(dt.discovered)[:3]})")
                    return
                r = rows[0][1]
                want = dim if not isinstance(dim, (list, tuple)) else (dim[idx] if idx < len(dim) else dim[-1])
                got = r.ret if r.raised is None else f"<raises {r.raised}>"
                n += 1
                if isinstance(got, Sym):
                    ctx.gap("R16.5", f"_get_dimension does not evaluate on {name}, index {idx} ({got})")
                    return
                if got != want:
                    bad.append(f"{name} {dim}, figure {idx}: {got}, expected {want}")
        ctx.instance("R16.5", gd.where(), f"_get_dimension evaluated on {n} (sizes, index) models: d[i] if i < len(d) else d[-1], scalars unchanged: {len(bad)} wrong result(s)")
        if bad:
            ctx.violation("R16.5", gd.short, "reuse rule " + bad[0][:80], gd.where(), "per-figure sizes are not `d[i] if i < len(d) else d[-1]` (positional, last value reused): " + "; ".join(bad[:3]))
    # ---- the two per-figure loops on models of 1..3 figures
    from .c06 import figure_path_table, emitted
    t = figure_path_table(ctx)
    fi = t["fi"]
    if t["error"]:
        ctx.gap("R16.5", t["error"])
    else:
        seen = set()
        rows = []
        for n, v, r in t["rows"]:
            calls = [e for e in r.effects if e[0] == "call" and e[1] == "_encode_single_figure"]
            sig = (n, tuple(str(e[3]) for e in calls))
            if r.raised is None and sig not in seen:
                seen.add(sig)
                rows.append((n, calls, emitted(r.ret)))
        _figure_loop(ctx, fi, rows, r"(?:\w+\.)*rtf_figure")
    ef = pm.func("RTFFigureService.encode_figure")
    ps = _params(ef)
    if len(ps) != 1:
        ctx.gap("R16.5", "encode_figure no longer takes one argument")
    else:
        rows = []
        for n in (1, 2, 3):
            figs, fmts = [Sym(f"fig{k}") for k in range(n)], [Sym(f"fmt{k}") for k in range(n)]
            dt = _flow(pm, effect_calls={"_encode_single_figure"}, opaque={"_get_dimension"}, max_atoms=10, root_cls="RTFFigureService",
                       call_model={"rtf_read_figure": lambda a, k, figs=figs, fmts=fmts: (list(figs), list(fmts))})
            tb = _table(ctx, "R16.5", dt, ef, {ps[0]: Sym(ps[0], "RTFFigure")}, "encode_figure")
            if tb is None:
                rows = None
                break
            for v, r in tb:
                calls = [e for e in r.effects if e[0] == "call" and e[1] == "_encode_single_figure"]
                if r.raised is None and calls:
                    rows.append((n, calls, emitted(r.ret if isinstance(r.ret, (list, tuple)) else [r.ret])))
        if rows is not None:
            _figure_loop(ctx, ef, rows, re.escape(ps[0]))
    ctx.floor("R16.5", 3)


def _figure_loop(ctx: Ctx, fi, rows, fig_obj: str) -> None:
    """rows: (number of figures, calls of _encode_single_figure in execution order, emitted sequence)"""
    short = fi.short
    if not rows:
        ctx.gap("R16.5", f"{short}: no evaluated path encodes a figure")
        return
    bad = {}
    for n, calls, seq in rows:
        if len(calls) != n:
            bad.setdefault("figure count", f"{len(calls)} figure(s) encoded for {n} input figure(s)")
            continue
        for k, e in enumerate(calls):
            a = [str(x) for x in e[3]] + [""] * 5
            kw = {k_: str(v_) for k_, v_ in e[4].items()}
            d_, f_, w_, h_ = kw.get("figure_data", a[0]), kw.get("figure_format", a[1]), kw.get("width", a[2]), kw.get("height", a[3])
            if d_ != f"fig{k}" or f_ != f"fmt{k}":
                bad.setdefault(f"figure arguments {[d_, f_]}", f"figure {k} of {n} is encoded from data `{d_}` / format `{f_}`, expected its own (fig{k}, fmt{k})")
            for val, fld, other in ((w_, "fig_width", "fig_height"), (h_, "fig_height", "fig_width")):
                if re.fullmatch(r"(?:\w+\.)*_get_dimension\(%s\.%s, %d\)" % (fig_obj, fld, k), val):
                    continue
                if re.fullmatch(r"(?:\w+\.)*_get_dimension\(%s\.%s, %d\)" % (fig_obj, other, k), val):
                    bad.setdefault("figure arguments width/height swapped", f"figure {k}: {fld[4:]} is taken from {other}")
                elif "_get_dimension(" in val:
                    bad.setdefault("dimension lookup " + val[:60], f"figure {k} of {n}: {fld[4:]} is `{val}`, expected _get_dimension({fld}, {k})")
                elif fld in val or other in val or "BroadcastValue" in val:
                    bad.setdefault("dimension lookup", f"figure {k} of {n}: {fld[4:]} is `{val[:80]}`, not taken by _get_dimension({fld}, {k}) (positional, last value reused)")
                else:
                    ctx.gap("R16.5", f"{short}: the {fld[4:]} passed for figure {k} (`{val[:60]}`) could not be traced to {fld}")
        if seq is not None:
            pieces = [nm for nm, _l in seq if nm == "_encode_single_figure" or (nm.startswith("lit:") and nm[4:].strip() == "\\page")]
            pieces = ["\\page" if p.startswith("lit:") else p for p in pieces]
            want = [x for k in range(n) for x in (["_encode_single_figure"] + (["\\page"] if k < n - 1 else []))]
            if pieces != want:
                bad.setdefault("page guard", f"{n} figure(s): figures and page breaks are emitted as {pieces}, expected {want}")
    ctx.instance("R16.5", fi.where(), f"{short}: on models of 1-3 figures, figure k is encoded from (data k, format k, _get_dimension(fig_width, k), _get_dimension(fig_height, k)) "
                 f"and followed by \\page unless last: {len(bad)} kind(s) of disagreement")
    for k, msg in sorted(bad.items()):
        ctx.violation("R16.5", short, k, fi.where(), f"{short}: {msg}")


def check(ctx: Ctx) -> None:
    ctx.explain(
        "R16.1 dataflow identity: open(path,'rb').read() unmemoised; rtf_read_figure evaluated on lists of 1 and 3 paths (data k / format k "
        "from file k, in order); the picture group contains _binary_to_hex(data) once; _binary_to_hex evaluated on hex strings of 10 lengths "
        "(lines concatenate to bytes.hex(), even lengths, whitespace separators). R16.2 decision table of the format detection over suffix x "
        "MIME type and blip word per format. R16.3 the PNG and JPEG readers evaluated on synthetic images (every SOF marker, non-frame "
        "segments before the frame header, wrong signatures); control words take their documented sources. R16.4 goal sizes use the shared "
        "inch->twip conversion and nobody else multiplies by 1440. R16.5 _get_dimension on concrete (sizes, index) models; the two per-figure "
        "loops on models of 1-3 figures: own data/format, index-wise dimensions, \\page iff not last. R16.6 placement on figure pages: see C06.")
    ctx.assume("struct.unpack and bytes.hex behave as documented")
    ctx.undecided("pixel dimensions of arbitrary (possibly malformed) image files")
    r16_1(ctx)
    r16_2_3(ctx)
    units_rule(ctx, "R16.4")
    r16_5(ctx)
    from .c06 import placement_rule
    placement_rule(ctx, "R16.6", figure_only=True)
