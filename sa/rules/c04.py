"""C04 - page breaks occur only when required, and always when required.

R04.1 decision table of the loop body of PageBreakCalculator._assign_pages == spec
(break <=> current_rows>0 and (subline start or (new_page and group start) or overflow)), post-state
(page assigned unconditionally, rows reset/accumulated), overflow guard normal form, available rows;
R04.2 forced-break arguments per strategy; R04.3 no look-ahead in the pagination loops;
R04.4 group-start flags compare consecutive rows column by column; R04.5 pages materialised in
ascending page number from [min,max] row-index ranges, empty pages skipped.
"""
from __future__ import annotations

import ast
import itertools

from ..dtab import DT, Sym, Unsupported, enumerate_block
from ..linform import compare_form, linform, single_assign_env
from ..pm import AnalysisError, dotted, unparse, walk_no_nested
from ..report import Ctx

STRATS = ("DefaultPaginationStrategy.paginate", "PageByStrategy.paginate", "SublineStrategy.paginate")


def r04_1(ctx: Ctx, mode: str = "full") -> None:
    """mode 'full' (C04): break <=> spec.  mode 'budget' (C03): a break must happen when the row does not fit
    (over-filling direction only).  mode 'assign' (C02): every row gets exactly one page, counter monotone."""
    pm = ctx.pm
    fi = pm.func("PageBreakCalculator._assign_pages")
    loops = [n for n in walk_no_nested(fi.node) if isinstance(n, ast.For)]
    main = [lp for lp in loops if any(isinstance(a, ast.AugAssign) and unparse(a.target) == "current_page" for a in ast.walk(lp))]
    if len(main) != 1:
        ctx.violation("R04.1", fi.short, "greedy loop missing", fi.where(),
                      "_assign_pages no longer assigns pages by one greedy pass over the rows (a row that does not fit must move whole to the next page)")
        return
    lp = main[0]
    if not (isinstance(lp.iter, ast.Call) and dotted(lp.iter.func) == "enumerate" and isinstance(lp.target, ast.Tuple)):
        ctx.violation("R04.1", fi.short, "loop header " + unparse(lp.iter), fi.where(lp), "the page-assignment loop does not enumerate the rows in order")
        return
    iv, rv = lp.target.elts[0].id, lp.target.elts[1].id
    dt = DT(pm, classes={"self": "PageBreakCalculator"})

    def env0():
        return {iv: Sym(iv), rv: Sym(rv), "current_page": Sym("current_page"), "current_rows": Sym("current_rows"),
                "available_rows": Sym("available_rows"), "new_page": Sym("new_page"), "self": Sym("self", "PageBreakCalculator")}
    try:
        leaves = enumerate_block(dt, lp.body, env0, fi)
    except Unsupported as e:
        raise AnalysisError(f"_assign_pages loop body outside the decision-table subset: {e}")
    atoms = sorted(dt.discovered)
    # classify atoms
    role = {}
    for a in atoms:
        t = a.replace(" ", "")
        if "is_subline_start" in t:
            role[a] = "S"
        elif "is_group_start" in t:
            role[a] = "G"
        elif t in ("bool(new_page)",):
            role[a] = "N"
        elif t in (f"{iv}>0",):
            role[a] = "I"
        elif t in ("current_rows>0",):
            role[a] = "C"
        elif "available_rows" in t and "current_rows" in t:
            role[a] = "O"
        else:
            role[a] = "?" + a
    ctx.extra["atoms"] = role
    unknown = [a for a, r in role.items() if r.startswith("?")]
    missing = [r for r in "SGNICO" if r not in role.values()]
    ctx.instance("R04.1", fi.where(lp), f"loop body decision table: {len(leaves)} leaves over atoms {role}")
    if mode == "budget":
        missing = [m for m in missing if m in "CO"]
    elif mode == "assign":
        missing = []
    if missing:
        ctx.violation("R04.1", fi.short, "atoms missing " + ",".join(missing), fi.where(lp),
                      f"the break decision no longer consults {missing} (S=subline start, G=group start, N=new_page, I=i>0, C=current_rows>0, O=overflow)")
    rows = 0
    for S, G, N, I, C, O in itertools.product([False, True], repeat=6):
        if C and not I:
            continue      # current_rows > 0 implies a previous row exists (every row adds >= 1, see R04.6)
        # find the leaf consistent with this valuation
        want = C and (S or (N and G) or O)
        matches = []
        for v, env, eff, outcome in leaves:
            ok = True
            for a, val in v.items():
                r = role.get(a, "?")
                cur = {"S": S, "G": G, "N": N, "I": I, "C": C, "O": O}.get(r)
                if cur is not None and cur != val:
                    ok = False
            if ok:
                matches.append((v, env, eff, outcome))
        for v, env, eff, outcome in matches:
            rows += 1
            cp = env.get("current_page")
            broke = isinstance(cp, Sym) and cp.path.replace(" ", "") == "current_page+1"
            same = isinstance(cp, Sym) and cp.path == "current_page"
            if not (broke or same):
                ctx.violation("R04.1", fi.short, "page counter " + str(cp), fi.where(lp), f"page counter becomes {cp}; it may only stay or increase by one per row")
                continue
            extra = {a: val for a, val in v.items() if role.get(a, "?").startswith("?")}
            relevant = broke != want
            if mode == "budget":
                relevant = (C and O) and not broke          # only a missing overflow break over-fills a page
            elif mode == "assign":
                relevant = False
            if relevant:
                ctx.violation("R04.1", fi.short, f"break={broke} at S={S},G={G},N={N},I={I},C={C},O={O}" + (f",{extra}" if extra else ""), fi.where(lp),
                              f"_assign_pages {'breaks' if broke else 'does not break'} at subline_start={S}, group_start={G}, new_page={N}, i>0={I}, "
                              f"current_rows>0={C}, overflow={O}{' and ' + str(extra) if extra else ''}; required: break <=> current_rows>0 and (subline start or (new_page and group start) or overflow)")
            # post-state
            st = [e for e in eff if e[0] == "store" and e[1] == rv and e[2].strip("[]") == "page"]
            if len(st) != 1 or st[0][3] != (cp.path):
                ctx.violation("R04.1", fi.short, "page store " + str(st), fi.where(lp), f"the row's page is not set to the (possibly incremented) current page on the path {v}")
            cr = env.get("current_rows")
            crt = cr.path.replace(" ", "") if isinstance(cr, Sym) else str(cr)
            want_cr = (f"0+{rv}[total_rows]", f"{rv}[total_rows]") if broke else (f"current_rows+{rv}[total_rows]",)
            if crt not in want_cr:
                ctx.violation("R04.1", fi.short, f"current_rows -> {crt} (break={broke})", fi.where(lp),
                              f"after the row, current_rows is `{crt}`; expected {'row height (reset on break)' if broke else 'previous + row height'}")
            if outcome != "fall":
                ctx.violation("R04.1", fi.short, f"loop exit {outcome}", fi.where(lp), f"the page-assignment loop leaves early ({outcome}); later rows get no page")
    ctx.extra["table_rows"] = rows
    ctx.extra["exhaustive"] = True
    # overflow normal form and available rows
    env = single_assign_env(fi.node)
    comp = [c for c in ast.walk(lp) if isinstance(c, ast.Compare) and "available_rows" in unparse(c)]
    for c in comp:
        cf = compare_form(c, {"row_height": ast.parse(f"{rv}['total_rows']", mode="eval").body})
        want_cf = (">", {"current_rows": 1, f"{rv}['total_rows']": 1, "available_rows": -1})
        ctx.instance("R04.1", fi.where(c), f"overflow guard `{unparse(c)}` normal form {cf}")
        bad_guard = cf != want_cf
        if mode == "budget" and cf is not None and cf[1] == want_cf[1] and cf[0] in (">", ">="):
            bad_guard = False          # breaking one row early never over-fills
        if mode == "assign":
            bad_guard = False
        if bad_guard:
            ctx.violation("R04.1", fi.short, "overflow guard " + unparse(c), fi.where(c),
                          f"overflow test is `{unparse(c)}`; required: current_rows + row_height - available_rows > 0 (strict)")
    av = [a for a in walk_no_nested(fi.node) if isinstance(a, ast.Assign) and unparse(a.targets[0]) == "available_rows"]
    ok = len(av) == 1 and isinstance(av[0].value, ast.Call) and dotted(av[0].value.func) == "max" and len(av[0].value.args) == 2 and \
        unparse(av[0].value.args[0]) == "1" and linform(av[0].value.args[1]) == {"self.pagination.nrow": 1, "additional_rows_per_page": -1}
    ctx.instance("R04.1", fi.where(av[0]) if av else fi.where(), f"available_rows = {unparse(av[0].value) if av else '?'}")
    if not ok:
        ctx.violation("R04.1", fi.short, "available_rows " + (unparse(av[0].value) if av else "?"), fi.where(), "available rows are not max(1, nrow - additional_rows_per_page)")
    # the greedy loop is the only place where pages are assigned: no shortcut return besides the empty frame
    rets = [r for r in walk_no_nested(fi.node) if isinstance(r, ast.Return)]
    for r in rets:
        guards = [unparse(a.test) for a in _anc(r, fi.node) if isinstance(a, ast.If)]
        val = unparse(r.value) if r.value is not None else "None"
        after_loop = r.lineno > lp.end_lineno
        ok_r = (val == "meta_df" and guards == ["meta_df.height == 0"]) or (after_loop and not guards and val == "pl.DataFrame(rows)")
        ctx.instance("R04.1", fi.where(r), f"_assign_pages return `{val}` under {guards or 'no guard'} ({'after' if after_loop else 'before'} the greedy loop)")
        if not ok_r:
            ctx.violation("R04.1", fi.short, f"shortcut return {val} if {guards}", fi.where(r),
                          f"_assign_pages returns `{val}` under {guards} without running the greedy pass: page numbers assigned by a shortcut need not respect the row budget "
                          "or prefix stability")
    inits = {unparse(a.targets[0]): unparse(a.value) for a in fi.node.body if isinstance(a, ast.Assign)}
    if inits.get("current_page") != "1" or inits.get("current_rows") != "0":
        ctx.violation("R04.1", fi.short, f"initial state {inits.get('current_page')},{inits.get('current_rows')}", fi.where(), "page numbering must start at page 1 with 0 rows")
    src_rows = inits.get("rows")
    if src_rows != "meta_df.to_dicts()" or unparse(lp.iter) != "enumerate(rows)":
        ctx.violation("R04.1", fi.short, "row source " + str(src_rows), fi.where(lp), "rows are not visited in metadata order")


def r04_2(ctx: Ctx, only: set | None = None) -> None:
    pm = ctx.pm
    want = {
        "DefaultPaginationStrategy.paginate": {"page_by": None, "subline_by": None, "new_page": None},
        "PageByStrategy.paginate": {"page_by": "context.rtf_body.page_by", "subline_by": None, "new_page": "context.rtf_body.new_page"},
        "SublineStrategy.paginate": {"page_by": "context.rtf_body.page_by", "subline_by": "context.rtf_body.subline_by", "new_page": "True"},
    }
    common = {"df": "context.df", "col_widths": "context.col_widths", "table_attrs": "context.table_attrs",
              "removed_column_indices": "context.removed_column_indices", "additional_rows_per_page": "context.additional_rows_per_page"}
    for short, w in want.items():
        fi = pm.func(short)
        env = single_assign_env(fi.node)
        calls = [c for c in walk_no_nested(fi.node) if isinstance(c, ast.Call) and dotted(c.func).endswith("calculate_row_metadata")]
        if len(calls) != 1:
            ctx.violation("R04.2", short, f"calculate_row_metadata x{len(calls)}", fi.where(), f"{short} does not compute the row metadata exactly once")
            continue
        kw = {}
        for k in calls[0].keywords:
            v = k.value
            while isinstance(v, ast.Name) and v.id in env:
                v = env[v.id]
            kw[k.arg] = unparse(v)
        ctx.instance("R04.2", fi.where(calls[0]), f"{short}: calculate_row_metadata({', '.join(f'{k}={v}' for k, v in sorted(kw.items()))})")
        for k, v in {**w, **common}.items():
            if only is not None and k not in only:
                continue
            if kw.get(k) != v:
                ctx.violation("R04.2", short, f"{k}={kw.get(k)}", fi.where(calls[0]), f"{short}: calculate_row_metadata is called with {k}={kw.get(k)}, expected {v}")
    c = pm.func("PageBreakCalculator.calculate_row_metadata")
    calls = [x for x in walk_no_nested(c.node) if isinstance(x, ast.Call) and dotted(x.func).endswith("_assign_pages")]
    args = [unparse(a) for a in calls[0].args] if calls else []
    ctx.instance("R04.2", c.where(calls[0]) if calls else c.where(), f"_assign_pages({', '.join(args)})")
    if args != ["meta_df", "additional_rows_per_page", "new_page"]:
        ctx.violation("R04.2", c.short, "_assign_pages args " + str(args), c.where(), "the forced-break flag and the reservation do not reach _assign_pages")
    t = unparse(c.node)
    for flag, src in (("is_group_start", "page_by_changes[row_idx] if page_by else False"), ("is_subline_start", "subline_by_changes[row_idx] if subline_by else False")):
        ok = f"'{flag}': {src}" in t
        ctx.instance("R04.2", c.where(), f"row flag {flag} <- {src}: {ok}")
        if not ok:
            ctx.violation("R04.2", c.short, f"{flag} source", c.where(), f"row flag {flag} is not `{src}`")
    ctx.floor("R04.2", 6)


def r04_3_4(ctx: Ctx, lookahead: bool = True, flags: bool = True) -> None:
    pm = ctx.pm
    c = pm.func("PageBreakCalculator.calculate_row_metadata")
    a = pm.func("PageBreakCalculator._assign_pages")
    n = 0
    for fi in ((c, a) if lookahead else ()):
        for lp in [x for x in walk_no_nested(fi.node) if isinstance(x, ast.For)]:
            ivs = [e.id for e in ast.walk(lp.target) if isinstance(e, ast.Name)]
            for sub in ast.walk(lp):
                if isinstance(sub, ast.Subscript) and not isinstance(sub.slice, ast.Slice):
                    lf = linform(sub.slice)
                    used = [v for v in ivs if v in lf]
                    if not used:
                        continue
                    n += 1
                    v0 = used[0]
                    ok = lf in ({v0: 1}, {v0: 1, "": -1})
                    if fi is c and v0 == "width_idx":
                        ok = True
                    if not ok and lf.get("", 0) > 0:
                        ctx.violation("R04.3", fi.short, "look-ahead " + unparse(sub), fi.where(sub),
                                      f"{fi.short}: `{unparse(sub)}` reads a later row while deciding the current one; appending rows would change earlier pages")
            for call in ast.walk(lp):
                if isinstance(call, ast.Call) and isinstance(call.func, ast.Attribute) and call.func.attr == "row" and call.args:
                    lf = linform(call.args[0])
                    n += 1
                    if any(lf.get("", 0) > 0 and v in lf for v in ivs):
                        ctx.violation("R04.3", fi.short, "look-ahead " + unparse(call), fi.where(call), f"{fi.short}: `{unparse(call)}` reads a later row")
    if lookahead:
        ctx.instance("R04.3", c.where(), f"{n} row-indexed reads in the pagination loops use index i or i-1 only")
    # vectorised whole-column operations in _assign_pages would be look-ahead in disguise
    for call in (walk_no_nested(a.node) if lookahead else ()):
        if isinstance(call, ast.Call) and isinstance(call.func, ast.Attribute) and call.func.attr in ("cum_sum", "cumsum", "shift", "rolling_sum", "cumulative_eval"):
            ctx.violation("R04.3", a.short, "vectorised " + call.func.attr, a.where(call), f"_assign_pages uses {call.func.attr}: page numbers are no longer a greedy function of the preceding rows")
    # R04.4: change flags compare consecutive rows column by column
    if not flags:
        return
    for grp in ("page_by", "subline_by"):
        found = False
        for blk in [x for x in walk_no_nested(c.node) if isinstance(x, ast.If) and unparse(x.test) == grp]:
            for lp in [x for x in ast.walk(blk) if isinstance(x, ast.For) and unparse(x.iter).replace(" ", "") == "range(1,df.height)"]:
                inner = [x for x in ast.walk(lp) if isinstance(x, ast.For) and unparse(x.iter) == grp]
                cmps = [x for y in inner for x in ast.walk(y) if isinstance(x, ast.Compare) and len(x.ops) == 1 and isinstance(x.ops[0], ast.NotEq)]
                store = [x for x in ast.walk(lp) if isinstance(x, ast.Assign) and unparse(x.targets[0]) == f"{grp}_changes[i]"]
                rows_ok = "df.row(i - 1, named=True)" in unparse(lp) and "df.row(i, named=True)" in unparse(lp)
                if inner and cmps and store and rows_ok:
                    col = inner[0].target.id
                    l, r = unparse(cmps[0].left), unparse(cmps[0].comparators[0])
                    per_col = f"[{col}]" in l and f"[{col}]" in r and ("prev_row" in l + r) and ("curr_row" in l + r)
                    found = per_col
                    ctx.instance("R04.4", c.where(cmps[0]), f"{grp} change flag: `{unparse(cmps[0])}` per column over `{grp}`, stored to {grp}_changes[i]")
        if not found:
            # look for a substitute and say what is wrong with it
            hint = ""
            scope = [c.node] + [pm.funcs[k].node for k in pm.funcs if pm.funcs[k].cls == c.cls and k != c.short
                                and any(isinstance(y, ast.Call) and dotted(y.func).endswith(pm.funcs[k].name) for y in ast.walk(c.node))]
            for x in (z for sc in scope for z in ast.walk(sc)):
                is_join = isinstance(x, ast.Call) and isinstance(x.func, ast.Attribute) and x.func.attr == "join" and \
                    isinstance(x.func.value, ast.Constant) and x.func.value.value == ""
                is_concat = isinstance(x, ast.Call) and dotted(x.func).endswith("concat_str") and not any(k.arg == "separator" for k in x.keywords)
                if is_join or is_concat:
                    hint = f" (found `{unparse(x)[:60]}`: concatenated keys make ('1','12') and ('11','2') equal)"
                if isinstance(x, ast.Call) and isinstance(x.func, ast.Attribute) and x.func.attr == "shift":
                    hint = hint or f" (found `{unparse(x)[:60]}`: polars != with a shifted column is null next to a null)"
            ctx.violation("R04.4", c.short, f"{grp} change detection", c.where(),
                          f"{grp} group starts are no longer detected by comparing consecutive rows column by column{hint}")
    init = {unparse(x.targets[0]): unparse(x.value) for x in walk_no_nested(c.node) if isinstance(x, ast.Assign) and len(x.targets) == 1}
    for grp in ("page_by", "subline_by"):
        if init.get(f"{grp}_changes") != "[True] * df.height":
            ctx.violation("R04.4", c.short, f"{grp}_changes init", c.where(), f"{grp}_changes is not initialised to all-True (first row starts a group)")
    ctx.floor("R04.4", 2)


def r04_5(ctx: Ctx) -> None:
    pm = ctx.pm
    for short in STRATS:
        fi = pm.func(short)
        env = single_assign_env(fi.node)
        t = unparse(fi.node)
        up = unparse(env.get("unique_pages")) if "unique_pages" in env else "?"
        loop = [n for n in walk_no_nested(fi.node) if isinstance(n, ast.For) and unparse(n.iter) == "unique_pages"]
        ok_order = up == "metadata['page'].unique().sort()" and len(loop) == 1
        filt = "page_rows = metadata.filter(pl.col('page') == page_num)" in t
        guard = "if page_rows.height == 0:\n                continue" in t or "if page_rows.height == 0:" in t
        sr, er = unparse(env.get("start_row")) if "start_row" in env else "?", unparse(env.get("end_row")) if "end_row" in env else "?"
        ok_range = "page_rows['row_index'].min()" in sr and "page_rows['row_index'].max()" in er
        sl = [c for c in ast.walk(fi.node) if isinstance(c, ast.Call) and isinstance(c.func, ast.Attribute) and c.func.attr == "slice" and unparse(c.func.value) == "context.df"]
        ok_slice = len(sl) == 1 and len(sl[0].args) == 2 and linform(sl[0].args[0]) == {"start_row": 1} and linform(sl[0].args[1]) == {"end_row": 1, "start_row": -1, "": 1}
        app = [c for c in ast.walk(fi.node) if isinstance(c, ast.Call) and isinstance(c.func, ast.Attribute) and c.func.attr == "append" and unparse(c.func.value) == "pages"]
        ok_app = len(app) == 1 and loop and any(x is app[0] for x in ast.walk(loop[0])) and not any(isinstance(a, ast.If) for a in _anc(app[0], loop[0]))
        ctx.instance("R04.5", fi.where(), f"{short}: ascending unique pages {ok_order}; filter by page {filt}; empty guard {guard}; range [min,max] {ok_range}; "
                     f"slice(start, end-start+1) {ok_slice}; one append per page {bool(ok_app)}")
        if not ok_order:
            ctx.violation("R04.5", short, "page order " + up, fi.where(), f"{short}: pages are not materialised in ascending page number (unique().sort())")
        if not (filt and ok_range and ok_slice):
            ctx.violation("R04.5", short, "page slice", fi.where(), f"{short}: a page is not the contiguous slice [min row_index, max row_index] of the rows assigned to it (length max-min+1)")
        if not ok_app:
            ctx.violation("R04.5", short, "page append", fi.where(), f"{short}: not exactly one PageContext is appended per page number")
        if "return pages" not in t:
            ctx.violation("R04.5", short, "return", fi.where(), f"{short} does not return the page list")
    ctx.floor("R04.5", 3)


def _anc(n, stop):
    p = getattr(n, "_parent", None)
    while p is not None and p is not stop:
        yield p
        p = getattr(p, "_parent", None)


def r04_6(ctx: Ctx) -> None:
    """every row adds >= 1 to current_rows (justifies C => I) and the heading rows travel with the row"""
    pm = ctx.pm
    c = pm.func("PageBreakCalculator.calculate_row_metadata")
    env = {unparse(a.targets[0]): a.value for a in ast.walk(c.node) if isinstance(a, ast.Assign) and len(a.targets) == 1}
    tr = [a for a in ast.walk(c.node) if isinstance(a, ast.Assign) and unparse(a.targets[0]) == "total_rows"]
    ok = len(tr) == 1 and linform(tr[0].value) == {"max_lines_in_row": 1, "pageby_rows": 1, "subline_rows": 1}
    ctx.instance("R04.6", c.where(tr[0]) if tr else c.where(), f"total_rows = {unparse(tr[0].value) if tr else '?'}")
    if not ok:
        ctx.violation("R04.6", c.short, "total_rows " + (unparse(tr[0].value) if tr else "?"), c.where(), "a row's height is not data lines + page_by heading rows + subline heading rows")
    t = unparse(c.node)
    ok1 = "max_lines_in_row = 1" in t and "max_lines_in_row = max(max_lines_in_row, lines_needed)" in t and "lines_needed = max(1, int(text_width / effective_width) + 1)" in t
    ctx.instance("R04.6", c.where(), f"data lines start at 1 and only grow by max(): {ok1}")
    if not ok1:
        ctx.violation("R04.6", c.short, "data rows >= 1", c.where(), "a data row can be counted with less than one line")
    ok2 = "'total_rows': total_rows" in t and "'data_rows': max_lines_in_row" in t
    if not ok2:
        ctx.violation("R04.6", c.short, "metadata fields", c.where(), "row metadata no longer records total_rows/data_rows as computed")
    hr = pm.func("PageBreakCalculator._calculate_header_rows")
    rets = [unparse(r.value) for r in walk_no_nested(hr.node) if isinstance(r, ast.Return)]
    ctx.instance("R04.6", hr.where(), f"heading rows = {rets}")
    if rets != ["max(1, int(text_width / total_width) + 1)"]:
        ctx.violation("R04.6", hr.short, "heading rows " + str(rets), hr.where(), "a heading can be counted with less than one row")


def check(ctx: Ctx) -> None:
    ctx.explain(
        "R04.1 the loop body of _assign_pages is evaluated as a decision table over the atoms subline start, group start, "
        "new_page, i>0, current_rows>0, overflow (lazy discovery, 48 consistent rows): page counter increments exactly when "
        "current_rows>0 ∧ (S ∨ (N∧G) ∨ O); page stored unconditionally with the post-increment number; current_rows reset/"
        "accumulated; overflow guard and available rows compared as linear forms. R04.2 forced-break keyword arguments of the "
        "three strategies. R04.3 every row-indexed read in the pagination loops uses i or i-1 (prefix stability). R04.4 group "
        "change flags compare consecutive rows column by column. R04.5 pages materialised in ascending order from "
        "[min,max] row ranges with slice length max-min+1, empty pages skipped. R04.6 every row adds >= 1.")
    ctx.assume("row heights computed by calculate_row_metadata are the heights the property refers to (see C03 for the estimator)")
    ctx.undecided("where breaks fall for a concrete height vector (run-time arithmetic)")
    r04_1(ctx)
    r04_2(ctx)
    r04_3_4(ctx)
    r04_5(ctx)
    r04_6(ctx)
