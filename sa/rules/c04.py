"""C04 - page breaks occur only when required, and always when required.

All rules follow the recognise-by-role / verify-strictly / gap-if-unrecognised policy.

R04.1 the loop of PageBreakCalculator._assign_pages that stores each row's page is evaluated as a decision
table (symbolic interpretation of the loop body, so temporaries, guard nesting and evaluation order do not
matter).  Atoms are classified by meaning with polarity (subline start, group start, new_page, "a previous
row exists", "the page holds something", overflow as an integer linear form) and the table is compared
with  break <=> current_rows>0 and (subline start or (new_page and group start) or overflow)  on every
valuation that respects the loop invariant current_rows>0 <=> i>0 (current_rows is 0 at the first row and
every row adds >= 1, R04.6).  A deviation that shows for every value of the uninterpreted atoms is a
violation; one that depends on an uninterpreted atom is an analysis gap.  Post-state (page stored with the
post-increment number, fill counter reset/accumulated), available rows, initial state, row order and
shortcut returns are verified on the recognised constructs.
R04.2 forced-break arguments per strategy; R04.3 no look-ahead in the pagination loops;
R04.4 group-start flags compare consecutive rows column by column; R04.5 pages materialised in
ascending page number from [min,max] row-index ranges; R04.6 every row adds >= 1.
"""
from __future__ import annotations

import ast
import itertools
from types import SimpleNamespace

from ..astmatch import alternatives, assignments, guard_atoms, guards, leaves, match, resolve, strip_wrappers
from ..dtab import DT, Sym, Unsupported, enumerate_block
from ..linform import compare_form, linform
from ..pm import AnalysisError, dotted, unparse, walk_no_nested
from ..report import Ctx

STRATS = ("DefaultPaginationStrategy.paginate", "PageByStrategy.paginate", "SublineStrategy.paginate")


class Unrecognised(Exception):
    """a construct a rule reasons about could not be re-identified: reported with ctx.gap, never as a violation"""


# ------------------------------------------------------------------------------------------------ helpers

def _anc(n, stop):
    p = getattr(n, "_parent", None)
    while p is not None and p is not stop:
        yield p
        p = getattr(p, "_parent", None)


def _params(fn) -> list[str]:
    a = fn.args
    return [x.arg for x in list(a.posonlyargs) + list(a.args) + list(a.kwonlyargs)]


def _const(e, v) -> bool:
    return isinstance(e, ast.Constant) and type(e.value) is type(v) and e.value == v


def _name(n: str) -> ast.Name:
    return ast.Name(id=n, ctx=ast.Load())


def _peel(e: ast.AST) -> ast.AST:
    """drop value-preserving wrappers: cast(T, x), int(x), bool(x)"""
    while True:
        if isinstance(e, ast.Call) and isinstance(e.func, ast.Name) and e.func.id == "cast" and len(e.args) == 2:
            e = e.args[1]
        elif isinstance(e, ast.Call) and isinstance(e.func, ast.Name) and e.func.id in ("int", "bool") and len(e.args) == 1 and not e.keywords:
            e = e.args[0]
        else:
            return e


def _inside(node, container) -> bool:
    return any(p is container for p in _anc(node, None)) or node is container


def _enclosing_for(node, stop):
    for p in _anc(node, stop):
        if isinstance(p, ast.For):
            return p
    return None


def _target_names(t) -> list[str]:
    return [e.id for e in ast.walk(t) if isinstance(e, ast.Name)]


def _local_value(name: str, scope: ast.AST, fn: ast.AST):
    """the value a local name stands for at a use inside `scope` (a loop): its only assignment inside the
    scope if there is exactly one, else its only assignment in the function; None when ambiguous"""
    inner = [a.value for a in ast.walk(scope) if isinstance(a, ast.Assign) and len(a.targets) == 1
             and isinstance(a.targets[0], ast.Name) and a.targets[0].id == name]
    if len(inner) == 1:
        return inner[0]
    if inner:
        return None
    vals = assignments(fn).get(name, [])
    if len(vals) == 1 and not (isinstance(vals[0], ast.Constant) and isinstance(vals[0].value, str) and vals[0].value.startswith("<")):
        return vals[0]
    return None


def _assigns_name(stmt: ast.AST, name: str) -> bool:
    for n in ast.walk(stmt):
        if isinstance(n, ast.Name) and n.id == name and isinstance(n.ctx, (ast.Store, ast.Del)):
            return True
    return False


def reaching_def(name: str, at: ast.AST, fn: ast.AST):
    """the unconditional assignment `name = value` that reaches statement `at` in straight-line order (handles a name
    that is re-bound sequentially): -> (value, statement) or None when the reaching definition is conditional / absent"""
    child = at
    while child is not None and child is not fn:
        p = getattr(child, "_parent", None)
        if p is None:
            return None
        for fld in ("body", "orelse", "finalbody"):
            blk = getattr(p, fld, None)
            if isinstance(blk, list) and any(x is child for x in blk):
                idx = next(i for i, x in enumerate(blk) if x is child)
                for st in reversed(blk[:idx]):
                    if isinstance(st, ast.Assign) and len(st.targets) == 1 and isinstance(st.targets[0], ast.Name) and st.targets[0].id == name:
                        return st.value, st
                    if isinstance(st, ast.AnnAssign) and isinstance(st.target, ast.Name) and st.target.id == name and st.value is not None:
                        return st.value, st
                    if _assigns_name(st, name):
                        return None
                if isinstance(p, (ast.For, ast.While)) and _assigns_name(p, name):
                    return None         # may come from a previous iteration
        child = p
    return None


def _stmt_of(node: ast.AST, fn: ast.AST):
    n = node
    while n is not None and not isinstance(n, ast.stmt):
        n = getattr(n, "_parent", None)
    return n


def subst(e: ast.AST, binding: dict) -> ast.AST:
    """copy of `e` with loaded names replaced by the bound expressions"""
    import copy

    class S(ast.NodeTransformer):
        def visit_Name(self, n):
            if isinstance(n.ctx, ast.Load) and n.id in binding:
                return copy.deepcopy(binding[n.id])
            return n
    return S().visit(copy.deepcopy(e))


def lin_local(e: ast.AST, scope: ast.AST, fn: ast.AST) -> dict:
    """linear form of `e` with the scope's single-assignment arithmetic temporaries expanded (transitively)"""
    env: dict = {}
    todo = [e]
    while todo:
        x = todo.pop()
        for nme in {n.id for n in ast.walk(x) if isinstance(n, ast.Name)} - set(env):
            v = _local_value(nme, scope, fn)
            if v is None:
                continue
            v = _peel(v)
            if isinstance(v, (ast.BinOp, ast.Name, ast.Constant, ast.Subscript)) and not any(isinstance(y, ast.Name) and y.id == nme for y in ast.walk(v)):
                env[nme] = v
                todo.append(v)
    return dict(linform(e, env))


def _gt0(c: ast.Compare):
    """integer normal form of a comparison: ('>', lf) meaning lf > 0 over the integers ('>=' folded in),
    or ('==' | '!=', lf); None if not a single comparison"""
    cf = compare_form(c)
    if cf is None:
        return None
    op, lf = cf
    if op == ">=":
        lf = dict(lf)
        lf[""] = lf.get("", 0) + 1
        if lf[""] == 0:
            del lf[""]
        op = ">"
    return op, lf


def _empty_tests(frame: str) -> set[str]:
    """guard atoms (astmatch.guard_atoms rendering) that imply the frame has no rows"""
    return {f"{frame}.height == 0", f"0 == {frame}.height", f"len({frame}) == 0", f"{frame}.is_empty()", f"!{frame}.height",
            f"!len({frame})", f"{frame}.height < 1", f"{frame}.height <= 0", f"{frame}.shape[0] == 0", f"!{frame}.shape[0]"}


def _nonempty_tests(frame: str) -> set[str]:
    return {f"{frame}.height != 0", f"0 != {frame}.height", f"len({frame}) != 0", f"!{frame}.is_empty()", f"{frame}.height",
            f"len({frame})", f"{frame}.height >= 1", f"{frame}.height > 0", f"{frame}.shape[0] != 0", f"{frame}.shape[0] > 0"}


# ------------------------------------------------------------------------------------------------ R04.1

def _fresh(base: str, taken: set) -> str:
    n = base
    while n in taken:
        n += "_"
    return n


def _frame_column(e: ast.AST, frame: str):
    """`F['c']`, `F['c'].to_list()`, `list(F['c'])`, `F.get_column('c')[.to_list()]` for the frame parameter F -> 'c'"""
    e = strip_wrappers(e, names=("list", "tuple"))
    if isinstance(e, ast.Call) and isinstance(e.func, ast.Attribute) and e.func.attr in ("to_list", "to_numpy", "tolist") and not e.args:
        e = e.func.value
    if isinstance(e, ast.Subscript) and isinstance(e.value, ast.Name) and e.value.id == frame and isinstance(e.slice, ast.Constant) and isinstance(e.slice.value, str):
        return e.slice.value
    if isinstance(e, ast.Call) and isinstance(e.func, ast.Attribute) and e.func.attr in ("get_column", "to_series") and isinstance(e.func.value, ast.Name) \
            and e.func.value.id == frame and len(e.args) == 1 and isinstance(e.args[0], ast.Constant) and isinstance(e.args[0].value, str):
        return e.args[0].value
    return None


def _row_sequence(e: ast.AST, at: ast.AST, fn: ast.AST, frame: str, ROW: str, IDX: str, depth: int = 0) -> ast.AST:
    """`e` (used at statement `at`) is a sequence with one entry per row of the frame, in row order: -> expression of its generic
    entry in terms of the row `ROW[...]` and the row position IDX.  Recognised: a column of the frame; a comprehension (no filter)
    over such sequences / a zip of them; a local list of that kind whose entries at constant positions were overwritten by constants."""
    if depth > 6:
        raise Unrecognised("per-row sequence nested too deep")
    col = _frame_column(e, frame)
    if col is not None:
        return ast.Subscript(value=ast.Name(id=ROW, ctx=ast.Load()), slice=ast.Constant(value=col), ctx=ast.Load())
    if isinstance(e, ast.Name):
        rd = reaching_def(e.id, at, fn)
        if rd is None:
            raise Unrecognised(f"the definition of the per-row sequence `{e.id}` could not be re-identified")
        val, st = rd
        elem = _row_sequence(val, st, fn, frame, ROW, IDX, depth + 1)
        # statements between the definition and the use that touch the list
        blk = next((getattr(st._parent, f) for f in ("body", "orelse", "finalbody")
                    if isinstance(getattr(st._parent, f, None), list) and any(x is st for x in getattr(st._parent, f))), None)
        if blk is None:
            raise Unrecognised(f"the per-row sequence `{e.id}` is not defined in straight-line code")
        i0 = next(i for i, x in enumerate(blk) if x is st)
        for x in blk[i0 + 1:]:
            if x is at or any(y is at for y in ast.walk(x)):
                break
            touches = any(isinstance(y, ast.Name) and y.id == e.id for y in ast.walk(x))
            if not touches:
                continue
            if isinstance(x, ast.Assign) and len(x.targets) == 1 and isinstance(x.targets[0], ast.Subscript) and isinstance(x.targets[0].value, ast.Name) \
                    and x.targets[0].value.id == e.id and isinstance(x.targets[0].slice, ast.Constant) and isinstance(x.targets[0].slice.value, int) \
                    and x.targets[0].slice.value >= 0 and isinstance(x.value, ast.Constant):
                elem = ast.IfExp(test=ast.Compare(left=ast.Name(id=IDX, ctx=ast.Load()), ops=[ast.Eq()], comparators=[ast.Constant(value=x.targets[0].slice.value)]),
                                 body=ast.Constant(value=x.value.value), orelse=elem)
                continue
            reads_only = not _assigns_name(x, e.id) and not any(
                isinstance(y, ast.Call) and isinstance(y.func, ast.Attribute) and isinstance(y.func.value, ast.Name) and y.func.value.id == e.id for y in ast.walk(x)) \
                and not any(isinstance(y, ast.Subscript) and isinstance(y.ctx, (ast.Store, ast.Del)) and isinstance(y.value, ast.Name) and y.value.id == e.id for y in ast.walk(x))
            if not reads_only:
                raise Unrecognised(f"`{unparse(x)[:60]}` changes the per-row sequence `{e.id}` in an unrecognised way")
        return elem
    if isinstance(e, (ast.ListComp, ast.GeneratorExp)) and len(e.generators) == 1 and not e.generators[0].ifs:
        g = e.generators[0]
        return subst(e.elt, _row_binding(g.iter, g.target, at, fn, frame, ROW, IDX, depth + 1))
    raise Unrecognised(f"`{unparse(e)[:60]}` could not be recognised as a per-row sequence of the metadata frame")


def _row_binding(it: ast.AST, target: ast.AST, at: ast.AST, fn: ast.AST, frame: str, ROW: str, IDX: str, depth: int = 0) -> dict:
    """loop header `for target in it` over the rows of the frame: -> what each target name stands for in the generic iteration"""
    if isinstance(it, ast.Call) and dotted(it.func) == "enumerate" and it.args and isinstance(target, ast.Tuple) and len(target.elts) == 2 \
            and isinstance(target.elts[0], ast.Name):
        start = it.args[1] if len(it.args) > 1 else next((k.value for k in it.keywords if k.arg == "start"), None)
        if start is not None and not _const(start, 0):
            raise Unrecognised(f"the loop counts rows from `{unparse(start)}`")
        b = _row_binding(it.args[0], target.elts[1], at, fn, frame, ROW, IDX, depth + 1)
        b[target.elts[0].id] = ast.Name(id=IDX, ctx=ast.Load())
        return b
    if isinstance(it, ast.Call) and dotted(it.func) == "zip" and isinstance(target, ast.Tuple) and len(target.elts) == len(it.args) \
            and all(isinstance(t, ast.Name) for t in target.elts) and all(k.arg == "strict" for k in it.keywords):
        return {t.id: _row_sequence(a, at, fn, frame, ROW, IDX, depth + 1) for t, a in zip(target.elts, it.args)}
    if isinstance(target, ast.Name):
        if isinstance(it, ast.Call) and dotted(it.func) == "range" and len(it.args) == 1 and unparse(it.args[0]) in (f"{frame}.height", f"len({frame})"):
            return {target.id: ast.Name(id=IDX, ctx=ast.Load())}
        return {target.id: _row_sequence(it, at, fn, frame, ROW, IDX, depth + 1)}
    raise Unrecognised(f"loop header `for {unparse(target)} in {unparse(it)[:60]}` could not be related to the rows of the metadata frame")


def assign_loop(pm) -> SimpleNamespace:
    """re-identify, by role, the greedy loop of _assign_pages and its state variables:
    rv the row variable, iv the index variable (or None), P the page counter (what is stored as the row's page),
    R the fill counter (the other loop-carried variable), A the available rows (loop-invariant local that
    derives from pagination.nrow), src the iterated expression.
    Two forms of 'storing the row's page': kind 'item'  `row['page'] = P` on the loop's row dict;  kind 'append'
    `pages.append(P)` on a list that becomes the 'page' column of the returned frame - then the loop runs over per-row
    sequences (columns of the frame, zipped / pre-computed lists) and `prologue` binds the loop's names to expressions over
    the generic row (`bind`)."""
    fi = pm.func("PageBreakCalculator._assign_pages")
    fn = fi.node
    params = _params(fn)
    frame = next((p for p in params if p not in ("self", "cls")), None)
    found = []
    for lp in walk_no_nested(fn):
        if not isinstance(lp, ast.For):
            continue
        tn = _target_names(lp.target)
        stores = [s for s in ast.walk(lp) if isinstance(s, ast.Assign) and len(s.targets) == 1 and isinstance(s.targets[0], ast.Subscript)
                  and isinstance(s.targets[0].value, ast.Name) and s.targets[0].value.id in tn and _const(s.targets[0].slice, "page")]
        if stores:
            found.append((lp, stores))
    if len(found) > 1:
        raise Unrecognised(f"the loop of _assign_pages that stores each row's page could not be re-identified ({len(found)} candidates)")
    prologue, bind, Lst, kind = [], {}, None, "item"
    if found:
        lp, stores = found[0]
        it = lp.iter
        iv = None
        if isinstance(it, ast.Call) and dotted(it.func) == "enumerate" and it.args and isinstance(lp.target, ast.Tuple) \
                and len(lp.target.elts) == 2 and all(isinstance(e, ast.Name) for e in lp.target.elts):
            start = it.args[1] if len(it.args) > 1 else next((k.value for k in it.keywords if k.arg == "start"), None)
            if start is not None and not _const(start, 0):
                raise Unrecognised(f"the page-assignment loop counts from `{unparse(start)}`")
            iv, rv = lp.target.elts[0].id, lp.target.elts[1].id
            src = it.args[0]
        elif isinstance(lp.target, ast.Name):
            rv, src = lp.target.id, it
        else:
            raise Unrecognised(f"loop header `for {unparse(lp.target)} in {unparse(it)}` of the page-assignment loop")
        if any(s.targets[0].value.id != rv for s in stores):
            raise Unrecognised("the page is stored to something else than the loop's row variable")
        pvals = {unparse(s.value) for s in stores}
        if len(pvals) != 1 or not isinstance(stores[0].value, ast.Name):
            raise Unrecognised(f"the value stored as the row's page ({sorted(pvals)}) is not one page-counter variable")
        P = stores[0].value.id
    else:
        # a loop that appends the running page number to a list that becomes the 'page' column of the result
        rets = [resolve(r.value, fn) for r in walk_no_nested(fn) if isinstance(r, ast.Return) and r.value is not None]
        cands = []
        for lp in walk_no_nested(fn):
            if not isinstance(lp, ast.For):
                continue
            for c in ast.walk(lp):
                if isinstance(c, ast.Call) and isinstance(c.func, ast.Attribute) and c.func.attr == "append" and isinstance(c.func.value, ast.Name) \
                        and len(c.args) == 1 and isinstance(c.args[0], ast.Name) and not c.keywords:
                    lst = c.func.value.id
                    becomes_page = any(isinstance(x, ast.Call) and any(_const(a, "page") for a in list(x.args) + [k.value for k in x.keywords])
                                       and any(isinstance(y, ast.Name) and y.id == lst for y in ast.walk(x)) for r in rets for x in ast.walk(r))
                    if becomes_page and _enclosing_for(c, fn) is lp:
                        cands.append((lp, c, lst))
        if len({id(c[0]) for c in cands}) != 1 or len({c[2] for c in cands}) != 1 or len({c[1].args[0].id for c in cands}) != 1:
            raise Unrecognised(f"the loop of _assign_pages that stores each row's page could not be re-identified ({len(cands)} candidates)")
        lp, call, Lst = cands[0]
        stores = [c[1] for c in cands]
        P = call.args[0].id
        kind = "append"
        rd = reaching_def(Lst, lp, fn)
        if rd is None or not ((isinstance(rd[0], (ast.List, ast.Tuple)) and not rd[0].elts) or (isinstance(rd[0], ast.Call) and dotted(rd[0].func) == "list" and not rd[0].args)):
            raise Unrecognised(f"the list `{Lst}` of page numbers does not start empty right before the loop")
        taken = {n.id for n in ast.walk(fn) if isinstance(n, ast.Name)} | set(params)
        rv, idx = _fresh("row", taken), _fresh("i", taken)
        bind = _row_binding(lp.iter, lp.target, lp, fn, frame, rv, idx)
        iv = idx if any(isinstance(n, ast.Name) and n.id == idx for v in bind.values() for n in ast.walk(v)) else None
        for nme, v in bind.items():
            st = ast.Assign(targets=[ast.Name(id=nme, ctx=ast.Store())], value=v)
            prologue.append(ast.fix_missing_locations(ast.copy_location(st, lp)))
        src = _name(Lst)
    inner_ids = {id(n) for n in ast.walk(lp)}

    def assigned(nodes):
        out = set()
        for n in nodes:
            if isinstance(n, ast.Assign):
                out.update(t.id for t in n.targets if isinstance(t, ast.Name))
            elif isinstance(n, (ast.AugAssign, ast.AnnAssign)) and isinstance(n.target, ast.Name):
                out.add(n.target.id)
        return out
    asg_in = assigned(ast.walk(lp))
    asg_out = assigned(n for n in walk_no_nested(fn) if id(n) not in inner_ids)
    carried = sorted((asg_in & asg_out) - {P, rv, iv, Lst})
    if P not in asg_in or P not in asg_out:
        raise Unrecognised(f"the page counter `{P}` is not a loop-carried variable")
    if len(carried) != 1:
        raise Unrecognised(f"the fill counter of the page-assignment loop could not be re-identified (loop-carried variables besides the page counter: {carried})")
    R = carried[0]
    loads = {n.id for n in ast.walk(lp) if isinstance(n, ast.Name) and isinstance(n.ctx, ast.Load)}
    asg = assignments(fn)
    A = None
    cands = []
    for nme in sorted(loads - asg_in - set(params) - {P, R, rv, iv, Lst} - set(bind)):
        if len(asg.get(nme, [])) != 1:
            continue
        val = resolve(_name(nme), fn)
        if any(x.endswith(".nrow") or x == "nrow" for x in leaves(val)):
            cands.append(nme)
    if len(cands) == 1:
        A = cands[0]
    return SimpleNamespace(fi=fi, fn=fn, lp=lp, iv=iv, rv=rv, src=src, P=P, R=R, A=A, stores=stores, frame=frame, params=params,
                           h=f"{rv}[total_rows]", kind=kind, Lst=Lst, prologue=prologue, bind=bind)


def _classify(key: str, L) -> tuple[str, bool, int | None]:
    """meaning of a decision atom: (role, polarity, overflow offset).  Roles: S subline start, G group start,
    N new_page, I a previous row exists (i>0), C the page holds something (current_rows>0), O overflow
    (current_rows + height - available + k > 0; k=0 is the required guard), O? an overflow-like test of another
    shape, ? unrecognised"""
    try:
        e = ast.parse(key, mode="eval").body
    except SyntaxError:
        return ("?", True, None)
    e = _peel(e)
    if isinstance(e, ast.Subscript) and isinstance(e.value, ast.Name) and e.value.id == L.rv:
        k = unparse(e.slice)
        if k == "is_subline_start":
            return ("S", True, None)
        if k == "is_group_start":
            return ("G", True, None)
    if isinstance(e, ast.Name):
        if e.id == "new_page":
            return ("N", True, None)
        if e.id == L.R:
            return ("C", True, None)
        if L.iv and e.id == L.iv:
            return ("I", True, None)
    if isinstance(e, ast.Compare):
        g = _gt0(e)
        if g is not None:
            op, lf = g
            for v, role in ((L.iv, "I"), (L.R, "C")):
                if v is None:
                    continue
                if (op == ">" and lf == {v: 1}) or (op == "!=" and lf == {v: 1}):
                    return (role, True, None)
                if (op == ">" and lf == {v: -1, "": 1}) or (op == "==" and lf == {v: 1}):
                    return (role, False, None)
            keys = set(lf) - {""}
            if L.A and op == ">" and keys == {L.R, L.h, L.A}:
                co = (lf[L.R], lf[L.h], lf[L.A])
                if co == (1, 1, -1):
                    return ("O", True, lf.get("", 0))
                if co == (-1, -1, 1):
                    return ("O", False, 1 - lf.get("", 0))
            if (L.A and L.A in keys) or (L.R in keys and L.h in keys):
                return ("O?", True, None)
    return ("?", True, None)


def _lf_of(v) -> dict | None:
    """linear form of a symbolic value of the interpreter (Sym path or number)"""
    if isinstance(v, bool):
        return None
    if isinstance(v, (int, float)):
        return {"": v} if v else {}
    if isinstance(v, Sym):
        try:
            return linform(ast.parse(v.path, mode="eval").body)
        except SyntaxError:
            return None
    return None


def r04_1(ctx: Ctx, mode: str = "full") -> None:
    """mode 'full' (C04): break <=> spec.  mode 'budget' (C03): a break must happen when the row does not fit
    (over-filling direction only).  mode 'assign' (C02): every row gets exactly one page, counter monotone."""
    pm = ctx.pm
    try:
        L = assign_loop(pm)
    except Unrecognised as e:
        ctx.gap("R04.1", str(e))
        return
    fi, fn, lp, iv, rv, P, R, A = L.fi, L.fn, L.lp, L.iv, L.rv, L.P, L.R, L.A
    if mode != "assign":
        if A is None:
            ctx.gap("R04.1", "the available-rows value used by the page-assignment loop could not be re-identified")
            return
        if "new_page" not in L.params:
            ctx.gap("R04.1", "_assign_pages no longer has a new_page parameter")
            return
    dt = DT(pm, classes={"self": "PageBreakCalculator"}, effect_calls={"append"} if L.kind == "append" else None)
    base_names = [x for x in (iv, rv, P, R, A, "new_page") if x]

    def env0():
        env = {x: Sym(x) for x in base_names}
        env["self"] = Sym("self", "PageBreakCalculator")
        return env
    try:
        lv = enumerate_block(dt, L.prologue + lp.body, env0, fi)     # one generic iteration from a symbolic entry state
    except Unsupported as e:
        raise AnalysisError(f"_assign_pages loop body outside the decision-table subset: {e}")
    role = {a: _classify(a, L) for a in sorted(dt.discovered)}
    ctx.extra["atoms"] = {a: ("" if r[1] else "not ") + r[0] for a, r in role.items()}
    ctx.instance("R04.1", fi.where(lp), f"loop body decision table: {len(lv)} leaves over atoms {ctx.extra['atoms']}")
    has_i = any(r[0] == "I" for r in role.values())
    unknown = sorted(a for a, r in role.items() if r[0] in ("?", "O?"))

    def consistent(v, val):
        for a, x in v.items():
            r, pol, _k = role[a]
            if r in val and x != (val[r] if pol else not val[r]):
                return False
        return True

    def is_break(env):
        lf = _lf_of(env.get(P))
        if lf == {P: 1, "": 1}:
            return True
        if lf == {P: 1}:
            return False
        return None
    rows = 0
    undecided = set()
    for S, G, N, C, O in itertools.product([False, True], repeat=5):
        for I in ([False, True] if has_i else [None]):
            if I is not None and C != I:
                continue      # loop invariant: current_rows is 0 at i == 0, and every row adds >= 1 (R04.6; post-state below), so current_rows > 0 <=> i > 0
            val = {"S": S, "G": G, "N": N, "C": C, "O": O}
            if I is not None:
                val["I"] = I
            want = C and (S or (N and G) or O)
            ms = [x for x in lv if consistent(x[0], val)]
            at = ",".join(f"{k}={val[k]}" for k in ("S", "G", "N", "I", "C", "O") if k in val)
            bad = []
            for v, env, eff, outcome in ms:
                rows += 1
                broke = is_break(env)
                if broke is None:
                    ctx.violation("R04.1", fi.short, "page counter " + str(env.get(P)), fi.where(lp),
                                  f"page counter becomes {env.get(P)}; it may only stay or increase by one per row")
                    continue
                if mode == "full":
                    wrong = broke != want
                elif mode == "budget":
                    wrong = (C and O) and not broke          # only a missing overflow break over-fills a page
                else:
                    wrong = False
                if wrong:
                    bad.append((v, broke))
                # post-state (on every feasible path, whatever the mode)
                cp = env.get(P)
                if L.kind == "append":
                    st = [("append", e[2], "", e[3][0] if e[3] else None) for e in eff if e[0] == "call" and e[1] == "append" and e[2] == L.Lst]
                else:
                    st = [e for e in eff if e[0] == "store" and e[1] == rv and str(e[2]).strip("[]") == "page"]
                if len(st) != 1 or st[0][3] != (cp.path if isinstance(cp, Sym) else cp):
                    ctx.violation("R04.1", fi.short, "page store " + str(st), fi.where(lp),
                                  f"the row's page is not set exactly once to the (possibly incremented) current page on the path {v}")
                cr = _lf_of(env.get(R))
                want_cr = {L.h: 1} if broke else {R: 1, L.h: 1}
                if cr != want_cr:
                    crt = env.get(R).path if isinstance(env.get(R), Sym) else str(env.get(R))
                    ctx.violation("R04.1", fi.short, f"current_rows -> {crt} (break={broke})", fi.where(lp),
                                  f"after the row, the fill counter is `{crt}`; expected {'row height (reset on break)' if broke else 'previous + row height'}")
                if outcome not in ("fall", "continue"):
                    ctx.violation("R04.1", fi.short, f"loop exit {outcome}", fi.where(lp), f"the page-assignment loop leaves early ({outcome}); later rows get no page")
            if bad and len(bad) == len(ms):
                broke = bad[0][1]
                ctx.violation("R04.1", fi.short, f"break={broke} at {at}", fi.where(lp),
                              f"_assign_pages {'breaks' if broke else 'does not break'} at subline_start={S}, group_start={G}, new_page={N}, "
                              f"{'i>0=' + str(I) + ', ' if I is not None else ''}current_rows>0={C}, overflow={O}; "
                              "required: break <=> current_rows>0 and (subline start or (new_page and group start) or overflow)")
            elif bad:
                undecided.add(at)
    if undecided:
        ctx.gap("R04.1", f"the break decision also depends on condition(s) that could not be interpreted ({unknown}); "
                         f"it deviates from the specification for some of their values at {sorted(undecided)[:4]}")
    ctx.extra["table_rows"] = rows
    ctx.extra["exhaustive"] = True
    # overflow guard: integer normal form  current_rows + row_height - available_rows + k > 0, k = 0 required
    for a, (r, pol, k) in role.items():
        if r == "O":
            ctx.instance("R04.1", fi.where(lp), f"overflow guard `{a}` normal form {R} + {L.h} - {A} + {k} > 0{'' if pol else ' (negated)'}")
            bad_guard = k != 0 if mode == "full" else (k < 0 if mode == "budget" else False)      # breaking early never over-fills
            if bad_guard:
                ctx.violation("R04.1", fi.short, "overflow guard " + a, fi.where(lp),
                              f"overflow test is `{a}`; required: current_rows + row_height - available_rows > 0 (strict)")
        elif r == "O?" and mode != "assign":
            ctx.instance("R04.1", fi.where(lp), f"overflow-like guard `{a}`")
            ctx.violation("R04.1", fi.short, "overflow guard " + a, fi.where(lp),
                          f"the fill test `{a}` is not of the form current_rows + row_height - available_rows > 0")
    # available rows = max(1, nrow - reservation)
    if A is not None:
        av = resolve(_name(A), fn)
        ctx.instance("R04.1", fi.where(), f"{A} = {unparse(av)}")
        inner = None
        if isinstance(av, ast.Call) and dotted(av.func) == "max" and len(av.args) == 2 and not av.keywords:
            if _const(av.args[0], 1):
                inner = av.args[1]
            elif _const(av.args[1], 1):
                inner = av.args[0]
        if inner is None:
            if mode != "assign":
                ctx.gap("R04.1", f"the available rows `{unparse(av)}` are not of the recognised form max(1, ...)")
        elif linform(inner) != {"self.pagination.nrow": 1, "additional_rows_per_page": -1} and mode != "assign":
            ctx.violation("R04.1", fi.short, "available_rows " + unparse(av), fi.where(), "available rows are not max(1, nrow - additional_rows_per_page)")
    # the greedy loop is the only place where pages are assigned: no shortcut return besides the empty frame
    body = fn.body
    top_of = lambda n: next((i for i, s in enumerate(body) if _inside(n, s)), -1)     # noqa: E731
    lp_idx = top_of(lp)
    for r in [x for x in walk_no_nested(fn) if isinstance(x, ast.Return)]:
        if _inside(r, lp):
            continue            # seen by the decision table as a loop exit
        val = unparse(r.value) if r.value is not None else "None"
        ga = guard_atoms(guards(r, fn), fn)
        after_loop = top_of(r) > lp_idx
        ctx.instance("R04.1", fi.where(r), f"_assign_pages return `{val}` under {sorted(ga) or 'no guard'} ({'after' if after_loop else 'before'} the greedy loop)")
        if after_loop:
            used = {n.id for x in (r.value, resolve(r.value, fn)) for n in ast.walk(x) if isinstance(n, ast.Name)} if r.value is not None else set()
            src_names = {n.id for n in ast.walk(L.src) if isinstance(n, ast.Name)}
            if not (used & src_names):
                ctx.gap("R04.1", f"the result `{val}` of _assign_pages could not be related to the rows the loop assigned pages to")
            continue
        if L.frame and ga & _empty_tests(L.frame):
            continue            # nothing to paginate
        rv_ = resolve(r.value, fn) if r.value is not None else None
        if isinstance(rv_, ast.Name) and rv_.id == L.frame:
            ctx.gap("R04.1", f"_assign_pages returns its input unchanged under {sorted(ga)}, which could not be recognised as 'the frame is empty'")
        else:
            ctx.violation("R04.1", fi.short, f"shortcut return {val} if {sorted(ga)}", fi.where(r),
                          f"_assign_pages returns `{val}` under {sorted(ga)} without running the greedy pass: page numbers assigned by a shortcut need not respect the row budget "
                          "or prefix stability")
    # initial state
    inner_ids = {id(n) for n in ast.walk(lp)}
    init = {}
    for a in walk_no_nested(fn):
        if isinstance(a, ast.Assign) and id(a) not in inner_ids:
            for t in a.targets:
                if isinstance(t, ast.Name) and t.id in (P, R):
                    init.setdefault(t.id, []).append(a.value)
    ip, ir = init.get(P, []), init.get(R, [])
    if len(ip) == 1 and len(ir) == 1 and isinstance(ip[0], ast.Constant) and isinstance(ir[0], ast.Constant):
        if not (_const(ip[0], 1) and _const(ir[0], 0)):
            ctx.violation("R04.1", fi.short, f"initial state {unparse(ip[0])},{unparse(ir[0])}", fi.where(), "page numbering must start at page 1 with 0 rows")
    else:
        ctx.gap("R04.1", f"the initial values of `{P}` / `{R}` could not be re-identified")
    # rows visited in metadata order
    if L.kind == "append":
        ctx.instance("R04.1", fi.where(lp), f"generic row of the loop over per-row sequences: {({k: unparse(v) for k, v in L.bind.items()})}; pages collected in `{L.Lst}`")
        return
    src = resolve(L.src, fn)
    order_ops = [c for c in ast.walk(src) if isinstance(c, ast.Call) and
                 ((isinstance(c.func, ast.Name) and c.func.id in ("sorted", "reversed")) or
                  (isinstance(c.func, ast.Attribute) and c.func.attr in ("sort", "reverse", "sample", "shuffle", "filter", "unique", "head", "tail")))]
    order_ops += [s for s in ast.walk(src) if isinstance(s, ast.Slice)]
    plain = isinstance(src, ast.Call) and isinstance(src.func, ast.Attribute) and src.func.attr in ("to_dicts", "iter_rows", "rows") \
        and isinstance(src.func.value, ast.Name) and src.func.value.id == L.frame
    if order_ops:
        ctx.violation("R04.1", fi.short, "row source " + unparse(src), fi.where(lp), "rows are not visited in metadata order")
    elif not plain:
        ctx.gap("R04.1", f"the rows iterated by the page-assignment loop (`{unparse(src)}`) could not be related to the metadata frame")


# ------------------------------------------------------------------------------------------------ R04.2

def meta_fields(c) -> tuple[ast.AST, dict]:
    """the per-row metadata record built by calculate_row_metadata (dict literal or keyword call): field -> value"""
    cands = []
    for n in walk_no_nested(c.node):
        if isinstance(n, ast.Dict) and n.keys and all(isinstance(k, ast.Constant) for k in n.keys):
            d = {k.value: v for k, v in zip(n.keys, n.values)}
        elif isinstance(n, ast.Call) and n.keywords and not n.args:
            d = {k.arg: k.value for k in n.keywords if k.arg}
        else:
            continue
        if {"total_rows", "is_group_start", "is_subline_start"} <= set(d) and not all(isinstance(v, ast.Attribute) for v in d.values()):
            cands.append((n, d))        # (a dict whose values are all dtypes is the frame's schema, not a record)
    if len(cands) != 1:
        raise Unrecognised(f"the per-row metadata record of calculate_row_metadata could not be re-identified ({len(cands)} candidates)")
    return cands[0]


def flag_list(md: dict, key: str):
    """`flags[idx] if grp else False` (or `grp and flags[idx]`): -> (test expr, flags name, idx expr)"""
    v = md[key]
    if isinstance(v, ast.IfExp) and _const(v.orelse, False):
        test, body = v.test, v.body
    elif isinstance(v, ast.BoolOp) and isinstance(v.op, ast.And) and len(v.values) == 2:
        test, body = v.values
    else:
        raise Unrecognised(f"row flag {key} = `{unparse(v)}`")
    test, body = _peel(test), _peel(body)
    if not (isinstance(body, ast.Subscript) and isinstance(body.value, ast.Name)):
        raise Unrecognised(f"row flag {key} = `{unparse(v)}`")
    return test, body.value.id, body.slice


def r04_2(ctx: Ctx, only: set | None = None) -> None:
    pm = ctx.pm
    want = {
        "DefaultPaginationStrategy.paginate": {"page_by": None, "subline_by": None, "new_page": None},
        "PageByStrategy.paginate": {"page_by": "context.rtf_body.page_by", "subline_by": None, "new_page": "context.rtf_body.new_page"},
        "SublineStrategy.paginate": {"page_by": "context.rtf_body.page_by", "subline_by": "context.rtf_body.subline_by", "new_page": "True"},
    }
    common = {"df": "context.df", "col_widths": "context.col_widths", "table_attrs": "context.table_attrs",
              "removed_column_indices": "context.removed_column_indices", "additional_rows_per_page": "context.additional_rows_per_page"}
    c = pm.func("PageBreakCalculator.calculate_row_metadata")
    cparams = [p for p in _params(c.node) if p != "self"]
    for short, w in want.items():
        fi = pm.func(short)
        calls = [x for x in walk_no_nested(fi.node) if isinstance(x, ast.Call) and dotted(x.func).endswith("calculate_row_metadata")]
        if len(calls) != 1:
            ctx.gap("R04.2", f"the call of calculate_row_metadata could not be re-identified in {short} ({len(calls)} calls)")
            continue
        kw = {}
        for pname, a in zip(cparams, calls[0].args):
            kw[pname] = unparse(resolve(a, fi.node))
        for k in calls[0].keywords:
            if k.arg is None:
                ctx.gap("R04.2", f"{short} passes **{unparse(k.value)} to calculate_row_metadata")
                kw = None
                break
            kw[k.arg] = unparse(resolve(k.value, fi.node))
        if kw is None:
            continue
        ctx.instance("R04.2", fi.where(calls[0]), f"{short}: calculate_row_metadata({', '.join(f'{k}={v}' for k, v in sorted(kw.items()))})")
        for k, v in {**w, **common}.items():
            if only is not None and k not in only:
                continue
            got = kw.get(k)
            if got == "None" and v is None:
                got = None
            if got != v:
                ctx.violation("R04.2", short, f"{k}={kw.get(k)}", fi.where(calls[0]), f"{short}: calculate_row_metadata is called with {k}={kw.get(k)}, expected {v}")
    a = pm.func("PageBreakCalculator._assign_pages")
    aparams = [p for p in _params(a.node) if p != "self"]
    calls = [x for x in walk_no_nested(c.node) if isinstance(x, ast.Call) and dotted(x.func).endswith("_assign_pages")]
    if len(calls) != 1:
        ctx.gap("R04.2", f"the call of _assign_pages could not be re-identified in calculate_row_metadata ({len(calls)} calls)")
    else:
        got = {p: unparse(x) for p, x in zip(aparams, calls[0].args)}
        got.update({k.arg: unparse(k.value) for k in calls[0].keywords if k.arg})
        ctx.instance("R04.2", c.where(calls[0]), f"_assign_pages({', '.join(f'{k}={v}' for k, v in got.items())})")
        for p in ("additional_rows_per_page", "new_page"):
            if got.get(p) != p:
                ctx.violation("R04.2", c.short, f"_assign_pages {p}={got.get(p)}", c.where(calls[0]), "the forced-break flag and the reservation do not reach _assign_pages")
    try:
        _node, md = meta_fields(c)
    except Unrecognised as e:
        ctx.gap("R04.2", str(e))
        md = None
    for flag, grp, other in (("is_group_start", "page_by", "subline_by"), ("is_subline_start", "subline_by", "page_by")):
        if md is None:
            break
        try:
            test, flags, idx = flag_list(md, flag)
        except Unrecognised as e:
            ctx.gap("R04.2", str(e))
            continue
        ctx.instance("R04.2", c.where(), f"row flag {flag} <- {flags}[{unparse(idx)}] when {unparse(test)}")
        if not (isinstance(test, ast.Name) and test.id == grp):
            if isinstance(test, ast.Name) and test.id == other:
                ctx.violation("R04.2", c.short, f"{flag} source", c.where(), f"row flag {flag} is conditioned on {other} instead of {grp}")
            else:
                ctx.gap("R04.2", f"row flag {flag} is conditioned on `{unparse(test)}`")
        if "row_index" in md and unparse(idx) != unparse(md["row_index"]):
            ctx.violation("R04.2", c.short, f"{flag} source", c.where(), f"row flag {flag} is read at index `{unparse(idx)}`, not at the row's own index `{unparse(md['row_index'])}`")
    ctx.floor("R04.2", 6)


# ------------------------------------------------------------------------------------------------ R04.3 / R04.4

_HEIGHTS = ("df.height", "len(df)", "df.shape[0]")


def _pairwise_header(lp: ast.For, fn: ast.AST):
    """`for i, (prev, cur) in enumerate(zip(R, R[1:]), start=1)` with R the list of all rows of df in order:
    -> (i, {prev: row i-1, cur: row i}) as linear forms; None if the header is not of that shape"""
    t, it = lp.target, lp.iter
    if not (isinstance(t, ast.Tuple) and len(t.elts) == 2 and isinstance(t.elts[0], ast.Name) and isinstance(t.elts[1], ast.Tuple)
            and len(t.elts[1].elts) == 2 and all(isinstance(x, ast.Name) for x in t.elts[1].elts)):
        return None
    if not (isinstance(it, ast.Call) and dotted(it.func) == "enumerate" and it.args):
        return None
    start = it.args[1] if len(it.args) > 1 else next((k.value for k in it.keywords if k.arg == "start"), None)
    z = it.args[0]
    if not (_const(start, 1) and isinstance(z, ast.Call) and dotted(z.func) == "zip" and len(z.args) == 2 and all(k.arg == "strict" for k in z.keywords)):
        return None
    a, b = z.args
    if not (isinstance(a, ast.Name) and isinstance(b, ast.Subscript) and isinstance(b.value, ast.Name) and b.value.id == a.id and isinstance(b.slice, ast.Slice)
            and _const(b.slice.lower, 1) and b.slice.upper is None and b.slice.step is None):
        return None
    rd = reaching_def(a.id, lp, fn)
    if rd is None:
        return None
    rows = rd[0]
    ok = False
    if isinstance(rows, ast.ListComp) and len(rows.generators) == 1 and not rows.generators[0].ifs and isinstance(rows.generators[0].target, ast.Name):
        g = rows.generators[0]
        mm = match("range(_H)", g.iter)
        el = rows.elt
        ok = mm is not None and unparse(mm["_H"]) in _HEIGHTS and isinstance(el, ast.Call) and isinstance(el.func, ast.Attribute) and el.func.attr == "row" \
            and unparse(el.func.value) == "df" and el.args and isinstance(el.args[0], ast.Name) and el.args[0].id == g.target.id
    else:
        r2 = strip_wrappers(rows, names=("list", "tuple"))
        ok = isinstance(r2, ast.Call) and isinstance(r2.func, ast.Attribute) and r2.func.attr in ("to_dicts", "rows", "iter_rows") and unparse(r2.func.value) == "df"
    if not ok:
        return None
    i = t.elts[0].id
    return i, {t.elts[1].elts[0].id: {i: 1, "": -1}, t.elts[1].elts[1].id: {i: 1}}


def _row_offset(e: ast.AST, col: str, i: str, lp: ast.For, fn: ast.AST, pre: dict | None = None):
    """`e` reads column `col` of some row: -> linear form of the row index in terms of the loop variable i,
    'carried' for the previous-row idiom (prev = row(lo-1) before the loop, prev = current at the end of the
    body), or None"""
    if not isinstance(e, ast.Subscript):
        return None
    # df[col][idx]
    if isinstance(e.value, ast.Subscript) and isinstance(e.value.slice, ast.Name) and e.value.slice.id == col:
        return linform(e.slice)
    if not (isinstance(e.slice, ast.Name) and e.slice.id == col):
        return None
    row = e.value
    if pre and isinstance(row, ast.Name) and row.id in pre:
        return dict(pre[row.id])

    def of_row_call(x):
        if isinstance(x, ast.Call) and isinstance(x.func, ast.Attribute) and x.func.attr == "row" and x.args:
            return linform(x.args[0])
        return None
    if isinstance(row, ast.Name):
        ins = [a for a in ast.walk(lp) if isinstance(a, ast.Assign) and len(a.targets) == 1 and isinstance(a.targets[0], ast.Name) and a.targets[0].id == row.id]
        outs = [v for v in assignments(fn).get(row.id, []) if not any(v is a.value for a in ins)]
        if len(ins) == 1 and not isinstance(ins[0].value, ast.Name):
            return of_row_call(ins[0].value)
        if len(ins) == 1 and isinstance(ins[0].value, ast.Name) and ins[0] is lp.body[-1]:
            # carried previous row: updated from the current row as the last statement of every iteration
            cur = _local_value(ins[0].value.id, lp, fn)
            cur_lf = of_row_call(cur) if cur is not None else None
            lo = linform(lp.iter.args[0]) if isinstance(lp.iter, ast.Call) and len(lp.iter.args) >= 2 else None
            if cur_lf == {i: 1} and lo is not None and set(lo) <= {""} and not any(isinstance(x, ast.Continue) for x in ast.walk(lp)):
                first = [of_row_call(v) for v in outs]
                want_first = {"": lo.get("", 0) - 1} if lo.get("", 0) - 1 else {}
                if len(first) == 1 and first[0] == want_first:
                    return {i: 1, "": -1}
            return None
        return None
    return of_row_call(row)


def _harmless_flag_guard(atom: str, grp: str, other: str) -> bool:
    """a condition under which the flags of rows 1.. are computed is harmless if it only requires that there are grouping
    columns, or a frame height that every frame with a row 1 has (height >= 2): skipping the pass for shorter frames skips nothing"""
    try:
        e = ast.parse(atom[1:] if atom.startswith("!") else atom, mode="eval").body
    except SyntaxError:
        return False
    neg = atom.startswith("!")
    e = _peel(e)
    if isinstance(e, ast.Name):
        return e.id in (grp, other) and not neg
    if isinstance(e, ast.BoolOp) and isinstance(e.op, ast.Or) and not neg:
        return all(isinstance(_peel(v), ast.Name) and _peel(v).id in (grp, other) for v in e.values) and any(_peel(v).id == grp for v in e.values)
    if unparse(e) in _HEIGHTS:
        return not neg                      # truthy height
    if isinstance(e, ast.Compare) and not neg:
        g = _gt0(e)
        if g is None:
            return False
        op, lf = g
        hs = [k for k in lf if k != ""]
        if len(hs) != 1 or hs[0] not in _HEIGHTS or lf[hs[0]] != 1:
            return False
        c0 = lf.get("", 0)
        if op == ">":
            return c0 >= -1                 # height + c0 > 0  <=>  height >= 1 - c0, implied by height >= 2
        if op == "!=":
            return -c0 < 2                  # height != -c0
    return False


def _change_flags(ctx: Ctx, c, grp: str, other: str, X: str, scope_fns: list) -> None:
    """R04.4 for one grouping: X[i] (i >= 1) must be `any column of grp differs between row i-1 and row i` and X[0] True"""
    fn = c.node
    key = f"{grp} change detection"
    whole = assignments(fn).get(X, [])
    item_stores = [s for s in walk_no_nested(fn) if isinstance(s, ast.Assign) and len(s.targets) == 1 and isinstance(s.targets[0], ast.Subscript)
                   and isinstance(s.targets[0].value, ast.Name) and s.targets[0].value.id == X]
    loop_stores = []
    for s in item_stores:
        lp = _enclosing_for(s, fn)
        while lp is not None and not (isinstance(s.targets[0].slice, ast.Name) and s.targets[0].slice.id in _target_names(lp.target)):
            lp = _enclosing_for(lp, fn)
        if lp is not None:
            loop_stores.append((s, lp))
    if not loop_stores:
        # not the row-by-row form: is it one of the derivations known to be wrong?
        hint = ""
        for x in (z for sc in scope_fns for z in ast.walk(sc)):
            is_join = isinstance(x, ast.Call) and isinstance(x.func, ast.Attribute) and x.func.attr == "join" and _const(x.func.value, "")
            is_concat = isinstance(x, ast.Call) and dotted(x.func).endswith("concat_str") and \
                not any(k.arg == "separator" and not _const(k.value, "") for k in x.keywords)
            if is_join or is_concat:
                hint = f"found `{unparse(x)[:60]}`: keys concatenated without a separator make ('1','12') and ('11','2') equal"
            shifted = isinstance(x, ast.Compare) and any(isinstance(o, (ast.NotEq, ast.Eq)) for o in x.ops) and \
                any(isinstance(y, ast.Call) and isinstance(y.func, ast.Attribute) and y.func.attr == "shift" for y in ast.walk(x))
            shifted = shifted or (isinstance(x, ast.Call) and isinstance(x.func, ast.Attribute) and x.func.attr in ("ne", "eq") and
                                  any(isinstance(y, ast.Call) and isinstance(y.func, ast.Attribute) and y.func.attr == "shift" for y in ast.walk(x)))
            if shifted:
                hint = hint or f"found `{unparse(x)[:60]}`: a polars comparison with a shifted column is null next to a null, so such transitions are dropped"
        if not hint:
            # what flows into the flag list (temporaries expanded)
            flows = list(alternatives(_name(X), fn))
            called = {y.func.attr for a in flows for y in ast.walk(a) if isinstance(y, ast.Call) and isinstance(y.func, ast.Attribute)}
            flows += [sc for sc in scope_fns if sc is not fn and getattr(sc, "name", None) in called]
            for alt in flows:
                for x in ast.walk(alt):
                    if isinstance(x, ast.Call) and isinstance(x.func, ast.Attribute) and x.func.attr in (
                            "is_first_distinct", "is_last_distinct", "is_unique", "is_duplicated", "unique"):
                        hint = (f"found `{unparse(x)[-60:]}`: the flag of a row depends on whether its key occurs ANYWHERE else in the frame, not on the row before it; "
                                "a group value that re-appears after another one is not flagged")
        if hint:
            ctx.violation("R04.4", c.short, key, c.where(), f"{grp} group starts are no longer detected by comparing consecutive rows column by column ({hint})")
        else:
            ctx.gap("R04.4", f"the derivation of the {grp} group-start flags `{X}` could not be re-identified")
        return
    for v in whole:
        m = match("[True] * _H", v) or match("_H * [True]", v)
        if m is not None and unparse(m["_H"]) in _HEIGHTS:
            continue
        m = match("[False] * _H", v) or match("_H * [False]", v)
        if m is not None:
            ctx.violation("R04.4", c.short, f"{X} init", c.where(), f"{X} is not initialised to all-True (the first row starts a group)")
        else:
            ctx.gap("R04.4", f"the initial value `{unparse(v)[:60]}` of `{X}` could not be recognised as all-True")
    if not whole:
        ctx.gap("R04.4", f"the initial value of `{X}` could not be re-identified")
    for s in item_stores:
        if not any(s is t for t, _ in loop_stores) and not (_const(s.targets[0].slice, 0) and _const(s.value, True)):
            ctx.gap("R04.4", f"`{unparse(s)}` writes a {grp} group-start flag in an unrecognised way")
    for s, lp in loop_stores:
        i = s.targets[0].slice.id
        # a plain store inside a loop over the grouping columns: every column overwrites what the previous one found
        over_cols = None
        for o in _anc(lp, fn):
            if isinstance(o, ast.For):
                it = o.iter
                if isinstance(it, ast.BoolOp) and isinstance(it.op, ast.Or) and it.values:
                    it = it.values[0]
                it = strip_wrappers(resolve(it, fn))
                if isinstance(it, ast.Name) and it.id == grp:
                    over_cols = o
        if over_cols is not None and not any(isinstance(n, ast.Name) and n.id == X for n in ast.walk(s.value)):
            ctx.instance("R04.4", c.where(s), f"{grp} change flag `{unparse(s)[:70]}` written once per grouping column in `for {unparse(over_cols.target)} in {unparse(over_cols.iter)}`")
            ctx.violation("R04.4", c.short, key, c.where(s),
                          f"`{unparse(s)[:70]}` is executed once per column of {grp} and overwrites the flag the previous column wrote: only the last grouping column decides, "
                          "a change in another column is not a group start")
            continue
        pair = _pairwise_header(lp, fn)
        m = match("range(1, _H)", lp.iter)
        if pair is not None and pair[0] == i:
            pass
        elif not (isinstance(lp.target, ast.Name) and m is not None and unparse(m["_H"]) in _HEIGHTS):
            ctx.gap("R04.4", f"the {grp} flags are written in `for {unparse(lp.target)} in {unparse(lp.iter)}`, not a pass over rows 1..height-1")
            continue
        odd = [a for a in sorted(guard_atoms(guards(s, fn))) if not _harmless_flag_guard(a, grp, other)]
        if odd:
            ctx.gap("R04.4", f"the {grp} flag store is conditioned on {odd}")
            continue
        # value: any(CMP for col in GRP)  |  flag variable set in `for col in GRP: if CMP: flag = True`
        val = s.value
        cmp_, col, cols = None, None, None
        if isinstance(val, ast.Name):
            sets = [a for a in ast.walk(lp) if isinstance(a, ast.Assign) and len(a.targets) == 1 and isinstance(a.targets[0], ast.Name) and a.targets[0].id == val.id]
            resets = [a for a in sets if _const(a.value, False)]
            trues = [a for a in sets if _const(a.value, True)]
            if len(trues) == 1 and len(sets) == len(resets) + 1:
                if not any(a in lp.body for a in resets):
                    where_reset = assignments(fn).get(val.id, [])
                    if any(_const(v, False) for v in where_reset) and not resets:
                        ctx.violation("R04.4", c.short, f"{grp} flag not reset", c.where(s), f"`{val.id}` is not reset for every row: once a change was seen every later row is flagged")
                    else:
                        ctx.gap("R04.4", f"the reset of `{val.id}` could not be re-identified")
                    continue
                t = trues[0]
                inner = _enclosing_for(t, lp)
                tests = guards(t, inner if inner is not None else lp)
                if len(tests) == 1 and tests[0][1] and isinstance(tests[0][0], ast.Compare):
                    cmp_ = tests[0][0]
                    if inner is not None and isinstance(inner.target, ast.Name):
                        col, cols = inner.target.id, inner.iter
        else:
            neg = False
            call = val
            if isinstance(call, ast.Call) and dotted(call.func) == "any" and len(call.args) == 1 and isinstance(call.args[0], (ast.GeneratorExp, ast.ListComp)):
                g = call.args[0]
                if len(g.generators) == 1 and not g.generators[0].ifs and isinstance(g.generators[0].target, ast.Name) and isinstance(g.elt, ast.Compare) and not neg:
                    cmp_, col, cols = g.elt, g.generators[0].target.id, g.generators[0].iter
        if cmp_ is None or len(cmp_.ops) != 1 or not isinstance(cmp_.ops[0], (ast.NotEq, ast.Eq)):
            # a comparison of per-row KEYS: positive evidence if the keys are the group columns glued together without a
            # separator (('1','12') and ('11','2') then collide and a real group change is missed)
            glued = None
            for alt in alternatives(val, fn):
                for x in ast.walk(alt):
                    if isinstance(x, ast.Call) and isinstance(x.func, ast.Attribute) and x.func.attr == "join" and _const(x.func.value, ""):
                        glued = x
                    if isinstance(x, ast.Call) and dotted(x.func).endswith("concat_str") and not any(k.arg == "separator" and not _const(k.value, "") for k in x.keywords):
                        glued = x
            if glued is not None:
                ctx.violation("R04.4", c.short, key, c.where(s), f"{grp} group starts are decided by comparing keys built with `{unparse(glued)[:60]}`: "
                              "columns concatenated without a separator make ('1','12') and ('11','2') equal, so a real group change is missed")
            else:
                ctx.gap("R04.4", f"the value `{unparse(val)[:70]}` stored as {grp} group-start flag could not be interpreted")
            continue
        l, r = cmp_.left, cmp_.comparators[0]
        wrapped = [isinstance(x, ast.Call) and dotted(x.func) == "str" and len(x.args) == 1 for x in (l, r)]
        if wrapped[0] != wrapped[1]:
            ctx.violation("R04.4", c.short, f"{grp} comparison {unparse(cmp_)}", c.where(cmp_), f"`{unparse(cmp_)}` compares a str() with a raw value")
            continue
        if all(wrapped):
            l, r = l.args[0], r.args[0]
        # which column does the comparison read?
        colname = None
        for x in (l, r):
            if isinstance(x, ast.Subscript):
                k = x.value.slice if isinstance(x.value, ast.Subscript) else x.slice
                if isinstance(k, ast.Name):
                    colname = colname or k.id
        if colname is None:
            ctx.gap("R04.4", f"the column compared by `{unparse(cmp_)}` could not be re-identified")
            continue
        if col is None or colname != col:
            cv = _local_value(colname, lp, fn)
            ctx.violation("R04.4", c.short, key, c.where(cmp_),
                          f"{grp} change detection compares only `{unparse(cv) if cv is not None else colname}`, not every column of {grp}")
            continue
        cols_r = strip_wrappers(resolve(cols, fn))
        if not (isinstance(cols_r, ast.Name) and cols_r.id == grp):
            ctx.violation("R04.4", c.short, key, c.where(cmp_), f"{grp} change detection iterates over `{unparse(cols)}`, not over every column of {grp}")
            continue
        pre = pair[1] if pair is not None else {}
        lo, ro = _row_offset(l, col, i, lp, fn, pre), _row_offset(r, col, i, lp, fn, pre)
        if lo is None or ro is None:
            ctx.gap("R04.4", f"the rows compared by `{unparse(cmp_)}` could not be re-identified")
            continue
        ctx.instance("R04.4", c.where(cmp_), f"{grp} change flag: `{unparse(cmp_)}` per column over `{grp}`, rows {lo} vs {ro}, stored to {X}[{i}]")
        pair = sorted([sorted(lo.items(), key=str), sorted(ro.items(), key=str)])
        if pair != sorted([sorted({i: 1}.items(), key=str), sorted({i: 1, "": -1}.items(), key=str)]):
            ctx.violation("R04.4", c.short, key, c.where(cmp_), f"{grp} change detection compares rows {lo} and {ro} instead of each row with its predecessor")
        elif isinstance(cmp_.ops[0], ast.Eq):
            ctx.violation("R04.4", c.short, key, c.where(cmp_), f"{grp} change detection flags rows that are EQUAL to their predecessor (`{unparse(cmp_)}`)")


def r04_3_4(ctx: Ctx, lookahead: bool = True, flags: bool = True) -> None:
    pm = ctx.pm
    c = pm.func("PageBreakCalculator.calculate_row_metadata")
    a = pm.func("PageBreakCalculator._assign_pages")
    n = 0
    for fi in ((c, a) if lookahead else ()):
        for lp in [x for x in walk_no_nested(fi.node) if isinstance(x, ast.For)]:
            ivs = [e.id for e in ast.walk(lp.target) if isinstance(e, ast.Name)]
            for sub in ast.walk(lp):
                if isinstance(sub, ast.Subscript) and not isinstance(sub.slice, ast.Slice):
                    lf = linform(sub.slice)
                    used = [v for v in ivs if v in lf]
                    if not used:
                        continue
                    n += 1
                    if lf.get("", 0) > 0 and all(co > 0 for k, co in lf.items() if k in ivs):
                        ctx.violation("R04.3", fi.short, "look-ahead " + unparse(sub), fi.where(sub),
                                      f"{fi.short}: `{unparse(sub)}` reads a later row while deciding the current one; appending rows would change earlier pages")
            for call in ast.walk(lp):
                if isinstance(call, ast.Call) and isinstance(call.func, ast.Attribute) and call.func.attr == "row" and call.args:
                    lf = linform(call.args[0])
                    n += 1
                    if any(lf.get("", 0) > 0 and v in lf for v in ivs):
                        ctx.violation("R04.3", fi.short, "look-ahead " + unparse(call), fi.where(call), f"{fi.short}: `{unparse(call)}` reads a later row")
    if lookahead:
        ctx.instance("R04.3", c.where(), f"{n} row-indexed reads in the pagination loops use index i or i-1 only")
    # vectorised whole-column operations in _assign_pages would be look-ahead in disguise
    for call in (walk_no_nested(a.node) if lookahead else ()):
        if isinstance(call, ast.Call) and isinstance(call.func, ast.Attribute) and call.func.attr in ("cum_sum", "cumsum", "shift", "rolling_sum", "cumulative_eval"):
            ctx.violation("R04.3", a.short, "vectorised " + call.func.attr, a.where(call), f"_assign_pages uses {call.func.attr}: page numbers are no longer a greedy function of the preceding rows")
    # R04.4: change flags compare consecutive rows column by column
    if not flags:
        return
    try:
        _node, md = meta_fields(c)
    except Unrecognised as e:
        ctx.gap("R04.4", str(e))
        return
    scope = [c.node] + [pm.funcs[k].node for k in pm.funcs if pm.funcs[k].cls == c.cls and k != c.short
                        and any(isinstance(y, ast.Call) and dotted(y.func).endswith("." + pm.funcs[k].name) for y in ast.walk(c.node))]
    for flag, grp, other in (("is_group_start", "page_by", "subline_by"), ("is_subline_start", "subline_by", "page_by")):
        try:
            _test, X, _idx = flag_list(md, flag)
        except Unrecognised as e:
            ctx.gap("R04.4", str(e))
            continue
        _change_flags(ctx, c, grp, other, X, scope)
    ctx.floor("R04.4", 2)


# ------------------------------------------------------------------------------------------------ R04.5

_PAGE = "__page__"


def _page_iter_elem(it: ast.AST, at: ast.AST, fi, pm, depth: int = 0):
    """generic element of an iterable over the pages: -> (element expression, order, metadata frame text) where the page number is the
    symbol __page__ and order is 'asc' / 'unordered' / 'desc'; None if not recognised.  Sees through sequentially re-bound locals,
    comprehension / generator chains (filters only drop elements, they keep the order) and calls of helper functions."""
    fn = fi.node
    if depth > 8:
        return None
    it = strip_wrappers(it, names=("list", "tuple", "iter"))
    for pat, order in (("_M['page'].unique().sort()", "asc"), ("sorted(_M['page'].unique())", "asc"), ("sorted(set(_M['page']))", "asc"),
                       ("sorted(_M['page'].unique().to_list())", "asc"), ("_M['page'].unique().sort().to_list()", "asc"),
                       ("_M['page'].unique(maintain_order=True)", "asc?"), ("_M['page'].unique()", "unordered"), ("set(_M['page'])", "unordered"),
                       ("_M['page'].unique().sort(descending=True)", "desc"), ("sorted(_M['page'].unique(), reverse=True)", "desc")):
        m = match(pat, it)
        if m is not None:
            return ast.Name(id=_PAGE, ctx=ast.Load()), order, unparse(m["_M"])
    if isinstance(it, ast.Name):
        rd = reaching_def(it.id, at, fn)
        if rd is None:
            return None
        return _page_iter_elem(rd[0], rd[1], fi, pm, depth + 1)
    if isinstance(it, (ast.ListComp, ast.GeneratorExp)) and len(it.generators) == 1:
        g = it.generators[0]
        inner = _page_iter_elem(g.iter, at, fi, pm, depth + 1)
        if inner is None:
            return None
        el, order, M = inner
        if isinstance(g.target, ast.Name):
            b = {g.target.id: el}
        elif isinstance(g.target, ast.Tuple) and isinstance(el, ast.Tuple) and len(g.target.elts) == len(el.elts) and all(isinstance(t, ast.Name) for t in g.target.elts):
            b = {t.id: x for t, x in zip(g.target.elts, el.elts)}
        else:
            return None
        return subst(it.elt, b), order, M
    if isinstance(it, ast.Call):
        callee = None
        if isinstance(it.func, ast.Name):
            r = pm.resolve(fi.module, it.func.id)
            callee = r[1] if r and r[0] == "func" else None
        elif isinstance(it.func, ast.Attribute) and isinstance(it.func.value, ast.Name) and it.func.value.id in ("self", "cls") and fi.cls:
            callee = pm.find_method(fi.cls, it.func.attr)
        if callee is None or any(isinstance(x, (ast.Yield, ast.YieldFrom)) for x in walk_no_nested(callee.node)):
            return None
        rets = [x for x in walk_no_nested(callee.node) if isinstance(x, ast.Return) and x.value is not None]
        if len(rets) != 1 or guards(rets[0], callee.node):
            return None
        ps = [p for p in _params(callee.node) if not (callee.cls and not callee.is_static and p in ("self", "cls"))]
        b = dict(zip(ps, it.args))
        b.update({k.arg: k.value for k in it.keywords if k.arg})
        if set(b) != set(ps) or any(_assigns_name(st, p) for p in ps for st in callee.node.body):
            return None
        inner = _page_iter_elem(rets[0].value, rets[0], callee, pm, depth + 1)
        if inner is None:
            return None
        el, order, M = inner
        return subst(el, b), order, unparse(subst(ast.parse(M, mode="eval").body, b))
    return None


def _page_bound_of_elem(e: ast.AST, M: str):
    """`e` is built from the page symbol: min / max row_index of the rows of M on that page?"""
    e = _peel(e)
    for kind in ("min", "max"):
        m = match(f"_F['row_index'].{kind}()", e) or match(f"_F.get_column('row_index').{kind}()", e)
        if m is None:
            continue
        m2 = match("_M.filter(pl.col('page') == _P)", m["_F"]) or match("_M.filter(_P == pl.col('page'))", m["_F"])
        if m2 is not None and isinstance(m2["_P"], ast.Name) and m2["_P"].id == _PAGE and unparse(m2["_M"]) == M:
            return kind
    return None


def _page_bound(e: ast.AST, fn: ast.AST, lp: ast.For):
    """provenance of a slice bound: -> ('min'|'max', order) where order is 'asc' / 'unordered' / 'desc' / '?', or None.
    Two recognised derivations of 'the smallest / largest row_index of the rows assigned to this page':
      (1) F['row_index'].min()  with F = M.filter(pl.col('page') == p), p the variable of the page loop over M['page'].unique().sort()
      (2) the k-th element of the loop tuple over M.group_by('page').agg(pl.col('row_index').min(), ...).sort('page').iter_rows()"""
    e = _peel(e)
    tnames = _target_names(lp.target)
    if isinstance(e, ast.Name) and e.id in tnames and isinstance(lp.target, ast.Tuple):
        flat = [x.id if isinstance(x, ast.Name) else None for x in lp.target.elts]
        if e.id not in flat:
            return None
        k = flat.index(e.id)
        it = resolve(lp.iter, fn)
        m = match("_Q.iter_rows()", it) or match("_Q.rows()", it)
        if m is None or k == 0:
            return None
        q = m["_Q"]
        order = "unordered"
        if isinstance(q, ast.Call) and isinstance(q.func, ast.Attribute) and q.func.attr == "sort":
            desc = any(k2.arg in ("descending", "reverse") and not _const(k2.value, False) for k2 in q.keywords)
            by = [unparse(x) for x in q.args] + [unparse(k2.value) for k2 in q.keywords if k2.arg == "by"]
            order = "desc" if desc else ("asc" if by in (["'page'"], ["['page']"], ["pl.col('page')"]) else "?")
            q = q.func.value
        if not (isinstance(q, ast.Call) and isinstance(q.func, ast.Attribute) and q.func.attr == "agg"):
            return None
        gb = q.func.value
        if not (isinstance(gb, ast.Call) and isinstance(gb.func, ast.Attribute) and gb.func.attr == "group_by"
                and [unparse(x) for x in gb.args] in (["'page'"], ["['page']"], ["pl.col('page')"])):
            return None
        if any(k2.arg == "maintain_order" and _const(k2.value, True) for k2 in gb.keywords) and order == "unordered":
            order = "?"
        aggs = list(q.args[0].elts) if len(q.args) == 1 and isinstance(q.args[0], (ast.List, ast.Tuple)) else list(q.args)
        if q.keywords or k - 1 >= len(aggs):
            return None
        ag = aggs[k - 1]
        while isinstance(ag, ast.Call) and isinstance(ag.func, ast.Attribute) and ag.func.attr in ("alias", "cast"):
            ag = ag.func.value
        for kind in ("min", "max"):
            if match(f"pl.col('row_index').{kind}()", ag) is not None:
                return kind, order
        return None
    if isinstance(e, ast.Name):
        v = _local_value(e.id, lp, fn)
        return _page_bound(v, fn, lp) if v is not None else None
    for kind in ("min", "max"):
        m = match(f"_F['row_index'].{kind}()", e)
        if m is None:
            continue
        f = m["_F"]
        if isinstance(f, ast.Name):
            f = _local_value(f.id, lp, fn)
            if f is None:
                return None
        m2 = match("_M.filter(pl.col('page') == _P)", f) or match("_M.filter(_P == pl.col('page'))", f)
        if m2 is None or not (isinstance(m2["_P"], ast.Name) and m2["_P"].id in tnames):
            return None
        it = resolve(lp.iter, fn)
        mm = unparse(m2["_M"])
        if match("_M['page'].unique().sort()", it) is not None or match("sorted(_M['page'].unique())", it) is not None \
                or match("sorted(set(_M['page']))", it) is not None:
            order = "asc"
        elif match("_M['page'].unique()", it) is not None:
            order = "unordered"
        elif isinstance(it, ast.Call) and isinstance(it.func, ast.Attribute) and it.func.attr == "sort" and \
                any(k2.arg in ("descending", "reverse") and not _const(k2.value, False) for k2 in it.keywords):
            order = "desc"
        else:
            order = "?"
        if mm not in unparse(it):
            order = "?"
        return kind, order
    return None


def _shortcut_pages(ctx: Ctx, fi, short: str) -> None:
    """a strategy may not hand out pages it built without the row metadata: a return of PageContext objects that is reached
    before calculate_row_metadata was called (and not only for an empty frame) skips the break analysis"""
    fn = fi.node
    body = fn.body
    top_of = lambda n: next((i for i, s in enumerate(body) if _inside(n, s)), -1)     # noqa: E731
    metas = [x for x in walk_no_nested(fn) if isinstance(x, ast.Call) and dotted(x.func).endswith("calculate_row_metadata")]
    if len(metas) != 1:
        return
    m_idx = top_of(metas[0])
    for r in [x for x in walk_no_nested(fn) if isinstance(x, ast.Return) and x.value is not None]:
        if top_of(r) >= m_idx:
            continue
        val = resolve(r.value, fn)
        builds = [x for x in ast.walk(val) if isinstance(x, ast.Call) and dotted(x.func).split(".")[-1] == "PageContext"]
        ga = guard_atoms(guards(r, fn), fn)
        ctx.instance("R04.5", fi.where(r), f"{short}: return `{unparse(r.value)[:60]}` under {sorted(ga) or 'no guard'} before the row metadata is computed")
        if not builds:
            continue
        if ga & (_empty_tests("context.df") | _empty_tests("df")):
            continue
        ctx.violation("R04.5", short, "pages without row metadata " + " and ".join(sorted(ga))[:120], fi.where(r),
                      f"{short} returns page(s) built from the whole frame under `{' and '.join(sorted(ga))}` without calling calculate_row_metadata: "
                      "row heights are not consulted, so a break that is required by the row budget does not occur")


def r04_5(ctx: Ctx) -> None:
    pm = ctx.pm
    for short in STRATS:
        fi = pm.func(short)
        fn = fi.node
        _shortcut_pages(ctx, fi, short)
        sl = [c for c in walk_no_nested(fn) if isinstance(c, ast.Call) and isinstance(c.func, ast.Attribute) and c.func.attr == "slice"
              and unparse(c.func.value) == "context.df"]
        if len(sl) != 1:
            ctx.gap("R04.5", f"{short}: the slice of the original frame that becomes a page could not be re-identified ({len(sl)} candidates)")
            continue
        lp = _enclosing_for(sl[0], fn)
        args = {"offset": sl[0].args[0] if sl[0].args else None, "length": sl[0].args[1] if len(sl[0].args) > 1 else None}
        for k in sl[0].keywords:
            if k.arg in args:
                args[k.arg] = k.value
        if lp is None or args["offset"] is None or args["length"] is None:
            ctx.gap("R04.5", f"{short}: `{unparse(sl[0])}` is not a per-page slice(offset, length) inside a loop over the pages")
            continue

        lo, ln = lin_local(args["offset"], lp, fn), lin_local(args["length"], lp, fn)
        starts = [k for k in lo if k != ""]
        ok_slice = len(starts) == 1 and lo == {starts[0]: 1}
        ends = [k for k in ln if k not in ("", starts[0])] if ok_slice else []
        ok_slice = ok_slice and len(ends) == 1 and ln == {ends[0]: 1, starts[0]: -1, "": 1}
        ctx.instance("R04.5", fi.where(sl[0]), f"{short}: page = context.df.slice({unparse(args['offset'])}, {unparse(args['length'])}); offset {lo}, length {ln}")
        if not ok_slice:
            ctx.violation("R04.5", short, "page slice", fi.where(sl[0]),
                          f"{short}: a page is not the contiguous slice [min row_index, max row_index] of the rows assigned to it (offset {lo}, length {ln}; required start, end-start+1)")
            continue
        try:
            bs = _page_bound(ast.parse(starts[0], mode="eval").body, fn, lp)
            be = _page_bound(ast.parse(ends[0], mode="eval").body, fn, lp)
        except SyntaxError:
            bs = be = None
        if (bs is None or be is None) and isinstance(lp.target, ast.Tuple) and all(isinstance(t, ast.Name) for t in lp.target.elts):
            # the page loop runs over pre-computed (page, first, last) tuples: follow the iterable to its generic element
            ge = _page_iter_elem(lp.iter, lp, fi, pm)
            names = [t.id for t in lp.target.elts]
            if ge is not None and isinstance(ge[0], ast.Tuple) and len(ge[0].elts) == len(names) and starts[0] in names and ends[0] in names:
                el, order, M = ge
                ks, ke = _page_bound_of_elem(el.elts[names.index(starts[0])], M), _page_bound_of_elem(el.elts[names.index(ends[0])], M)
                if ks is not None and ke is not None:
                    bs, be = (ks, order if order != "asc?" else "?"), (ke, order)
        if bs is None or be is None:
            ctx.gap("R04.5", f"{short}: the origin of the page bounds `{starts[0]}` / `{ends[0]}` could not be re-identified")
            continue
        if (bs[0], be[0]) != ("min", "max"):
            ctx.violation("R04.5", short, "page slice", fi.where(sl[0]), f"{short}: the page starts at the {bs[0]} and ends at the {be[0]} row index of its rows (required: min .. max)")
        order = bs[1]
        if order in ("unordered", "desc"):
            ctx.violation("R04.5", short, "page order " + unparse(lp.iter), fi.where(lp), f"{short}: pages are not materialised in ascending page number ({order})")
        elif order != "asc":
            ctx.gap("R04.5", f"{short}: the order of the page loop `{unparse(resolve(lp.iter, fn))[:80]}` could not be established")
        # one page object per page number, appended to the returned list
        rets = [r for r in walk_no_nested(fn) if isinstance(r, ast.Return) and r.value is not None]
        lists = {r.value.id for r in rets if isinstance(r.value, ast.Name)}
        app = [c for c in ast.walk(lp) if isinstance(c, ast.Call) and isinstance(c.func, ast.Attribute) and c.func.attr == "append"
               and isinstance(c.func.value, ast.Name) and c.func.value.id in lists]
        if len(lists) != 1 or len(rets) != 1 or len(app) != 1:
            ctx.gap("R04.5", f"{short}: the list of pages returned and the append that fills it could not be re-identified")
            continue
        ga = guard_atoms(guards(app[0], lp), fn)
        frames = {n.id for n in ast.walk(lp) if isinstance(n, ast.Name)}
        allowed = set().union(*[_nonempty_tests(f) for f in frames]) if frames else set()
        ctx.instance("R04.5", fi.where(app[0]), f"{short}: one append per page number under {sorted(ga) or 'no guard'}")
        if not ga <= allowed:
            ctx.gap("R04.5", f"{short}: the page append is conditioned on {sorted(ga - allowed)}")
    ctx.floor("R04.5", 3)


# ------------------------------------------------------------------------------------------------ R04.6

def r04_6(ctx: Ctx) -> None:
    """every row adds >= 1 to current_rows (justifies C => I) and the heading rows travel with the row"""
    pm = ctx.pm
    c = pm.func("PageBreakCalculator.calculate_row_metadata")
    fn = c.node
    try:
        node, md = meta_fields(c)
    except Unrecognised as e:
        ctx.gap("R04.6", str(e))
        return
    need = ("total_rows", "data_rows", "pageby_header_rows", "subline_header_rows")
    if not all(k in md for k in need):
        ctx.gap("R04.6", f"the row metadata record lacks one of {need}")
        return
    row_loop = _enclosing_for(node, fn)
    scope = row_loop if row_loop is not None else fn

    def lin(e):
        return lin_local(e, scope, fn)
    tot = lin(md["total_rows"])
    parts = {}
    for k in need[1:]:
        for t, co in lin(md[k]).items():
            parts[t] = parts.get(t, 0) + co
    ctx.instance("R04.6", c.where(md["total_rows"]), f"total_rows = {tot}; data + page_by heading + subline heading = {parts}")
    if tot != parts:
        ctx.violation("R04.6", c.short, "total_rows " + unparse(resolve(md["total_rows"], fn)), c.where(md["total_rows"]),
                      "a row's height is not data lines + page_by heading rows + subline heading rows")
    # data lines: start at a constant >= 1 and only grow by max(self, lines) where lines = max(1, ...)
    d = md["data_rows"]
    if not isinstance(d, ast.Name):
        ctx.gap("R04.6", f"the data-row count `{unparse(d)}` is not a local accumulator")
    else:
        vals = assignments(fn).get(d.id, [])
        ok1, low = bool(vals), None
        for v in vals:
            if isinstance(v, ast.Constant) and isinstance(v.value, int) and not isinstance(v.value, bool):
                low = v.value if low is None else min(low, v.value)
            elif isinstance(v, ast.Call) and dotted(v.func) == "max" and any(isinstance(x, ast.Name) and x.id == d.id for x in v.args):
                pass
            else:
                ok1 = False
        ctx.instance("R04.6", c.where(), f"data lines `{d.id}` start at {low} and only grow by max(): {ok1}")
        if not ok1 or low is None:
            ctx.gap("R04.6", f"the updates of the data-row count `{d.id}` could not be interpreted ({[unparse(v)[:40] for v in vals]})")
        elif low < 1:
            ctx.violation("R04.6", c.short, "data rows >= 1", c.where(), f"a data row can be counted with {low} lines")
    hr = pm.func("PageBreakCalculator._calculate_header_rows")
    rets = [r.value for r in walk_no_nested(hr.node) if isinstance(r, ast.Return) and r.value is not None]
    ctx.instance("R04.6", hr.where(), f"heading rows = {[unparse(r) for r in rets]}")
    for r in rets:
        rr = resolve(r, hr.node)
        if not (isinstance(rr, ast.Call) and dotted(rr.func) == "max" and any(isinstance(x, ast.Constant) and isinstance(x.value, int) and x.value >= 1 for x in rr.args)):
            if isinstance(rr, ast.Constant) and isinstance(rr.value, int) and rr.value < 1:
                ctx.violation("R04.6", hr.short, "heading rows " + unparse(rr), hr.where(), "a heading can be counted with less than one row")
            else:
                ctx.gap("R04.6", f"the heading row count `{unparse(rr)[:60]}` could not be recognised as >= 1")
    if not rets:
        ctx.gap("R04.6", "_calculate_header_rows returns nothing recognisable")


def check(ctx: Ctx) -> None:
    ctx.explain(
        "R04.1 the loop body of _assign_pages (re-identified as the loop that stores each row's page) is evaluated as a decision "
        "table over the atoms subline start, group start, new_page, i>0, current_rows>0, overflow (lazy discovery; atoms classified by "
        "meaning with polarity; valuations violating the loop invariant current_rows>0 <=> i>0 skipped): page counter increments exactly when "
        "current_rows>0 ∧ (S ∨ (N∧G) ∨ O); page stored with the post-increment number; current_rows reset/"
        "accumulated; overflow guard and available rows compared as integer linear forms. R04.2 forced-break keyword arguments of the "
        "three strategies. R04.3 every row-indexed read in the pagination loops uses i or i-1 (prefix stability). R04.4 group "
        "change flags compare consecutive rows column by column. R04.5 pages materialised in ascending order from "
        "[min,max] row ranges with slice length max-min+1. R04.6 every row adds >= 1.")
    ctx.assume("row heights computed by calculate_row_metadata are the heights the property refers to (see C03 for the estimator)")
    ctx.assume("decision-table rows with current_rows>0 different from i>0 are infeasible: current_rows starts at 0 and every row adds >= 1 (R04.6)")
    ctx.undecided("where breaks fall for a concrete height vector (run-time arithmetic)")
    r04_1(ctx)
    r04_2(ctx)
    r04_3_4(ctx)
    r04_5(ctx)
    r04_6(ctx)
