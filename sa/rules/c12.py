"""C12 - colour and font references resolve to what the user asked for.

R12.1 typestate over the call graph: every call chain from rtf_encode to a context-dependent colour
index lookup is entered with the document colour context established (set_document_context or a `with`
on a context manager that sets it; must-analysis over CFGs) and not yet cleared; R12.2 table/index pipeline agreement; R12.3 collector covers
every (component, colour attribute) that an emitter turns into an index; R12.4 master table
integrity; R12.5 font table / font reference agreement.
"""
from __future__ import annotations

import ast
import re

from ..absint import NOC
from ..callgraph import CallGraph
from ..cfg import CFG, own_parts
from ..consteval import const_call, const_name
from ..effects import bound_arg
from ..pm import AnalysisError, dotted, unparse, walk_no_nested
from ..report import Ctx

SINK = "Utils._get_color_index"
ENTRY = "RTFDocument.rtf_encode"
SET, CLEAR, LOOKUP = "set_document_context", "clear_document_context", "get_rtf_color_index"


def _last(c: ast.Call) -> str:
    return dotted(c.func).split(".")[-1]


def _is_none(e: ast.AST | None) -> bool:
    return isinstance(e, ast.Constant) and e.value is None


def must_execute(stmts, pred) -> bool:
    """does every normal run through the statement list evaluate an expression satisfying `pred`? (structural)"""
    def expr_has(e) -> bool:
        return e is not None and any(pred(x) for x in ast.walk(e))

    for s in stmts:
        if isinstance(s, (ast.FunctionDef, ast.AsyncFunctionDef, ast.ClassDef)):
            continue
        if isinstance(s, ast.If):
            if expr_has(s.test) or (s.orelse and must_execute(s.body, pred) and must_execute(s.orelse, pred)):
                return True
        elif isinstance(s, (ast.For, ast.AsyncFor)):
            if expr_has(s.iter):
                return True
        elif isinstance(s, ast.While):
            if expr_has(s.test):
                return True
        elif isinstance(s, (ast.With, ast.AsyncWith)):
            if any(expr_has(i.context_expr) for i in s.items) or must_execute(s.body, pred):
                return True
        elif isinstance(s, ast.Try):
            if must_execute(s.finalbody, pred) or (not s.handlers and must_execute(s.body, pred)):
                return True
        elif pred(s) or expr_has(s):
            return True
        if isinstance(s, (ast.Return, ast.Raise, ast.Break, ast.Continue)):
            return False
    return False


class ColourContext:
    """The protocol around the per-encode colour context, recognised by role:

    * the *state* is whatever ColorService.set_document_context writes (a ContextVar, or an attribute of the service);
    * a *set* site establishes it: a call of set_document_context, a primitive write of a non-None value, or entering a
      `with` on a context manager (a @contextmanager generator) that establishes it on every path to its yield;
    * a *clear* site releases it: clear_document_context, a primitive write of None / ContextVar.reset, or leaving
      such a `with` (on the exits on which the manager clears);
    * a *read* is ContextVar.get() / a load of the attribute.
    A forward must-analysis over each function's CFG (with exceptional edges) gives "is the context established here",
    and is propagated over the call graph from the entry point (typestate)."""

    def __init__(self, pm, cg: CallGraph):
        self.pm, self.cg = pm, cg
        setters = [f for f in pm.funcs.values() if f.name == SET and f.cls]
        clearers = [f for f in pm.funcs.values() if f.name == CLEAR and f.cls]
        if not setters:
            raise AnalysisError(f"no method {SET} found: the colour context API cannot be re-identified")
        self.setter = setters[0]
        self.clearer = clearers[0] if clearers else None
        self.owner = self.setter.cls
        self.cvars: set[str] = set()
        self.attrs: set[str] = set()
        for n in walk_no_nested(self.setter.node):
            if isinstance(n, ast.Call) and isinstance(n.func, ast.Attribute) and n.func.attr == "set" and isinstance(n.func.value, ast.Name):
                r = pm.resolve(self.setter.module, n.func.value.id)
                if r and r[0] == "value" and isinstance(r[1][1], ast.Call) and dotted(r[1][1].func).split(".")[-1] == "ContextVar":
                    self.cvars.add(n.func.value.id)
            elif isinstance(n, (ast.Assign, ast.AnnAssign)):
                for t in (n.targets if isinstance(n, ast.Assign) else [n.target]):
                    if isinstance(t, ast.Attribute) and isinstance(t.value, ast.Name) and t.value.id in ("self", "cls"):
                        self.attrs.add(t.attr)
        self._cm: dict[str, dict | None] = {}
        self._info: dict[str, tuple] = {}
        self._flow: dict[tuple[str, bool], dict] = {}
        self.unrecognised: list[str] = []

    # ---- primitive operations on the state --------------------------------------------------------
    def prim(self, n: ast.AST) -> str | None:
        """'set' | 'clear' | 'read' for a node that touches the state directly"""
        if isinstance(n, ast.Call) and isinstance(n.func, ast.Attribute) and isinstance(n.func.value, ast.Name) and n.func.value.id in self.cvars:
            if n.func.attr == "set":
                return "clear" if (n.args and _is_none(n.args[0])) else "set"
            if n.func.attr == "reset":
                return "clear"
            if n.func.attr == "get":
                return "read"
        if isinstance(n, ast.Attribute) and n.attr in self.attrs and isinstance(n.value, ast.Name):
            if isinstance(n.ctx, ast.Load):
                return "read"
            par = getattr(n, "_parent", None)
            if isinstance(par, (ast.Assign, ast.AnnAssign)):
                return "clear" if _is_none(par.value) else "set"
            if isinstance(par, ast.Delete):
                return "clear"
        return None

    def op_of_call(self, c: ast.Call) -> str | None:
        nm = _last(c)
        if nm == SET:
            return "set"
        if nm == CLEAR:
            return "clear"
        p = self.prim(c)
        return p if p in ("set", "clear") else None

    def document_of_set(self, fi, c: ast.Call):
        """the document whose colours a set site establishes: the `document` argument of set_document_context, or the argument
        of the colour collector whose result is written into the state directly; None if it cannot be told"""
        from ..astmatch import resolve
        if _last(c) == SET:
            if "document" in [a.arg for a in self.setter.node.args.args]:
                return bound_arg(c, self.setter, "document")
            return c.args[0] if c.args else None
        if c.args:
            v = resolve(c.args[0], fi.node)
            if isinstance(v, ast.Call) and _last(v) == "collect_document_colors" and v.args:
                return v.args[0]
        return None

    def touches(self, fn: ast.AST) -> bool:
        for n in walk_no_nested(fn):
            if isinstance(n, ast.Call) and self.op_of_call(n):
                return True
            if isinstance(n, ast.Attribute) and not isinstance(n.ctx, ast.Load) and self.prim(n):
                return True
        return False

    # ---- context managers ---------------------------------------------------------------------------
    def cm_summary(self, fi) -> dict | None:
        """for a @contextmanager generator that touches the context: does it establish the context on every path to its
        yield, does it clear it when the block ends normally / with an exception, which parameter is the document"""
        if fi.short in self._cm:
            return self._cm[fi.short]
        self._cm[fi.short] = None
        if not any(d.split(".")[-1] == "contextmanager" for d in fi.decorators) or not self.touches(fi.node):
            return None
        ys = [y for y in walk_no_nested(fi.node) if isinstance(y, (ast.Yield, ast.YieldFrom))]
        if not ys:
            return None
        g, sets, clears, _weak = self.info(fi, as_manager=True)
        ins = self.flow(fi, False, as_manager=True)
        at_yield, normal, exc = [], [], []
        for y in ys:
            nodes = [n for n in g.node_containing(y) if id(n) in ins]
            if not nodes:
                continue
            at_yield.append((y, all(ins[id(n)] for n in nodes)))
            if not at_yield[-1][1]:
                continue            # nothing established on this path: nothing to clear
            normal.append(all(g.must_pass(s, clears, [g.exit], exceptional=False) for n in nodes for s in n.succ))
            prot = False
            p = getattr(y, "_parent", None)
            child = y
            while p is not None and p is not fi.node:
                if isinstance(p, ast.Try) and any(x is child for x in p.body):
                    is_clear = lambda x: (isinstance(x, ast.Call) and self.op_of_call(x) == "clear") or \
                        (isinstance(x, ast.Attribute) and not isinstance(x.ctx, ast.Load) and self.prim(x) == "clear")
                    if must_execute(p.finalbody, is_clear):
                        prot = True
                    catch_all = [h for h in p.handlers if h.type is None or dotted(h.type) in ("BaseException",)]
                    if catch_all and all(must_execute(h.body, is_clear) for h in catch_all):
                        prot = True
                child, p = p, getattr(p, "_parent", None)
            exc.append(prot)
        doc_param = None
        params = [a.arg for a in list(fi.node.args.posonlyargs) + list(fi.node.args.args)]
        for c in walk_no_nested(fi.node):
            if isinstance(c, ast.Call) and self.op_of_call(c) == "set":
                a0 = self.document_of_set(fi, c)
                if isinstance(a0, ast.Name) and a0.id in params:
                    doc_param = a0.id
        out = {"fi": fi, "yields": at_yield, "establishes": bool(at_yield) and all(st for _, st in at_yield),
               "sets": bool(sets), "clears_normal": bool(normal) and all(normal), "clears_exc": bool(exc) and all(exc),
               "doc_param": doc_param}
        self._cm[fi.short] = out
        return out

    def manager_of(self, fi, call: ast.Call) -> dict | None:
        for c in self.cg.resolve_call(fi, call):
            sm = self.cm_summary(c)
            if sm is not None:
                return sm
        return None

    # ---- per-function sites ---------------------------------------------------------------------------
    def info(self, fi, as_manager: bool = False):
        """(cfg, set nodes, clear nodes, weak-set nodes) of a function"""
        key = fi.short
        if key in self._info:
            return self._info[key]
        g = CFG(fi.node)
        sets, clears, weak = [], [], []
        with_items = {}
        for nd in g.nodes:
            if nd.ast is None:
                continue
            if nd.label == "with-enter":
                for it in nd.ast.items:
                    if isinstance(it.context_expr, ast.Call):
                        sm = self.manager_of(fi, it.context_expr)
                        if sm is not None:
                            with_items[id(it.context_expr)] = sm
                            if sm["sets"]:
                                (sets if sm["establishes"] else weak).append(nd)
                            for x in g.nodes:
                                if x.kind == "withexit" and x.ast is nd.ast:
                                    if (x.label == "with-exit(exc)" and sm["clears_exc"]) or (x.label != "with-exit(exc)" and sm["clears_normal"]):
                                        clears.append(x)
            for part in own_parts(nd):
                for n in ast.walk(part):
                    if isinstance(n, ast.Call):
                        op = self.op_of_call(n)
                        if op == "set" and nd not in sets:
                            sets.append(nd)
                        elif op == "clear" and nd not in clears:
                            clears.append(nd)
                        elif op is None and id(n) not in with_items and not as_manager and self.manager_of(fi, n) is not None:
                            self.unrecognised.append(f"{fi.short}: context manager `{unparse(n)[:60]}` is used outside a with statement")
                    elif isinstance(n, ast.Attribute) and not isinstance(n.ctx, ast.Load):
                        op = self.prim(n)
                        if op == "set" and nd not in sets:
                            sets.append(nd)
                        elif op == "clear" and nd not in clears:
                            clears.append(nd)
        self._info[key] = (g, sets, clears, weak)
        return self._info[key]

    def is_binder(self, fi) -> bool:
        if fi.cls == self.owner:
            return False
        _, sets, clears, weak = self.info(fi)
        return bool(sets or clears or weak)

    def flow(self, fi, incoming: bool, as_manager: bool = False) -> dict:
        """id(cfg node) -> is the context established on every path reaching the node (live nodes only)"""
        key = (fi.short, incoming)
        if key in self._flow:
            return self._flow[key]
        g, sets, clears, _ = self.info(fi, as_manager)
        sset, cset = {id(n) for n in sets}, {id(n) for n in clears}
        live = g.reachable(g.entry)
        nodes = [n for n in g.nodes if id(n) in live]
        preds: dict[int, list] = {id(n): [] for n in nodes}
        for n in nodes:
            for s in n.succ:
                if id(s) in preds:
                    preds[id(s)].append((n, False))
            for s in n.xsucc:
                if id(s) in preds:
                    preds[id(s)].append((n, True))
        ins = {id(n): True for n in nodes}
        ins[id(g.entry)] = incoming

        def out(p, exc):
            if id(p) in cset:
                return False
            if id(p) in sset:
                return ins[id(p)] if exc else True
            return ins[id(p)]
        changed = True
        while changed:
            changed = False
            for n in nodes:
                if n is g.entry:
                    continue
                new = all(out(p, x) for p, x in preds[id(n)])
                if new != ins[id(n)]:
                    ins[id(n)] = new
                    changed = True
        self._flow[key] = ins
        return ins

    def state_at(self, fi, node: ast.AST, incoming: bool) -> bool:
        g, sets, clears, _ = self.info(fi)
        if not sets and not clears:
            return incoming
        ins = self.flow(fi, incoming)
        holders = g.node_containing(node)
        if not holders:
            return incoming
        livehold = [n for n in holders if id(n) in ins]
        if not livehold:
            return True          # unreachable code executes nothing
        return all(ins[id(n)] for n in livehold)

    def after_clear(self, fi, node: ast.AST) -> bool:
        g, _, clears, _ = self.info(fi)
        live = g.reachable(g.entry)
        hold = {id(n) for n in g.node_containing(node)}
        return any(hold & g.reachable(s) for c in clears if id(c) in live for s in c.succ)

    # ---- typestate over the call graph ------------------------------------------------------------------
    def typestate(self, entry: str):
        pm, cg = self.pm, self.cg
        children: dict[str, list[str]] = {}
        for f in pm.funcs.values():
            if f.parent is not None:
                children.setdefault(f.parent.short, []).append(f.short)
        start = (entry, False)
        seen = {start}
        work = [start]
        edges: dict[tuple, list] = {}
        while work:
            node = work.pop()
            short, state = node
            fi = pm.funcs.get(short)
            if fi is None:
                continue
            out = []
            for call, cands in cg.sites.get(short, []):
                if not cands:
                    continue
                st = self.state_at(fi, call, state)
                for c in cands:
                    out.append((call, (c.short, st)))
            for ch in children.get(short, []):
                out.append((None, (ch, state)))
            edges[node] = out
            for _, tgt in out:
                if tgt not in seen:
                    seen.add(tgt)
                    work.append(tgt)
        return seen, edges

    def precisely_reached(self, entry: str, edges) -> set:
        """the (function, state) nodes reachable without using a call edge that was resolved by method name only"""
        start = (entry, False)
        seen = {start}
        work = [start]
        while work:
            n = work.pop()
            for call, tgt in edges.get(n, []):
                if call is not None and id(call) in self.cg.imprecise:
                    continue
                if tgt not in seen:
                    seen.add(tgt)
                    work.append(tgt)
        return seen

    def culprits(self, entry: str, seen, edges, sinks: set[str]):
        """call sites at which the context is decided to be absent on a path to a sink: the out-of-context call edges of the
        innermost function that manages the context (a binder), or of the entry point when no binder is on the path.
        -> list of (function node, call, callee node, path of function names to the sink)"""
        preds: dict[tuple, list] = {}
        for n, outs in edges.items():
            for call, tgt in outs:
                preds.setdefault(tgt, []).append((n, call))
        bad = [(s, False) for s in sorted(sinks) if (s, False) in seen]
        visited = set(bad)
        nxt: dict[tuple, tuple] = {}
        queue = list(bad)
        found = []
        while queue:
            n = queue.pop(0)
            for p, call in preds.get(n, []):
                pfi = self.pm.funcs.get(p[0])
                if pfi is None:
                    continue
                if p[0] == entry or self.is_binder(pfi):
                    path = [n[0]]
                    x = n
                    while x in nxt:
                        x = nxt[x]
                        path.append(x[0])
                    found.append((p, call, n, path))
                    continue
                if p not in visited:
                    visited.add(p)
                    nxt[p] = n
                    queue.append(p)
        return found


def lookup_sinks(pm, cc: ColourContext) -> list:
    """functions outside the colour service that resolve a colour index through the context (no explicit colour list)"""
    out = []
    params = [a.arg for a in pm.func(f"{cc.owner}.{LOOKUP}").node.args.args] if pm.has_func(f"{cc.owner}.{LOOKUP}") else []
    for fi in pm.iter_funcs():
        if fi.cls == cc.owner:
            continue
        for c in walk_no_nested(fi.node):
            if isinstance(c, ast.Call) and _last(c) == LOOKUP:
                second = c.args[1] if len(c.args) >= 2 else next((k.value for k in c.keywords if k.arg == "used_colors"), None)
                explicit = second is not None and not _is_none(second)
                if explicit and isinstance(second, ast.Name):
                    # a parameter that defaults to None is handed through: callers may leave it out
                    a = fi.node.args
                    pos = list(a.posonlyargs) + list(a.args)
                    dflt = dict(zip([x.arg for x in pos][len(pos) - len(a.defaults):], a.defaults))
                    dflt.update({k.arg: d for k, d in zip(a.kwonlyargs, a.kw_defaults) if d is not None})
                    if second.id in dflt and _is_none(dflt[second.id]):
                        explicit = False
                if not explicit and fi not in out:
                    out.append(fi)
    return out


def _other_object(fi, e: ast.AST) -> bool | None:
    """is expression `e` (an argument that should be the document being encoded) positively another object - the result of a
    call or a loop variable?  False: it is a parameter of the function; None: cannot be told (attribute, alias ...)"""
    from ..astmatch import assignments, resolve
    a = fi.node.args
    params = {x.arg for x in list(a.posonlyargs) + list(a.args) + list(a.kwonlyargs)}
    r = resolve(e, fi.node)
    if isinstance(r, ast.Name):
        if r.id in params:
            return False
        vals = assignments(fi.node).get(r.id, [])
        if vals and all(isinstance(v, ast.Call) or (isinstance(v, ast.Constant) and v.value == "<loop>") for v in vals):
            return True
        return None
    if isinstance(r, ast.Call):
        return True
    return None


def r12_1(ctx: Ctx, cg: CallGraph) -> None:
    pm = ctx.pm
    cc = ColourContext(pm, cg)
    sinks = lookup_sinks(pm, cc)
    if not sinks:
        raise AnalysisError(f"no function resolves colour indices through {LOOKUP} with the document context any more")
    seen, edges = cc.typestate(ENTRY)
    entered = sorted({s for s, _ in seen})
    ctx.extra["functions_on_typestate_graph"] = len(entered)
    n_sites = sum(len(v) for v in edges.values())
    for sk in sinks:
        states = sorted({st for s, st in seen if s == sk.short})
        ctx.instance("R12.1", sk.where(), f"{sk.short} entered with context states {states} over {len(entered)} functions / {n_sites} call edges")
        if not states:
            ctx.gap("R12.1", f"{sk.short} is not reachable from {ENTRY} on the call graph")
    for p, call, n, path in cc.culprits(ENTRY, seen, edges, {s.short for s in sinks}):
        fi = pm.funcs[p[0]]
        late = call is not None and cc.after_clear(fi, call)
        path_txt = " -> ".join(dict.fromkeys([p[0]] + path))
        why = "after the context was cleared" if late else ("before / without establishing the context" if cc.is_binder(fi) else "and no function on the path establishes the context")
        ctx.violation("R12.1", p[0], "lookup without context via " + n[0], fi.where(call) if call is not None else fi.where(),
                      f"colour index lookup reached without an established document colour context: {p[0]} calls {n[0]} {why}: {path_txt}; "
                      "indices then refer to the full 657-colour table (or a stale palette) while the document carries its own dense table")
    # binders: the context document is the document being encoded; nobody re-binds an established context
    precise = cc.precisely_reached(ENTRY, edges)
    binders = [pm.funcs[s] for s in entered if s in pm.funcs and pm.funcs[s].cls != cc.owner and (cc.info(pm.funcs[s])[1] or cc.info(pm.funcs[s])[3])]
    for fi in binders:
        g, sets, _clears, weak = cc.info(fi)
        params = [a.arg for a in list(fi.node.args.posonlyargs) + list(fi.node.args.args)]
        live = g.reachable(g.entry)
        for nd in sets + weak:
            if id(nd) not in live:
                continue
            matched = False
            for part in own_parts(nd):
                for c in ast.walk(part):
                    if not isinstance(c, ast.Call):
                        continue
                    sm = cc.manager_of(fi, c) if nd.label == "with-enter" else None
                    if sm is not None:
                        arg_e = bound_arg(c, sm["fi"], sm["doc_param"]) if sm["doc_param"] else None
                    elif cc.op_of_call(c) == "set":
                        arg_e = cc.document_of_set(fi, c)
                    else:
                        continue
                    matched = True
                    arg = unparse(arg_e) if arg_e is not None else "?"
                    ctx.instance("R12.1", fi.where(c), f"{fi.short}: context established for {arg} by `{unparse(c)[:60]}`")
                    if arg_e is None:
                        ctx.gap("R12.1", f"{fi.short}: the document passed to `{unparse(c)[:60]}` cannot be identified")
                    elif _other_object(fi, arg_e) is True:
                        ctx.violation("R12.1", fi.short, f"context document {arg}", fi.where(c), f"{fi.short}: the colour context is not set from the document being encoded ({arg})")
                    elif _other_object(fi, arg_e) is None:
                        ctx.gap("R12.1", f"{fi.short}: whether `{arg}` passed to `{unparse(c)[:50]}` is the document being encoded cannot be told")
                    for st in (True, False):
                        if (fi.short, st) in precise and id(nd) in cc.flow(fi, st) and cc.flow(fi, st)[id(nd)]:
                            ctx.violation("R12.1", fi.short, "context re-bound " + unparse(c)[:60], fi.where(c),
                                          f"{fi.short} re-binds the colour context (`{unparse(c)[:60]}`) while one is already established; in multi-section documents it "
                                          "receives a per-section copy, so indices are numbered against a section's palette while the colour table is generated from the whole document")
            if not matched and nd in sets:
                # the state is written directly (no call): the re-bind check still applies
                txt = unparse(nd.ast)[:60]
                ctx.instance("R12.1", fi.where(nd.ast), f"{fi.short}: context state written directly by `{txt}`")
                for st in (True, False):
                    if (fi.short, st) in precise and id(nd) in cc.flow(fi, st) and cc.flow(fi, st)[id(nd)]:
                        ctx.violation("R12.1", fi.short, "context re-bound " + txt, fi.where(nd.ast),
                                      f"{fi.short} re-binds the colour context (`{txt}`) while one is already established")
    for msg in cc.unrecognised:
        ctx.gap("R12.1", msg)
    # the colour table is generated from the document being encoded
    for s in entered:
        fi = pm.funcs.get(s)
        if fi is None:
            continue
        params = [a.arg for a in list(fi.node.args.posonlyargs) + list(fi.node.args.args)]
        for c in walk_no_nested(fi.node):
            if isinstance(c, ast.Call) and _last(c) == "encode_color_table" and (c.args or c.keywords):
                arg_e = c.args[0] if c.args else next((k.value for k in c.keywords if k.arg == "document"), None)
                if arg_e is None:
                    continue
                arg = unparse(arg_e)
                ctx.instance("R12.1", fi.where(c), f"{fi.short}: encode_color_table({arg})")
                if _other_object(fi, arg_e) is True:
                    ctx.violation("R12.1", fi.short, f"colour table of {arg}", fi.where(c), f"{fi.short}: colour table is generated from {arg}, not from the document being encoded")
                elif _other_object(fi, arg_e) is None:
                    ctx.gap("R12.1", f"{fi.short}: whether `{arg}` passed to encode_color_table is the document being encoded cannot be told")
    ctx.floor("R12.1", 4)


def _rename(e: ast.AST, name: str) -> str:
    import copy
    e2 = copy.deepcopy(e)
    for n in ast.walk(e2):
        if isinstance(n, ast.Name) and n.id == name:
            n.id = "X"
    return unparse(e2)


def _conjuncts(e: ast.AST) -> list[ast.AST]:
    if isinstance(e, ast.BoolOp) and isinstance(e.op, ast.And):
        return [c for v in e.values for c in _conjuncts(v)]
    return [e]


def _excluded(conj: ast.AST, var: str):
    """the constants an element filter conjunct excludes (`x` -> '', `x != 'black'` -> 'black', `x not in ('', 'black')`),
    or None when the conjunct is not of a recognised form"""
    def is_var(e):
        return isinstance(e, ast.Name) and e.id == var

    def consts(e):
        if isinstance(e, ast.Constant):
            return {e.value}
        if isinstance(e, (ast.Tuple, ast.List, ast.Set)) and all(isinstance(x, ast.Constant) for x in e.elts):
            return {x.value for x in e.elts}
        return None
    if is_var(conj):
        return {""}
    if isinstance(conj, ast.Call) and dotted(conj.func) == "bool" and len(conj.args) == 1 and is_var(conj.args[0]):
        return {""}
    neg = False
    if isinstance(conj, ast.UnaryOp) and isinstance(conj.op, ast.Not):
        conj, neg = conj.operand, True
    if isinstance(conj, ast.Compare) and len(conj.ops) == 1:
        op, l, r = conj.ops[0], conj.left, conj.comparators[0]
        if isinstance(op, (ast.NotEq, ast.IsNot) if not neg else (ast.Eq, ast.Is)):
            other = r if is_var(l) else (l if is_var(r) else None)
            c = consts(other) if isinstance(other, ast.Constant) else None
            if c is not None:
                return {"" if x is None else x for x in c}
        if isinstance(op, ast.NotIn if not neg else ast.In) and is_var(l):
            c = consts(r)
            if c is not None:
                return {"" if x is None else x for x in c}
    return None


MEMBER = "<not a name of the master table>"


def _master_membership(pm, cg: CallGraph, fi, conj: ast.AST, var: str, depth: int = 2) -> bool:
    """the conjunct keeps exactly the names of the master colour table: `x in self._name_to_type` or a repo predicate
    whose single return is such a test of its argument"""
    if isinstance(conj, ast.Compare) and len(conj.ops) == 1 and isinstance(conj.ops[0], ast.In) and isinstance(conj.left, ast.Name) \
            and conj.left.id == var and re.fullmatch(r"(self|cls|color_service)\._name_to_(type|rtf|rgb)(\.keys\(\))?", unparse(conj.comparators[0])):
        return True
    if isinstance(conj, ast.Call) and len(conj.args) == 1 and not conj.keywords and isinstance(conj.args[0], ast.Name) and conj.args[0].id == var and depth > 0:
        before = id(conj) in cg.imprecise
        cands = cg.resolve_call(fi, conj)
        if len(cands) == 1 and not before and id(conj) not in cg.imprecise:
            g = cands[0]
            rets = [r.value for r in walk_no_nested(g.node) if isinstance(r, ast.Return) and r.value is not None]
            ps = [x.arg for x in g.node.args.args if x.arg not in ("self", "cls")]
            if len(rets) == 1 and len(ps) == 1:
                return _master_membership(pm, cg, g, rets[0], ps[0], depth - 1)
    return False


def _expand_membership(pm, pipes: list[dict]) -> None:
    """replace the membership token by the constants (of those any of the compared filters mentions, and '') that are not
    names of the master table; membership in the table also stands for validation (invalid names take no slot)"""
    if not any(p["excl"] is not None and MEMBER in p["excl"] for p in pipes):
        return
    tbl = const_name(pm, "rtflite.dictionary.color_table", "name_to_type")
    universe = {""} | {c for p in pipes if p["excl"] is not None for c in p["excl"] if c != MEMBER}
    for p in pipes:
        if p["excl"] is not None and MEMBER in p["excl"]:
            if tbl is NOC:
                p["excl"] = None
                continue
            p["excl"] = (p["excl"] - {MEMBER}) | {u for u in universe if u not in tbl}
            p["validate"] = True


def _key_class(key: ast.AST | None, fn: ast.AST, pm=None, cls: str | None = None):
    """None (natural order) | 'master' (ordered by the master colour index) | ('other', text)"""
    if key is None:
        return None
    if isinstance(key, ast.Lambda) and key.args.args:
        p = key.args.args[0].arg
        body = key.body
        used = {n.id for n in ast.walk(body) if isinstance(n, ast.Name)}
        if p not in used:
            # the parameter does not occur in the body: if the body uses exactly one name that is bound nowhere in the
            # enclosing function scope (only as a comprehension variable elsewhere) the renaming pass has detached the
            # parameter from its uses; treat that name as the parameter.  Anything else is a constant key.
            a = fn.args
            scope = {x.arg for x in list(a.posonlyargs) + list(a.args) + list(a.kwonlyargs)} | {"self", "cls"}
            scope |= {n.id for n in walk_no_nested(fn) if isinstance(n, ast.Name) and isinstance(n.ctx, ast.Store)
                      and not isinstance(getattr(n, "_parent", None), ast.comprehension)}
            free = [u for u in used if u not in scope]
            if len(free) == 1:
                p = free[0]
            else:
                return ("other", unparse(key))
        txt = _rename(body, p)
        if re.fullmatch(r"(self|cls)\._name_to_type\[X\]", txt) or re.fullmatch(r"(self|cls)\._name_to_type\.get\(X(, .*)?\)", txt) \
                or re.fullmatch(r"(self|cls)\.get_color_index\(X\)", txt):
            return "master"
        return ("other", txt)
    txt = unparse(key)
    if pm is not None and cls and isinstance(key, ast.Attribute) and isinstance(key.value, ast.Name) and key.value.id in ("self", "cls", cls):
        # a method used as the key: its single return decides
        m = pm.find_method(cls, key.attr)
        if m is not None:
            rets = [r.value for r in walk_no_nested(m.node) if isinstance(r, ast.Return) and r.value is not None]
            ps = [x.arg for x in m.node.args.args if x.arg not in ("self", "cls")]
            if len(rets) == 1 and len(ps) == 1:
                lam = ast.Lambda(args=ast.arguments(posonlyargs=[], args=[ast.arg(arg=ps[0])], kwonlyargs=[], kw_defaults=[], defaults=[]), body=rets[0])
                return _key_class(lam, m.node)
    if re.fullmatch(r"(self|cls)\._name_to_type\.(__getitem__|get)", txt) or re.fullmatch(r"(self|cls)\.get_color_index", txt):
        return "master"
    return ("other", txt)


def _describe(pm, cg: CallGraph, fi, e: ast.AST, depth: int = 3) -> dict:
    """how the list denoted by expression `e` of function `fi` is derived from its source: element filters (as the set of
    excluded constants, None = a filter that is not understood), validation, sort step.  Sees through temporaries, list()/tuple(),
    and calls of repo helpers whose single non-trivial return describes a list derived from one of their parameters."""
    from ..astmatch import assignments, mutated, resolve
    d = {"excl": set(), "validate": False, "sorted": False, "key": None, "src": None}

    def merge(inner):
        if inner["excl"] is None or d["excl"] is None:
            d["excl"] = None
        else:
            d["excl"] |= inner["excl"]
        d["validate"] = d["validate"] or inner["validate"]
        if inner["sorted"] and not d["sorted"]:
            d["sorted"], d["key"] = True, inner["key"]
        d["src"] = inner["src"]

    e = resolve(e, fi.node) if not isinstance(e, ast.Call) else e
    if isinstance(e, ast.Name):
        asg = assignments(fi.node).get(e.id, [])
        real = [v for v in asg if not (isinstance(v, (ast.List, ast.Tuple)) and not v.elts)]
        a = fi.node.args
        params = {x.arg for x in list(a.posonlyargs) + list(a.args) + list(a.kwonlyargs)}
        if e.id not in params and len(real) == 1 and not (isinstance(real[0], ast.Constant)) and depth > 0:
            # several assignments of which all but one are empty literals (`x = []` on the early-exit arm)
            merge(_describe(pm, cg, fi, real[0], depth - 1))
            for c in walk_no_nested(fi.node):
                # the list is sorted in place afterwards
                if isinstance(c, ast.Call) and isinstance(c.func, ast.Attribute) and c.func.attr == "sort" and isinstance(c.func.value, ast.Name) \
                        and c.func.value.id == e.id and not d["sorted"]:
                    kc = _key_class(next((k.value for k in c.keywords if k.arg == "key"), None), fi.node, pm, fi.cls)
                    rev = next((k.value for k in c.keywords if k.arg == "reverse"), None)
                    if rev is not None and not (isinstance(rev, ast.Constant) and rev.value is False):
                        kc = ("other", f"{kc} reversed")
                    d["sorted"], d["key"] = True, kc
            return d
        d["src"] = e.id
        return d
    if isinstance(e, (ast.ListComp, ast.GeneratorExp)) and len(e.generators) == 1 and isinstance(e.generators[0].target, ast.Name) \
            and isinstance(e.elt, ast.Name) and e.elt.id == e.generators[0].target.id:
        g = e.generators[0]
        merge(_describe(pm, cg, fi, g.iter, depth))
        for i in g.ifs:
            for c in _conjuncts(i):
                x = _excluded(c, g.target.id)
                if x is None and _master_membership(pm, cg, fi, c, g.target.id):
                    x = {MEMBER}
                if x is None or d["excl"] is None:
                    d["excl"] = None
                else:
                    d["excl"] |= x
        return d
    if isinstance(e, ast.Call):
        nm = _last(e)
        if dotted(e.func) == "sorted" and e.args:
            merge(_describe(pm, cg, fi, e.args[0], depth))
            rev = next((k.value for k in e.keywords if k.arg == "reverse"), None)
            kc = _key_class(next((k.value for k in e.keywords if k.arg == "key"), None), fi.node, pm, fi.cls)
            if rev is not None and not (isinstance(rev, ast.Constant) and rev.value is False):
                kc = ("other", f"{kc} reversed")
            d["sorted"], d["key"] = True, kc
            return d
        if dotted(e.func) in ("list", "tuple") and len(e.args) == 1:
            merge(_describe(pm, cg, fi, e.args[0], depth))
            return d
        if nm == "validate_color_list" and e.args:
            merge(_describe(pm, cg, fi, e.args[0], depth))
            d["validate"] = True
            return d
        if depth > 0:
            before = id(e) in cg.imprecise
            cands = cg.resolve_call(fi, e)
            if len(cands) == 1 and not before and id(e) not in cg.imprecise and cands[0].short != fi.short:
                g = cands[0]
                rets = [r.value for r in walk_no_nested(g.node) if isinstance(r, ast.Return) and r.value is not None
                        and not (isinstance(r.value, (ast.List, ast.Tuple)) and not r.value.elts)]
                if len(rets) == 1:
                    inner = _describe(pm, cg, g, rets[0], depth - 1)
                    ga = g.node.args
                    gparams = [x.arg for x in list(ga.posonlyargs) + list(ga.args) + list(ga.kwonlyargs)]
                    if inner["src"] in gparams and (inner["sorted"] or inner["validate"] or inner["excl"] != set()):
                        arg = bound_arg(e, g, inner["src"])
                        if arg is not None:
                            merge(_describe(pm, cg, fi, arg, depth - 1))
                            merge({**inner, "src": d["src"]})
                            return d
    d["src"] = unparse(e)[:60]
    return d


def _dense_pipelines(pm, cg: CallGraph, fi) -> list[dict]:
    """the expressions of a function that denote a sorted, filtered and/or validated colour list (through temporaries and
    repo helpers), each with the names it is bound to"""
    out = []
    covered: set[int] = set()
    for n in walk_no_nested(fi.node):
        if not isinstance(n, ast.Call) or id(n) in covered:
            continue
        if isinstance(n.func, ast.Attribute) and n.func.attr == "sort" and not n.args and isinstance(n.func.value, ast.Name):
            # in-place sort of a local list
            d = _describe(pm, cg, fi, n.func.value)
            d["sorted"], d["key"] = True, _key_class(next((k.value for k in n.keywords if k.arg == "key"), None), fi.node, pm, fi.cls)
            names = [n.func.value.id]
        else:
            d = _describe(pm, cg, fi, n)
            par = getattr(n, "_parent", None)
            names = [t.id for t in par.targets if isinstance(t, ast.Name)] if isinstance(par, ast.Assign) else []
        if not d["sorted"] or (d["excl"] == set() and not d["validate"]):
            continue
        for x in ast.walk(n):
            covered.add(id(x))
        out.append({"node": n, "excl": d["excl"], "validate": d["validate"], "key": d["key"], "names": names})
    return out


def _context_index_maps(pm, cg: CallGraph, cc_state_fn) -> list[dict]:
    """returns of the lookup that read a mapping out of a module-level ContextVar (`CV.get()` ... `.get(color, 0)` / `[color]`):
    the value flows from every `CV.set(E)` in the package; E is followed (conditional expressions, repo helpers) to a dict
    comprehension `{name: pos for pos, name in enumerate(L, start)}`, i.e. position in L + start"""
    from ..astmatch import resolve
    idx = cc_state_fn
    out = []
    seen = set()
    for r in walk_no_nested(idx.node):
        if not (isinstance(r, ast.Return) and r.value is not None):
            continue
        v = resolve(r.value, idx.node)
        for x in ast.walk(v):
            cvget = None
            if isinstance(x, ast.Call) and isinstance(x.func, ast.Attribute) and x.func.attr == "get" and x.args:
                cvget = x.func.value
            elif isinstance(x, ast.Subscript):
                cvget = x.value
            if not (isinstance(cvget, ast.Call) and isinstance(cvget.func, ast.Attribute) and cvget.func.attr == "get" and isinstance(cvget.func.value, ast.Name)):
                continue
            var = cvget.func.value.id
            rr = pm.resolve(idx.module, var)
            if not (rr and rr[0] == "value" and isinstance(rr[1][1], ast.Call) and dotted(rr[1][1].func).split(".")[-1] == "ContextVar") or var in seen:
                continue
            seen.add(var)
            writers = []
            for f in pm.iter_funcs():
                if f.module != rr[1][0].name:
                    continue
                for c in walk_no_nested(f.node):
                    if isinstance(c, ast.Call) and isinstance(c.func, ast.Attribute) and c.func.attr == "set" and isinstance(c.func.value, ast.Name) \
                            and c.func.value.id == var and c.args:
                        alts = [c.args[0]]
                        while any(isinstance(a, ast.IfExp) for a in alts):
                            alts = [b for a in alts for b in ((a.body, a.orelse) if isinstance(a, ast.IfExp) else (a,))]
                        writers += [(f, a) for a in alts if not _is_none(a)]
            if not writers:
                out.append({"gap": f"{idx.short} reads a mapping from {var} but no writer of it could be found"})
            for f, e in writers:
                out.append(_index_map(pm, cg, f, e, var))
    return out


def _index_map(pm, cg: CallGraph, f, e: ast.AST, var: str, depth: int = 2) -> dict:
    from ..astmatch import resolve
    e = resolve(e, f.node) if not isinstance(e, ast.Call) else e
    if isinstance(e, ast.Call) and depth > 0 and dotted(e.func) not in ("dict",):
        before = id(e) in cg.imprecise
        cands = cg.resolve_call(f, e)
        if len(cands) == 1 and not before and id(e) not in cg.imprecise:
            g = cands[0]
            rets = [r.value for r in walk_no_nested(g.node) if isinstance(r, ast.Return) and r.value is not None]
            if len(rets) == 1:
                return _index_map(pm, cg, g, rets[0], var, depth - 1)
    if isinstance(e, ast.Call) and dotted(e.func) == "dict" and len(e.args) == 1 and isinstance(e.args[0], (ast.GeneratorExp, ast.ListComp)) \
            and isinstance(e.args[0].elt, ast.Tuple) and len(e.args[0].elt.elts) == 2:
        comp = e.args[0]
        e = ast.DictComp(key=comp.elt.elts[0], value=comp.elt.elts[1], generators=comp.generators)
    if isinstance(e, ast.DictComp) and len(e.generators) == 1 and not e.generators[0].ifs:
        g = e.generators[0]
        it = g.iter
        if isinstance(it, ast.Call) and dotted(it.func) == "enumerate" and it.args and isinstance(g.target, ast.Tuple) and len(g.target.elts) == 2 \
                and all(isinstance(t, ast.Name) for t in g.target.elts) and isinstance(e.key, ast.Name) and e.key.id == g.target.elts[1].id:
            start = it.args[1] if len(it.args) > 1 else next((k.value for k in it.keywords if k.arg == "start"), ast.Constant(value=0))
            from ..linform import linform
            lf = linform(e.value)
            pos = g.target.elts[0].id
            if isinstance(start, ast.Constant) and isinstance(start.value, int) and set(lf) <= {pos, ""} and lf.get(pos) == 1:
                d = _describe(pm, cg, f, it.args[0])
                if d["sorted"]:
                    return {"var": var, "where": f.where(e), "offset": start.value + int(lf.get("", 0)),
                            "pipe": {"node": e, "excl": d["excl"], "validate": d["validate"], "key": d["key"], "names": []}}
    return {"gap": f"{f.short}: the mapping stored in {var} (`{unparse(e)[:60]}`) could not be related to a position in a sorted colour list"}


def _show_pipe(p: dict) -> str:
    f = "not understood" if p["excl"] is None else "drops " + str(sorted(map(repr, p["excl"])))
    return f"filter {f} validate={p['validate']} sort key {p['key']}"


def r12_2(ctx: Ctx, cg: CallGraph) -> None:
    from ..astmatch import assignments, guard_atoms, guards, mutated, resolve
    from ..linform import linform
    pm = ctx.pm
    gen = pm.func("ColorService.generate_rtf_color_table")
    idx = pm.func("ColorService.get_rtf_color_index")
    pgs, pis = _dense_pipelines(pm, cg, gen), _dense_pipelines(pm, cg, idx)
    for _ in range(2):
        if pis:
            break
        # the position may be computed by a helper whose result is returned as it is: analyse the helper in its place
        nxt = None
        for r in walk_no_nested(idx.node):
            if isinstance(r, ast.Return) and isinstance(r.value, ast.Call):
                before = id(r.value) in cg.imprecise
                cands = cg.resolve_call(idx, r.value)
                if len(cands) == 1 and not before and id(r.value) not in cg.imprecise and _dense_pipelines(pm, cg, cands[0]):
                    h = cands[0]
                    ha = h.node.args
                    passed = [bound_arg(r.value, h, x.arg) for x in list(ha.posonlyargs) + list(ha.args) if x.arg not in ("self", "cls")]
                    if all(a is not None and isinstance(resolve(a, idx.node), (ast.Name, ast.IfExp, ast.Attribute, ast.Call)) and
                           not any(isinstance(x, (ast.ListComp, ast.GeneratorExp)) or (isinstance(x, ast.Call) and dotted(x.func) in ("sorted", "filter"))
                                   for x in ast.walk(resolve(a, idx.node))) for a in passed):
                        nxt = h
        if nxt is None:
            break
        ctx.instance("R12.2", idx.where(), f"{idx.short} returns the position computed by {nxt.short}", nontrivial=False)
        idx = nxt
        pis = _dense_pipelines(pm, cg, idx)
    if len(pgs) != 1 or len(pis) != 1:
        ctx.gap("R12.2", f"the filter/validate/sort pipeline could not be re-identified ({len(pgs)} in {gen.short}, {len(pis)} in {idx.short})")
        return
    pg, pi = pgs[0], pis[0]
    ctx_maps = _context_index_maps(pm, cg, cc_state_fn=idx)
    _expand_membership(pm, [pg, pi] + [m["pipe"] for m in ctx_maps if m.get("pipe")])
    ctx.instance("R12.2", gen.where(), "table pipeline: " + _show_pipe(pg))
    ctx.instance("R12.2", idx.where(), "index pipeline: " + _show_pipe(pi))
    understood = True
    for fi, p in ((gen, pg), (idx, pi)):
        if p["excl"] is None:
            understood = False
            ctx.gap("R12.2", f"{fi.short}: an element filter of the colour pipeline is not of a recognised form")
        if p["key"] is None:
            ctx.violation("R12.2", fi.short, "sort key None", fi.where(p["node"]), "dense colour list is not ordered by the master index")
        elif p["key"] != "master":
            understood = False
            ctx.gap("R12.2", f"{fi.short}: sort key `{p['key'][1]}` is not recognised as the master index")
    if understood and (pg["excl"], pg["validate"], pg["key"]) != (pi["excl"], pi["validate"], pi["key"]):
        ctx.violation("R12.2", "ColorService", f"pipelines differ: {_show_pipe(pg)} vs {_show_pipe(pi)}", idx.where(),
                      f"colour table and colour index are computed by different pipelines: table {_show_pipe(pg)}, index {_show_pipe(pi)}")
    # ---- a second index path: a position map precomputed into a ContextVar and read back by the lookup
    for m in ctx_maps:
        if m.get("gap"):
            ctx.gap("R12.2", m["gap"])
            continue
        mp = m["pipe"]
        ctx.instance("R12.2", m["where"], f"index map held in {m['var']}: position + {m['offset']} in a list with " + _show_pipe(mp))
        if m["offset"] != 1:
            ctx.violation("R12.2", idx.short, f"index map offset {m['offset']}", m["where"], f"the precomputed index map numbers the sorted colours from {m['offset']}, the table's first colour entry is number 1")
        if mp["excl"] is None or mp["key"] not in (None, "master"):
            ctx.gap("R12.2", f"the pipeline behind the index map in {m['var']} is not of a recognised form")
        elif mp["key"] is None:
            ctx.violation("R12.2", idx.short, "index map sort key None", m["where"], "the precomputed index map is not ordered by the master index")
        elif understood and (pg["excl"], pg["validate"], pg["key"]) != (mp["excl"], mp["validate"], mp["key"]):
            ctx.violation("R12.2", "ColorService", f"pipelines differ: {_show_pipe(pg)} vs index map {_show_pipe(mp)}", m["where"],
                          f"colour table and the precomputed colour index map are computed by different pipelines: table {_show_pipe(pg)}, index map {_show_pipe(mp)}")
    # ---- table: one entry per sorted colour, unconditionally, after a single leading default entry
    S = set(pg["names"])
    asg = assignments(gen.node)
    mut = mutated(gen.node)
    derived = set(S)
    for _ in range(4):
        for nm, vals in asg.items():
            if nm not in derived and any(isinstance(x, ast.Name) and x.id in derived for v in vals for x in ast.walk(v)):
                derived.add(nm)

    def classify(e, depth=5):
        while isinstance(e, ast.Call) and isinstance(e.func, ast.Name) and e.func.id in ("list", "tuple", "iter", "enumerate") and e.args:
            e = e.args[0]
        if isinstance(e, ast.Name) and e.id in S:
            return ("same", None)
        if e is pg["node"]:
            return ("same", None)
        if isinstance(e, ast.Name) and depth > 0 and e.id not in mut and len(asg.get(e.id, [])) == 1 and not isinstance(asg[e.id][0], ast.Constant):
            return classify(asg[e.id][0], depth - 1)
        if isinstance(e, (ast.ListComp, ast.GeneratorExp)) and len(e.generators) == 1:
            c = classify(e.generators[0].iter, depth - 1)
            if c and c[0] in ("same", "mapped"):
                return ("filtered", unparse(e)[:60]) if e.generators[0].ifs else ("mapped", e.elt)
            return c
        if any(isinstance(x, ast.Name) and x.id in derived for x in ast.walk(e)):
            # a derivative of the sorted colours: lossy when it de-duplicates, filters or slices (positive evidence);
            # any other operation is not modelled
            lossy = (isinstance(e, ast.Call) and (dotted(e.func) in ("set", "frozenset", "filter", "dict.fromkeys", "OrderedDict.fromkeys", "itertools.islice", "islice")
                                                  or (isinstance(e.func, ast.Attribute) and e.func.attr in ("fromkeys", "unique")))) \
                or (isinstance(e, ast.Subscript) and isinstance(e.slice, ast.Slice)) \
                or isinstance(e, (ast.SetComp, ast.DictComp))
            return ("derived" if lossy else "unknown", unparse(e)[:60])
        return None

    consumers = 0
    accs: set[str] = set()
    for lp in [n for n in walk_no_nested(gen.node) if isinstance(n, ast.For)]:
        c = classify(lp.iter)
        if c is None:
            continue
        apps = [x for st in lp.body for x in ast.walk(st) if isinstance(x, ast.Call) and isinstance(x.func, ast.Attribute) and x.func.attr in ("append", "extend", "insert")]
        aug = [x for st in lp.body for x in ast.walk(st) if isinstance(x, ast.AugAssign)]
        if not apps and not aug:
            continue
        consumers += 1
        accs.update(x.func.value.id for x in apps if isinstance(x.func.value, ast.Name))
        if c[0] == "unknown":
            ctx.gap("R12.2", f"{gen.short}: the table loop iterates `{c[1]}`, a derivative of the sorted colours that is not modelled")
            continue
        if c[0] in ("derived", "filtered"):
            ctx.instance("R12.2", gen.where(lp), f"dense table loop iterates `{c[1]}`, not the sorted colours themselves")
            ctx.violation("R12.2", gen.short, "dense loop", gen.where(lp),
                          f"the dense colour table is built from `{c[1]}`, a filtered / de-duplicated derivative of the sorted colours, while the index counts one position per sorted colour")
            continue
        # an entry is conditional when the append itself is guarded inside the loop, or the iteration can be cut short
        cond = [x for st in lp.body for x in ast.walk(st) if isinstance(x, (ast.Continue, ast.Break))]
        cond += [x for x in apps + aug if guards(x, lp)]
        ctx.instance("R12.2", gen.where(lp), f"dense table loop: {len(apps) + len(aug)} append(s), conditional constructs: {len(cond)}")
        if not cond and len(apps) + len(aug) != 1:
            ctx.gap("R12.2", f"{gen.short}: the table loop appends {len(apps) + len(aug)} pieces per colour; one entry per colour could not be established")
            continue
        if cond:
            ctx.violation("R12.2", gen.short, "conditional table entry", gen.where(lp),
                          "the dense colour table does not emit exactly one entry per sorted colour (entries are skipped or added "
                          "conditionally) while the index counts one position per colour")
            continue
        entry = apps[0].args[-1] if apps else aug[0].value
        shown = unparse(resolve(entry, gen.node)) + (" <- " + unparse(c[1]) if c[0] == "mapped" else "")
        if "_name_to_rtf" not in shown and "rtf_code" not in shown:
            ctx.gap("R12.2", f"{gen.short}: table entry `{shown[:80]}` is not recognised as the master RTF definition of the colour")
    for x in walk_no_nested(gen.node):
        # comprehension forms: acc.extend(f(c) for c in sorted) / "".join(f(c) for c in sorted)
        if isinstance(x, ast.Call) and isinstance(x.func, ast.Attribute) and x.func.attr in ("extend", "join") and x.args \
                and isinstance(x.args[0], (ast.ListComp, ast.GeneratorExp)):
            c = classify(x.args[0])
            if c is None:
                continue
            consumers += 1
            if x.func.attr == "extend" and isinstance(x.func.value, ast.Name):
                accs.add(x.func.value.id)
            ctx.instance("R12.2", gen.where(x), f"dense table entries by comprehension: {c[0]}")
            if c[0] == "unknown":
                ctx.gap("R12.2", f"{gen.short}: table entries are built from `{c[1]}`, a derivative of the sorted colours that is not modelled")
            elif c[0] in ("derived", "filtered"):
                ctx.violation("R12.2", gen.short, "conditional table entry" if c[0] == "filtered" else "dense loop", gen.where(x),
                              f"the dense colour table is built from `{c[1]}`: not one entry per sorted colour, while the index counts one position per colour")
            elif "_name_to_rtf" not in unparse(c[1]) and "rtf_code" not in unparse(c[1]):
                ctx.gap("R12.2", f"{gen.short}: table entry `{unparse(c[1])[:80]}` is not recognised as the master RTF definition of the colour")
    if consumers == 0:
        # entries built by a comprehension bound to a name / spliced into the joined list
        for x in walk_no_nested(gen.node):
            if isinstance(x, (ast.ListComp, ast.GeneratorExp)) and not isinstance(x.elt, ast.Name):
                c = classify(x)
                if c is None:
                    continue
                consumers += 1
                ctx.instance("R12.2", gen.where(x), f"dense table entries by comprehension: {c[0]}")
                if c[0] == "unknown":
                    ctx.gap("R12.2", f"{gen.short}: table entries are built from `{c[1]}`, a derivative of the sorted colours that is not modelled")
                elif c[0] in ("derived", "filtered"):
                    ctx.violation("R12.2", gen.short, "conditional table entry" if c[0] == "filtered" else "dense loop", gen.where(x),
                                  f"the dense colour table is built from `{c[1]}`: not one entry per sorted colour, while the index counts one position per colour")
                elif "_name_to_rtf" not in unparse(c[1]) and "rtf_code" not in unparse(c[1]):
                    ctx.gap("R12.2", f"{gen.short}: table entry `{unparse(c[1])[:80]}` is not recognised as the master RTF definition of the colour")
    if consumers == 0:
        ctx.gap("R12.2", f"{gen.short}: no loop or comprehension turning the sorted colours into table entries could be re-identified")
    for nm in sorted(accs or {"rtf_parts"}):
        for h in asg.get(nm, []):
            if not isinstance(h, ast.List):
                continue
            txt = unparse(h)
            try:
                lit = ast.literal_eval(h)
            except Exception:
                lit = None
            ctx.instance("R12.2", gen.where(h), f"colour table head {txt}")
            if lit is None:
                ctx.gap("R12.2", f"{gen.short}: colour table head `{txt[:60]}` is not a literal")
            elif not (len(lit) == 1 and isinstance(lit[0], str) and lit[0].replace("\n", "") == "{\\colortbl;"):
                ctx.violation("R12.2", gen.short, "table head " + txt, gen.where(h), f"colour table must start with the group opener and exactly one default entry, found {txt}")
    # ---- index = position in the sorted list + 1
    rets = [r for r in walk_no_nested(idx.node) if isinstance(r, ast.Return) and r.value is not None]
    pos_rets = []
    for r in rets:
        v = resolve(r.value, idx.node)
        for c in ast.walk(v):
            if isinstance(c, ast.Call) and isinstance(c.func, ast.Attribute) and c.func.attr == "index" and len(c.args) == 1:
                pos_rets.append((r, v, c))
                break
    ctx.instance("R12.2", idx.where(), f"index returns {[unparse(r.value) for r in rets]}")
    if not pos_rets:
        ctx.gap("R12.2", f"{idx.short}: no return computing a position with .index() could be re-identified")
    for r, v, c in pos_rets:
        lf = linform(v)
        term = unparse(c)
        if lf != {term: 1, "": 1}:
            if set(lf) <= {term, ""}:
                ctx.violation("R12.2", idx.short, f"returns {[unparse(r.value)]}", idx.where(r), f"dense colour index `{unparse(r.value)}` is not `position in the sorted list + 1`")
            else:
                ctx.gap("R12.2", f"{idx.short}: `{unparse(r.value)[:60]}` is not a linear function of the position alone")
        base = c.func.value
        # resolve() has already replaced a single-assignment name by its defining expression
        if not ((isinstance(base, ast.Name) and base.id in pi["names"]) or ast.dump(base) == ast.dump(resolve(pi["node"], idx.node))):
            bd = _describe(pm, cg, idx, base)
            plain = isinstance(bd["src"], str) and bd["src"].isidentifier()
            if bd["sorted"] and (bd["excl"], bd["validate"], bd["key"]) == (pi["excl"], pi["validate"], pi["key"]):
                pass
            elif not bd["sorted"] and plain and not (isinstance(base, ast.Name) and base.id in mutated(idx.node)):
                ctx.violation("R12.2", idx.short, f"position in {unparse(base)[:40]}", idx.where(r), f"the position is taken in `{unparse(base)[:60]}`, not in the list sorted by the master index")
            else:
                ctx.gap("R12.2", f"{idx.short}: the list searched by `{unparse(r.value)[:60]}` could not be matched with the sorted pipeline")
    # ---- black / empty -> 0: in the emitters' lookup or in the service
    sink = pm.func(SINK)
    ok0 = []
    for fi in (sink, idx):
        for r in walk_no_nested(fi.node):
            if isinstance(r, ast.Return) and isinstance(r.value, ast.Constant) and r.value.value == 0 and type(r.value.value) is int:
                if any("'black'" in a or '"black"' in a for a in guard_atoms(guards(r, fi.node), fi.node)):
                    ok0.append(fi.short)
    ctx.instance("R12.2", sink.where(), f"default colour short-circuit (empty/black -> 0) in {sorted(set(ok0))}")
    if not ok0:
        ctx.gap("R12.2", f"no `return 0` guarded by a test for 'black' found in {sink.short} / {idx.short}")
    # ---- emitters reference indices only through the sink
    for fi in pm.iter_funcs():
        for node in walk_no_nested(fi.node):
            if isinstance(node, ast.JoinedStr):
                for i, v in enumerate(node.values):
                    if isinstance(v, ast.Constant) and isinstance(v.value, str) and re.search(r"\\(cf|cb|chcbpat|brdrcf|highlight|clcbpat|clcfpat)$", v.value):
                        nxt = node.values[i + 1] if i + 1 < len(node.values) else None
                        if isinstance(nxt, ast.FormattedValue):
                            txt = unparse(resolve(nxt.value, fi.node))
                            ok = "_get_color_index" in txt or LOOKUP in txt
                            ctx.instance("R12.2", fi.where(node), f"{fi.short}: colour control word {v.value[-8:]} parameter <- {txt}")
                            if not ok and any(isinstance(x, ast.Call) for x in ast.walk(resolve(nxt.value, fi.node))):
                                ctx.gap("R12.2", f"{fi.short}: the parameter of {v.value[-8:]} comes from `{txt[:60]}`, a call that is not recognised as the colour lookup")
                            elif not ok:
                                ctx.violation("R12.2", fi.short, f"{v.value[-8:]} <- {txt}", fi.where(node),
                                              f"{fi.short}: colour reference {v.value[-8:]} takes a raw value, it is not produced by {SINK}")
    ctx.floor("R12.2", 8)


class PathFlow:
    """May-analysis: which attribute paths rooted at a parameter flow into the value a function returns or yields.
    The function's syntax tree is interpreted over sets of items ('p', path) / ('s', string constant); containers and
    their elements are collapsed, control flow is ignored (every statement may run), repo callees - methods, static
    helpers, generators, nested closures that fill a variable of the enclosing function - are interpreted with their
    arguments bound, external calls hand on the union of receiver and arguments.  `getattr(x, name)` needs the possible
    names as string constants (a literal, a loop variable over a constant tuple, a module constant)."""
    MUT = {"add", "append", "update", "extend", "insert", "setdefault", "appendleft", "union_update"}
    OPAQUE = {"isinstance", "len", "bool", "type", "hasattr", "callable", "id", "print", "repr", "range"}

    def __init__(self, pm, cg: CallGraph):
        self.pm, self.cg = pm, cg
        self.unknown: list[str] = []
        self.stack: list = []

    class Env:
        def __init__(self, parent=None):
            self.v: dict[str, set] = {}
            self.parent = parent

        def find(self, name):
            e = self
            while e is not None:
                if name in e.v:
                    return e
                e = e.parent
            return None

        def add(self, name, items, local=True):
            e = self.find(name) if not local else (self.find(name) or self)
            (e or self).v.setdefault(name, set()).update(items)

    def run(self, fi, args: dict[str, set], parent: "PathFlow.Env | None" = None, out: dict | None = None) -> set:
        key = (fi.short, tuple(sorted((k, tuple(sorted(v))) for k, v in args.items())))
        if key in self.stack or len(self.stack) > 12:
            return set()
        self.stack.append(key)
        env = PathFlow.Env(parent)
        for k, v in args.items():
            env.v[k] = set(v)
        ret: set = set()
        for _ in range(2):
            self._block(fi, fi.node.body, env, ret)
        self.stack.pop()
        if out is not None:
            out.update({k: set(v) for k, v in env.v.items() if k in args})
        return ret

    # ---- statements
    def _bind(self, fi, target, items, env):
        if isinstance(target, ast.Name):
            env.add(target.id, items)
        elif isinstance(target, (ast.Tuple, ast.List)):
            for e in target.elts:
                self._bind(fi, e, items, env)
        elif isinstance(target, ast.Starred):
            self._bind(fi, target.value, items, env)
        elif isinstance(target, (ast.Attribute, ast.Subscript)):
            base = target
            while isinstance(base, (ast.Attribute, ast.Subscript)):
                base = base.value
            if isinstance(base, ast.Name) and isinstance(target, ast.Subscript):
                env.add(base.id, items)

    def _block(self, fi, stmts, env, ret):
        for s in stmts:
            if isinstance(s, (ast.FunctionDef, ast.AsyncFunctionDef, ast.ClassDef, ast.Import, ast.ImportFrom, ast.Pass, ast.Break, ast.Continue)):
                continue
            if isinstance(s, ast.Assign):
                v = self.ev(fi, s.value, env, ret)
                for t in s.targets:
                    self._bind(fi, t, v, env)
            elif isinstance(s, ast.AnnAssign):
                if s.value is not None:
                    self._bind(fi, s.target, self.ev(fi, s.value, env, ret), env)
            elif isinstance(s, ast.AugAssign):
                self._bind(fi, s.target, self.ev(fi, s.value, env, ret), env)
            elif isinstance(s, ast.Return):
                if s.value is not None:
                    ret.update(self.ev(fi, s.value, env, ret))
            elif isinstance(s, (ast.For, ast.AsyncFor)):
                items = self.ev(fi, s.iter, env, ret)
                for n in ast.walk(s.target):
                    # a loop variable is re-bound by its loop: forget what an earlier loop left in it
                    if isinstance(n, ast.Name) and isinstance(n.ctx, ast.Store):
                        (env.find(n.id) or env).v[n.id] = set()
                self._bind(fi, s.target, items, env)
                for _ in range(2):
                    self._block(fi, s.body, env, ret)
                self._block(fi, s.orelse, env, ret)
            elif isinstance(s, ast.While):
                self.ev(fi, s.test, env, ret)
                for _ in range(2):
                    self._block(fi, s.body, env, ret)
                self._block(fi, s.orelse, env, ret)
            elif isinstance(s, ast.If):
                self.ev(fi, s.test, env, ret)
                self._block(fi, s.body, env, ret)
                self._block(fi, s.orelse, env, ret)
            elif isinstance(s, (ast.With, ast.AsyncWith)):
                for it in s.items:
                    v = self.ev(fi, it.context_expr, env, ret)
                    if it.optional_vars is not None:
                        self._bind(fi, it.optional_vars, v, env)
                self._block(fi, s.body, env, ret)
            elif isinstance(s, ast.Try):
                self._block(fi, s.body, env, ret)
                for h in s.handlers:
                    self._block(fi, h.body, env, ret)
                self._block(fi, s.orelse, env, ret)
                self._block(fi, s.finalbody, env, ret)
            elif isinstance(s, ast.Expr):
                self.ev(fi, s.value, env, ret)
            elif isinstance(s, ast.Match):
                v = self.ev(fi, s.subject, env, ret)
                for case in s.cases:
                    for n in ast.walk(case.pattern):
                        nm = getattr(n, "name", None)
                        if isinstance(nm, str):
                            env.add(nm, v)
                    self._block(fi, case.body, env, ret)
            elif isinstance(s, (ast.Raise, ast.Assert, ast.Delete, ast.Global, ast.Nonlocal)):
                continue

    # ---- expressions
    def ev(self, fi, e, env, ret) -> set:
        if e is None:
            return set()
        if isinstance(e, ast.Constant):
            return {("s", e.value)} if isinstance(e.value, str) else set()
        if isinstance(e, ast.Name):
            holder = env.find(e.id)
            if holder is not None:
                return set(holder.v[e.id])
            r = self.pm.resolve(fi.module, e.id)
            if r and r[0] == "value":
                c = const_name(self.pm, fi.module, e.id)
                if c is not NOC:
                    out = set()

                    def strs(x):
                        if isinstance(x, str):
                            out.add(("s", x))
                        elif isinstance(x, (list, tuple, set, frozenset)):
                            for y in x:
                                strs(y)
                        elif isinstance(x, dict):
                            for y in list(x) + list(x.values()):
                                strs(y)
                    strs(c)
                    return out
            return set()
        if isinstance(e, ast.Attribute):
            return {("p", it[1] + (e.attr,)) for it in self.ev(fi, e.value, env, ret) if it[0] == "p"}
        if isinstance(e, ast.Subscript):
            self.ev(fi, e.slice, env, ret)
            return self.ev(fi, e.value, env, ret)
        if isinstance(e, (ast.List, ast.Tuple, ast.Set)):
            return set().union(*[self.ev(fi, x, env, ret) for x in e.elts]) if e.elts else set()
        if isinstance(e, ast.Dict):
            return set().union(*[self.ev(fi, x, env, ret) for x in e.values]) if e.values else set()
        if isinstance(e, ast.Starred):
            return self.ev(fi, e.value, env, ret)
        if isinstance(e, ast.IfExp):
            self.ev(fi, e.test, env, ret)
            return self.ev(fi, e.body, env, ret) | self.ev(fi, e.orelse, env, ret)
        if isinstance(e, ast.BoolOp):
            return set().union(*[self.ev(fi, x, env, ret) for x in e.values])
        if isinstance(e, ast.BinOp):
            return self.ev(fi, e.left, env, ret) | self.ev(fi, e.right, env, ret)
        if isinstance(e, ast.UnaryOp):
            self.ev(fi, e.operand, env, ret)
            return set()
        if isinstance(e, ast.Compare):
            self.ev(fi, e.left, env, ret)
            for c in e.comparators:
                self.ev(fi, c, env, ret)
            return set()
        if isinstance(e, ast.NamedExpr):
            v = self.ev(fi, e.value, env, ret)
            self._bind(fi, e.target, v, env)
            return v
        if isinstance(e, (ast.ListComp, ast.SetComp, ast.GeneratorExp, ast.DictComp)):
            inner = PathFlow.Env(env)
            for _ in range(2):
                for g in e.generators:
                    items = self.ev(fi, g.iter, inner, ret)
                    for n in ast.walk(g.target):
                        if isinstance(n, ast.Name):
                            inner.v.setdefault(n.id, set()).update(items)
                    for c in g.ifs:
                        self.ev(fi, c, inner, ret)
            if isinstance(e, ast.DictComp):
                return self.ev(fi, e.value, inner, ret)
            return self.ev(fi, e.elt, inner, ret)
        if isinstance(e, ast.Yield):
            ret.update(self.ev(fi, e.value, env, ret))
            return set()
        if isinstance(e, ast.YieldFrom):
            ret.update(self.ev(fi, e.value, env, ret))
            return set()
        if isinstance(e, ast.Await):
            return self.ev(fi, e.value, env, ret)
        if isinstance(e, ast.Call):
            return self._call(fi, e, env, ret)
        return set()

    def _call(self, fi, c: ast.Call, env, ret) -> set:
        d = dotted(c.func)
        argv = [self.ev(fi, a, env, ret) for a in c.args]
        kwv = {k.arg: self.ev(fi, k.value, env, ret) for k in c.keywords}
        if d == "getattr" and len(c.args) >= 2:
            names = [it[1] for it in argv[1] if it[0] == "s"]
            if not names:
                self.unknown.append(f"{fi.short}: attribute name of `{unparse(c)[:60]}` is not a known constant")
            out = {("p", it[1] + (n,)) for it in argv[0] if it[0] == "p" for n in names}
            return out | (argv[2] if len(argv) > 2 else set())
        if d in self.OPAQUE:
            return set()
        recv = self.ev(fi, c.func.value, env, ret) if isinstance(c.func, ast.Attribute) else set()
        if isinstance(c.func, ast.Attribute) and c.func.attr in self.MUT and isinstance(c.func.value, ast.Name) \
                and not self.cg.resolve_call(fi, c):
            items = set().union(*argv) if argv else set()
            for v in kwv.values():
                items |= v
            env.add(c.func.value.id, items, local=False)
            return set()
        before = id(c) in self.cg.imprecise
        cands = self.cg.resolve_call(fi, c)
        if cands and (before or id(c) in self.cg.imprecise):
            cands = []                               # resolved by method name only: treat as external
        if cands and len(cands) <= 4:
            out = set()
            for callee in cands:
                a = callee.node.args
                pos = [x.arg for x in list(a.posonlyargs) + list(a.args)]
                args: dict[str, set] = {}
                if callee.cls and callee.parent is None and not callee.is_static and pos:
                    args[pos[0]] = recv
                    pos = pos[1:]
                for nm, v in zip(pos, argv):
                    args[nm] = v
                if a.vararg is not None and len(argv) > len(pos):
                    args[a.vararg.arg] = set().union(*argv[len(pos):])
                for nm, v in kwv.items():
                    if nm is not None:
                        args[nm] = v
                for nm in pos + [x.arg for x in a.kwonlyargs]:
                    args.setdefault(nm, set())
                parent = env if callee.parent is not None else None
                final: dict = {}
                out |= self.run(callee, args, parent, final)
                # out-parameters: what the callee put into a container it was handed flows back into the caller's variable
                exprs = dict(zip(pos, c.args))
                exprs.update({k.arg: k.value for k in c.keywords if k.arg})
                for nm, ex in exprs.items():
                    if isinstance(ex, ast.Name) and nm in final:
                        grown = final[nm] - args.get(nm, set())
                        if grown:
                            env.add(ex.id, grown, local=False)
            return out
        out = set(recv)
        for v in argv:
            out |= v
        for v in kwv.values():
            out |= v
        return out


def emitted_colour_attributes(pm) -> set[str]:
    """colour attributes that emitters turn into indices: bound to TextContent.color / background_color / Border.color"""
    from ..astmatch import resolve
    emitted = set()
    for fi in pm.iter_funcs():
        for c in walk_no_nested(fi.node):
            if isinstance(c, ast.Call) and _last(c) in ("TextContent", "Border"):
                for k in c.keywords:
                    if k.arg not in ("color", "background_color"):
                        continue
                    v = resolve(k.value, fi.node) if isinstance(k.value, ast.Name) else k.value
                    if isinstance(v, ast.Call):
                        for a in list(v.args) + [kk.value for kk in v.keywords]:
                            if isinstance(a, ast.Constant) and isinstance(a.value, str) and "color" in a.value:
                                emitted.add(a.value)
    return emitted


def r12_3(ctx: Ctx, cg: CallGraph) -> None:
    pm = ctx.pm
    col = pm.func("ColorService.collect_document_colors")
    doc_fields = pm.all_fields("RTFDocument")
    comp_fields = {}
    for f, decl in doc_fields.items():
        ann = unparse(decl.annotation)
        cs = [t for t in re.findall(r"[A-Za-z_][A-Za-z_0-9]*", ann) if t in pm.classes and "TextAttributes" in pm.mro(t)]
        if cs:
            comp_fields[f] = cs
    emitted = emitted_colour_attributes(pm)
    a = col.node.args
    params = [x.arg for x in list(a.posonlyargs) + list(a.args)]
    if col.cls and not col.is_static:
        params = params[1:]
    if not params:
        ctx.gap("R12.3", f"{col.short} takes no document parameter")
        return
    pf = PathFlow(pm, cg)
    got = pf.run(col, {params[0]: {("p", ())}})
    pairs = {it[1] for it in got if it[0] == "p" and len(it[1]) == 2}
    ctx.extra["collected_pairs"] = sorted(".".join(p) for p in pairs)
    # a component (or the document) that reaches the result as a whole went through something the interpretation does not
    # model (an external callable, attrgetter ...): what is read from it is unknown, not "nothing"
    opaque = {it[1][0] if it[1] else "*" for it in got if it[0] == "p" and len(it[1]) < 2}
    ctx.extra["opaque_components"] = sorted(opaque)

    def report(f, offending, msg):
        if "*" in opaque or (f is not None and f in opaque) or (f is None and opaque):
            ctx.gap("R12.3", f"{col.short}: {offending}: document{'.' + f if f else ''} flows into the result through a construct that is not modelled")
        else:
            ctx.violation("R12.3", col.short, offending, col.where(), msg)
    for msg in dict.fromkeys(pf.unknown):
        ctx.gap("R12.3", msg)
    if not pairs:
        ctx.gap("R12.3", f"no attribute of the document could be followed into the result of {col.short}")
        return
    for f in sorted(comp_fields):
        attrs = sorted(p[1] for p in pairs if p[0] == f)
        ctx.instance("R12.3", col.where(), f"collector reads document.{f}: {bool(attrs)} {attrs}")
        if not attrs:
            report(f, f"component {f}", f"colours of document.{f} are not collected: references resolve to index 0 or a missing entry")
    for at in sorted(emitted):
        has = any(p[1] == at for p in pairs)
        ctx.instance("R12.3", col.where(), f"emitted colour attribute {at} collected: {has}")
        if not has:
            report(None, f"attribute {at}", f"emitters resolve {at} to a colour index but the collector never reads it")
            continue
        # every component that carries the attribute contributes it
        for f in sorted(comp_fields):
            if not any(p[0] == f for p in pairs):
                continue
            carries = any(at in pm.all_fields(c) for c in comp_fields[f])
            if carries and (f, at) not in pairs:
                report(f, f"attribute {at} of {f}", f"document.{f}.{at} is turned into a colour index by the emitters but is not collected into the colour table")
    ctx.floor("R12.3", 9)


def r12_4(ctx: Ctx) -> None:
    pm = ctx.pm
    tbl = const_name(pm, "rtflite.dictionary.color_table", "color_table")
    if tbl is NOC:
        raise AnalysisError("color_table is no longer a constant table")
    where = "src/rtflite/dictionary/color_table.py:4"
    names = [r[0] for r in tbl]
    idxs = [r[1] for r in tbl]
    ctx.instance("R12.4", where, f"{len(tbl)} rows; unique names {len(set(names))}; index range {min(idxs)}..{max(idxs)}")
    if len(set(names)) != len(names):
        ctx.violation("R12.4", "color_table", "duplicate names", where, "colour names are not unique")
    if sorted(idxs) != list(range(1, len(tbl) + 1)):
        ctx.violation("R12.4", "color_table", "indices not dense", where, "master indices are not 1..n without gaps")
    if len(tbl) != 657:
        ctx.violation("R12.4", "color_table", f"{len(tbl)} rows", where, f"{len(tbl)} colours, 657 documented")
    bad = [r for r in tbl if r[5] != f"\\red{r[2]}\\green{r[3]}\\blue{r[4]};" or not all(0 <= v <= 255 for v in r[2:5])]
    ctx.instance("R12.4", where, f"RTF definition agrees with the RGB columns for {len(tbl) - len(bad)}/{len(tbl)} rows")
    for r in bad[:5]:
        ctx.violation("R12.4", "color_table", f"row {r[0]}", where, f"colour {r[0]}: RTF definition {r[5]!r} disagrees with RGB {r[2:5]}")
    for nm, expect in (("name_to_type", lambda r: r[1]), ("name_to_rtf", lambda r: r[5]), ("name_to_rgb", lambda r: tuple(r[2:5]))):
        d = const_name(pm, "rtflite.dictionary.color_table", nm)
        if d is NOC:
            ctx.violation("R12.4", nm, "not constant", where, f"{nm} is no longer derived from the table as a constant mapping")
            continue
        wrong = [r[0] for r in tbl if (tuple(d.get(r[0])) if isinstance(d.get(r[0]), (list, tuple)) else d.get(r[0])) != expect(r)]
        ctx.instance("R12.4", where, f"{nm}: {len(d)} entries, {len(wrong)} disagree with the table")
        if wrong or len(d) != len(tbl):
            ctx.violation("R12.4", nm, f"{len(wrong)} wrong", where, f"{nm} disagrees with color_table for {wrong[:3]}")
    ctx.extra["table_rows"] = len(tbl)
    ctx.extra["exhaustive"] = True


def r12_5(ctx: Ctx) -> None:
    pm = ctx.pm
    ft = const_call(pm, "FontMapping.get_font_table")
    if ft is NOC:
        raise AnalysisError("FontMapping.get_font_table no longer returns a constant table")
    fi = pm.func("RTFSyntaxGenerator.generate_font_table")
    lens = {k: len(v) for k, v in ft.items()}
    ctx.instance("R12.5", fi.where(), f"font table columns {lens}")
    if len(set(lens.values())) != 1:
        ctx.violation("R12.5", "FontMapping.get_font_table", f"column lengths {lens}", fi.where(), "font table columns have different lengths (zip(strict=True) raises)")
    legal = ft.get("type", [])
    # emitted ids: the \fN control words of the table come from a constant range
    from ..astmatch import resolve
    from ..consteval import const_expr
    from ..linform import linform
    ids = None
    for n in walk_no_nested(fi.node):
        if isinstance(n, (ast.ListComp, ast.GeneratorExp)) and isinstance(n.elt, ast.JoinedStr) and len(n.generators) == 1 and \
                any(isinstance(v, ast.Constant) and isinstance(v.value, str) and v.value.endswith("\\f") for v in n.elt.values):
            g = n.generators[0]
            it = g.iter
            while isinstance(it, ast.Call) and dotted(it.func) == "enumerate" and it.args:
                it = it.args[0]
            it = resolve(it, fi.node)
            if isinstance(it, ast.Call) and dotted(it.func) == "zip" and isinstance(g.target, (ast.Tuple, ast.List)):
                # the id is one component of a zip: take the sequence zipped at the position of the variable used after \f
                used = None
                for i, v in enumerate(n.elt.values):
                    if isinstance(v, ast.Constant) and isinstance(v.value, str) and v.value.endswith("\\f") and i + 1 < len(n.elt.values) \
                            and isinstance(n.elt.values[i + 1], ast.FormattedValue) and isinstance(n.elt.values[i + 1].value, ast.Name):
                        used = n.elt.values[i + 1].value.id
                pos = next((k for k, t in enumerate(g.target.elts) if isinstance(t, ast.Name) and t.id == used), None)
                if pos is None or pos >= len(it.args):
                    continue
                it = resolve(it.args[pos], fi.node)
            rng = const_expr(pm, fi.module, it)
            if rng is not NOC:
                try:
                    ids = [int(x) for x in rng]
                except Exception:
                    ids = None
    ctx.instance("R12.5", fi.where(), f"emitted font ids {ids}; legal font numbers {legal}")
    if ids is None:
        ctx.gap("R12.5", f"{fi.short}: the \\fN identifiers of the font table could not be evaluated")
    elif sorted(ids) != sorted(n - 1 for n in legal):
        ctx.violation("R12.5", fi.short, f"ids {ids} vs legal {legal}", fi.where(), "emitted \\fN ids are not {font number - 1} for the legal font numbers")
    zips = [c for c in walk_no_nested(fi.node) if isinstance(c, ast.Call) and dotted(c.func) == "zip"]
    lax = [c for c in zips if not any(k.arg == "strict" and isinstance(k.value, ast.Constant) and k.value.value is True for k in c.keywords)]
    if lax:
        ctx.violation("R12.5", fi.short, "zip not strict", fi.where(lax[0]), "font table columns are zipped without strict=True (a short column silently drops fonts)")
    # reference: \f{font - 1}
    tf = pm.func("TextContent._get_text_formatting")
    refs = []
    for n in walk_no_nested(tf.node):
        if isinstance(n, ast.JoinedStr):
            for i, v in enumerate(n.values):
                if isinstance(v, ast.Constant) and isinstance(v.value, str) and v.value.endswith("\\f") and i + 1 < len(n.values) \
                        and isinstance(n.values[i + 1], ast.FormattedValue):
                    refs.append(n.values[i + 1].value)
    ctx.instance("R12.5", tf.where(), f"font reference expressions {[unparse(r) for r in refs]}")
    for r in refs:
        e = resolve(r, tf.node)
        while isinstance(e, ast.Call) and dotted(e.func) in ("int", "round") and len(e.args) == 1:
            e = e.args[0]
        lf = linform(e)
        if lf != {"self.font": 1, "": -1}:
            if set(lf) - {""} == {"self.font"}:
                ctx.violation("R12.5", tf.short, "font ref " + unparse(r), tf.where(), f"font reference is `{unparse(r)}`, expected font number - 1")
            else:
                ctx.gap("R12.5", f"{tf.short}: font reference `{unparse(r)[:60]}` is not a linear function of self.font")
    if not refs:
        ctx.gap("R12.5", f"{tf.short}: no \\f control word with a computed parameter could be re-identified")
    # validator legal set: the validator of text_font tests membership in the font table's numbers
    vs = [f for f in pm.iter_funcs() if (f.validator_fields() or ([], ""))[0] and "text_font" in f.validator_fields()[0]]
    if not vs:
        ctx.gap("R12.5", "no field validator of text_font could be re-identified")
    checked = False
    for v in vs:
        tests = [c for c in walk_no_nested(v.node) if isinstance(c, ast.Compare) and len(c.ops) == 1 and isinstance(c.ops[0], (ast.In, ast.NotIn))]
        verdicts = []
        for c in tests:
            dom = resolve(c.comparators[0], v.node)
            txt = unparse(dom)
            if ("_font_type" in txt or "get_font_table" in txt) and "type" in txt:
                verdicts.append("table")
                continue
            val = const_expr(pm, v.module, dom)
            if val is not NOC:
                try:
                    verdicts.append("same" if sorted(val) == sorted(legal) else f"other {sorted(val)}")
                except Exception:
                    verdicts.append("unknown")
            else:
                verdicts.append("unknown")
        if not tests:
            continue
        ctx.instance("R12.5", v.where(), f"font validator membership tests against: {verdicts}")
        bad = [x for x in verdicts if x.startswith("other")]
        if bad:
            ctx.violation("R12.5", v.short, "font legal set", v.where(), f"font numbers are validated against {bad[0][6:]}, not the font table's numbers {sorted(legal)}")
        checked = checked or any(x in ("table", "same") for x in verdicts)
    if vs and not checked:
        ctx.gap("R12.5", f"no membership test against the font table's numbers could be re-identified in the validators of text_font ({[v.short for v in vs]})")


def check(ctx: Ctx) -> None:
    cg = CallGraph(ctx.pm)
    ctx.explain(
        "R12.1 the colour context protocol is recognised by role (set: set_document_context / entering a `with` on a context "
        "manager that establishes the context on every path to its yield; clear: clear_document_context / leaving such a with / "
        "ContextVar.set(None)); a forward must-analysis over each function's CFG (with exceptional edges) decides whether the "
        "context is established at a call site, and the state is propagated over the call graph from rtf_encode (typestate); "
        "every function that resolves a colour index through the context must only be entered in context; findings are "
        "reported per out-of-context call edge of the function that manages the context; the context and the colour table come "
        "from the document being encoded and an established context is never re-bound. "
        "R12.2 generate_rtf_color_table and get_rtf_color_index resolve (through temporaries) to the same filter/validate/sort "
        "pipeline ordered by the master index; the table consumes the sorted list itself (not a filtered / de-duplicated "
        "derivative) with one unconditional entry per colour after one default entry; index = position in that list + 1 "
        "(linear form); colour control words take their parameter only from the lookup. R12.3 abstract interpretation of the "
        "collector over attribute paths of the document (helpers, generators, closures, getattr over constant name tables are "
        "followed): every component and, for every component, every colour attribute that emitters turn into an index flows "
        "into the collected set. R12.4 657-row master table integrity (exhaustive). R12.5 font ids = legal numbers - 1, "
        "strict zip, \\f{font-1}, validator membership in the font table's numbers.")
    ctx.assume("RTF readers resolve \\cfN/\\cbN/\\chcbpatN against the document's \\colortbl, index 0 = default")
    ctx.undecided("that each concrete element carries the colour the user asked for (follows from R12.1-3 plus C09's binding rules)")
    r12_1(ctx, cg)
    r12_2(ctx, cg)
    r12_3(ctx, cg)
    r12_4(ctx)
    r12_5(ctx)
