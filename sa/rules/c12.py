"""C12 - colour and font references resolve to what the user asked for.

R12.1 typestate over the call graph: every call chain from rtf_encode to a context-dependent colour
index lookup passes a call site that is dominated by set_document_context(document) and not
preceded by clear_document_context; R12.2 table/index pipeline agreement; R12.3 collector covers
every (component, colour attribute) that an emitter turns into an index; R12.4 master table
integrity; R12.5 font table / font reference agreement.
"""
from __future__ import annotations

import ast
import re

from ..absint import NOC
from ..callgraph import CallGraph
from ..cfg import CFG, own_parts
from ..consteval import const_call, const_name
from ..pm import AnalysisError, dotted, unparse, walk_no_nested
from ..report import Ctx

SINK = "Utils._get_color_index"
ENTRY = "RTFDocument.rtf_encode"


def _ctx_calls(node, name):
    return [c for c in ast.walk(node) if isinstance(c, ast.Call) and dotted(c.func).split(".")[-1] == name]


def r12_1(ctx: Ctx, cg: CallGraph) -> None:
    pm = ctx.pm
    sink = pm.func(SINK)
    # the sink needs the context only when it calls get_rtf_color_index without explicit colours
    needs = any(dotted(c.func).endswith("get_rtf_color_index") for c in walk_no_nested(sink.node) if isinstance(c, ast.Call))
    if not needs:
        raise AnalysisError(f"{SINK} no longer resolves indices through get_rtf_color_index")
    cfgs: dict[str, tuple] = {}

    def site_state(fi, call, incoming: bool) -> bool:
        """is the context established when `call` in `fi` executes?"""
        if fi.short not in cfgs:
            g = CFG(fi.node)
            sets = [nd for nd in g.nodes if nd.ast is not None and any(_ctx_calls(p, "set_document_context") for p in own_parts(nd))]
            clears = [nd for nd in g.nodes if nd.ast is not None and any(_ctx_calls(p, "clear_document_context") for p in own_parts(nd))]
            cfgs[fi.short] = (g, sets, clears)
        g, sets, clears = cfgs[fi.short]
        nodes = g.node_containing(call)
        if not nodes:
            return incoming
        nd = nodes[0]
        live = g.reachable(g.entry)
        if id(nd) not in live:
            return True    # unreachable code cannot execute a lookup
        after_clear = any(id(nd) in g.reachable(s) for c in clears for s in c.succ if id(c) in live)
        dom = g.dominators()
        by_set = any(id(s) in dom.get(id(nd), set()) and s is not nd for s in sets)
        if by_set and not after_clear:
            return True
        if after_clear:
            return False
        return incoming

    # worklist over (function, state)
    seen: set[tuple[str, bool]] = set()
    work = [(ENTRY, False, [])]
    bad_chains = []
    n_sites = 0
    while work:
        short, state, chain = work.pop()
        if (short, state) in seen:
            continue
        seen.add((short, state))
        fi = pm.funcs.get(short)
        if fi is None:
            continue
        if short == SINK:
            if not state:
                bad_chains.append(chain)
            continue
        for call, cands in cg.sites.get(short, []):
            for c in cands:
                st = site_state(fi, call, state)
                n_sites += 1
                work.append((c.short, st, chain + [(short, call)]))
        for other in pm.funcs.values():
            if other.parent is fi:
                work.append((other.short, state, chain))
    entered = sorted({s for s, st in seen})
    ctx.extra["functions_on_typestate_graph"] = len(entered)
    ok_states = [st for s, st in seen if s == SINK]
    ctx.instance("R12.1", pm.func(SINK).where(), f"{SINK} entered with context states {sorted(set(ok_states))} over {len(entered)} functions / {n_sites} call edges")
    reported = set()
    for chain in bad_chains:
        # report at the first function of the chain that is an encode path
        names = [c[0] for c in chain]
        head = next((nm for nm in names if nm.startswith("UnifiedRTFEncoder.")), names[0])
        key = head + " -> " + names[-1]
        if key in reported:
            continue
        reported.add(key)
        first = next((c for c in chain if c[0] == head), chain[0])
        fi = pm.funcs[first[0]]
        path_txt = " -> ".join(dict.fromkeys(names))
        ctx.violation("R12.1", head, "lookup without context via " + names[-1], fi.where(first[1]),
                      f"colour index lookup reached without an established document colour context: {path_txt} -> {SINK}; "
                      "indices then refer to the full 657-colour table while the document carries its own dense table")
    # the context document must be the one whose colour table is emitted
    for short in ("UnifiedRTFEncoder.encode",):
        fi = pm.func(short)
        sets = _ctx_calls(fi.node, "set_document_context")
        for s in sets:
            arg = unparse(s.args[0]) if s.args else "?"
            ctx.instance("R12.1", fi.where(s), f"{short}: set_document_context({arg})")
            params = [a.arg for a in fi.node.args.args]
            if not s.args or arg not in params:
                ctx.violation("R12.1", short, f"context document {arg}", fi.where(s), f"{short}: the colour context is not set from the document being encoded ({arg})")
    # nobody else re-binds the context: the dense table is generated from the document given to `encode`
    for fi2 in pm.iter_funcs():
        if fi2.cls == "ColorService" or fi2.short == "UnifiedRTFEncoder.encode":
            continue
        for c in walk_no_nested(fi2.node):
            if isinstance(c, ast.Call) and dotted(c.func).split(".")[-1] == "set_document_context":
                from ..cfg import CFG as _CFG
                g2 = _CFG(fi2.node)
                live = g2.reachable(g2.entry)
                if not any(id(nd) in live for nd in g2.node_containing(c)):
                    continue
                ctx.violation("R12.1", fi2.short, "context re-bound " + unparse(c)[:60], fi2.where(c),
                              f"{fi2.short} re-binds the colour context (`{unparse(c)[:60]}`); in multi-section documents it receives a per-section copy, so indices are "
                              "numbered against a section's palette while the colour table is generated from the whole document")
    for short in ("UnifiedRTFEncoder.encode", "UnifiedRTFEncoder._encode_multi_section", "UnifiedRTFEncoder._encode_figure_only"):
        fi = pm.func(short)
        ect = [c for c in ast.walk(fi.node) if isinstance(c, ast.Call) and dotted(c.func).endswith("encode_color_table")]
        params = [a.arg for a in fi.node.args.args]
        for c in ect:
            arg = unparse(c.args[0]) if c.args else "?"
            ctx.instance("R12.1", fi.where(c), f"{short}: encode_color_table({arg})")
            if arg not in params:
                ctx.violation("R12.1", short, f"colour table of {arg}", fi.where(c), f"{short}: colour table is generated from {arg}, not from the document being encoded")
    ctx.floor("R12.1", 4)


def _rename(e: ast.AST, name: str) -> str:
    import copy
    e2 = copy.deepcopy(e)
    for n in ast.walk(e2):
        if isinstance(n, ast.Name) and n.id == name:
            n.id = "X"
    return unparse(e2)


def _norm_filter(comp: ast.AST) -> str | None:
    if isinstance(comp, ast.ListComp) and len(comp.generators) == 1:
        g = comp.generators[0]
        if isinstance(comp.elt, ast.Name) and isinstance(g.target, ast.Name) and comp.elt.id == g.target.id:
            return " and ".join(_rename(c, g.target.id) for c in g.ifs)
    return None


def r12_2(ctx: Ctx) -> None:
    pm = ctx.pm
    gen = pm.func("ColorService.generate_rtf_color_table")
    idx = pm.func("ColorService.get_rtf_color_index")

    def pipeline(fi):
        filt = srt = None
        for n in walk_no_nested(fi.node):
            if isinstance(n, ast.Assign) and isinstance(n.value, ast.ListComp):
                f = _norm_filter(n.value)
                if f and "black" in f:
                    filt = f
            if isinstance(n, ast.Call) and dotted(n.func) == "sorted" and n.keywords:
                key = next((k.value for k in n.keywords if k.arg == "key"), None)
                if isinstance(key, ast.Lambda):
                    srt = _rename(key.body, key.args.args[0].arg)
        val = any(dotted(c.func).endswith("validate_color_list") for c in walk_no_nested(fi.node) if isinstance(c, ast.Call))
        return filt, val, srt

    pg, pi = pipeline(gen), pipeline(idx)
    ctx.instance("R12.2", gen.where(), f"table pipeline: filter `{pg[0]}` validate={pg[1]} sort key `{pg[2]}`")
    ctx.instance("R12.2", idx.where(), f"index pipeline: filter `{pi[0]}` validate={pi[1]} sort key `{pi[2]}`")
    if pg != pi or None in pg:
        ctx.violation("R12.2", "ColorService", f"pipelines differ: {pg} vs {pi}", idx.where(),
                      f"colour table and colour index are computed by different pipelines: table {pg}, index {pi}")
    if pg[2] is not None and "_name_to_type[X]" not in pg[2]:
        ctx.violation("R12.2", gen.short, f"sort key {pg[2]}", gen.where(), "dense colour table is not ordered by the master index")
    # table: one entry per sorted colour, unconditionally, after a single leading default entry
    loops = [n for n in walk_no_nested(gen.node) if isinstance(n, ast.For) and isinstance(n.iter, ast.Name) and n.iter.id == "sorted_colors"]
    if len(loops) != 1:
        ctx.violation("R12.2", gen.short, "dense loop", gen.where(), "dense colour table is not built by one loop over the sorted colours")
    else:
        lp = loops[0]
        cond = [x for s in lp.body for x in ast.walk(s) if isinstance(x, (ast.If, ast.Continue, ast.Break, ast.IfExp))]
        apps = [x for s in lp.body for x in ast.walk(s) if isinstance(x, ast.Call) and isinstance(x.func, ast.Attribute) and x.func.attr in ("append", "extend")]
        ctx.instance("R12.2", gen.where(lp), f"dense table loop: {len(apps)} append(s), conditional constructs: {len(cond)}")
        if cond or len(apps) != 1:
            ctx.violation("R12.2", gen.short, "conditional table entry", gen.where(lp),
                          "the dense colour table does not emit exactly one entry per sorted colour (entries are skipped or added "
                          "conditionally) while the index counts one position per colour")
        else:
            arg = unparse(apps[0].args[0])
            if "_name_to_rtf" not in unparse(lp) or "rtf_code" not in arg and "_name_to_rtf" not in arg:
                ctx.violation("R12.2", gen.short, "entry " + arg, gen.where(lp), "colour table entries are not the master RTF definitions of the colours")
    heads = [unparse(n.value) for n in walk_no_nested(gen.node) if isinstance(n, ast.Assign) and unparse(n.targets[0]) == "rtf_parts"]
    for h in heads:
        lit = ast.literal_eval(h) if h.startswith("[") else None
        ok = isinstance(lit, list) and len(lit) == 1 and lit[0].replace("\n", "") == "{\\colortbl;"
        ctx.instance("R12.2", gen.where(), f"colour table head {h}")
        if not ok:
            ctx.violation("R12.2", gen.short, "table head " + h, gen.where(), f"colour table must start with the group opener and exactly one default entry, found {h}")
    # index = position + 1, missing colour -> 0
    rets = [unparse(r.value) for r in walk_no_nested(idx.node) if isinstance(r, ast.Return) and r.value is not None]
    ctx.instance("R12.2", idx.where(), f"index returns {rets}")
    if "sorted_colors.index(color) + 1" not in rets:
        ctx.violation("R12.2", idx.short, f"returns {rets}", idx.where(), "dense colour index is not `position in the sorted list + 1`")
    # black / empty -> 0 on both sides
    sink = pm.func(SINK)
    first_if = next((s for s in sink.node.body if isinstance(s, ast.If)), None)
    ok0 = first_if is not None and "black" in unparse(first_if.test) and isinstance(first_if.body[0], ast.Return) and unparse(first_if.body[0].value) == "0"
    ctx.instance("R12.2", sink.where(), f"default colour short-circuit in {SINK}: {ok0}")
    if not ok0:
        ctx.violation("R12.2", SINK, "default colour", sink.where(), "index 0 (default colour) is no longer returned for empty/black")
    # emitters reference indices only through the sink
    n = 0
    for fi in pm.iter_funcs():
        for node in walk_no_nested(fi.node):
            if isinstance(node, ast.JoinedStr):
                for i, v in enumerate(node.values):
                    if isinstance(v, ast.Constant) and isinstance(v.value, str) and re.search(r"\\(cf|cb|chcbpat|brdrcf|highlight)$", v.value):
                        nxt = node.values[i + 1] if i + 1 < len(node.values) else None
                        if isinstance(nxt, ast.FormattedValue):
                            n += 1
                            src_e = nxt.value
                            txt = unparse(src_e)
                            if isinstance(src_e, ast.Name):
                                a = [x for x in walk_no_nested(fi.node) if isinstance(x, ast.Assign) and len(x.targets) == 1 and unparse(x.targets[0]) == txt]
                                if len(a) == 1:
                                    txt = unparse(a[0].value)
                            ok = "_get_color_index" in txt
                            ctx.instance("R12.2", fi.where(node), f"{fi.short}: colour control word {v.value[-8:]} parameter <- {txt}")
                            if not ok:
                                ctx.violation("R12.2", fi.short, f"{v.value[-8:]} <- {txt}", fi.where(node),
                                              f"{fi.short}: colour reference {v.value[-8:]} is not produced by {SINK}")
    ctx.floor("R12.2", 8)


def r12_3(ctx: Ctx) -> None:
    pm = ctx.pm
    col = pm.func("ColorService.collect_document_colors")
    txt = unparse(col.node)
    doc_fields = pm.all_fields("RTFDocument")
    comp_fields = []
    for f, decl in doc_fields.items():
        ann = unparse(decl.annotation)
        cs = [t for t in re.findall(r"[A-Za-z_][A-Za-z_0-9]*", ann) if t in pm.classes and "TextAttributes" in pm.mro(t)]
        if cs:
            comp_fields.append(f)
    # colour attributes that emitters turn into indices (bound to TextContent.color/background_color/Border.color)
    emitted = set()
    for fi in pm.iter_funcs():
        for c in walk_no_nested(fi.node):
            if isinstance(c, ast.Call) and dotted(c.func).split(".")[-1] in ("TextContent", "Border"):
                for k in c.keywords:
                    if k.arg in ("color", "background_color") and isinstance(k.value, ast.Call) and k.value.args and isinstance(k.value.args[0], ast.Constant):
                        emitted.add(k.value.args[0].value)
                    elif k.arg in ("color", "background_color") and isinstance(k.value, ast.Name):
                        a = [x for x in walk_no_nested(fi.node) if isinstance(x, ast.Assign) and len(x.targets) == 1 and unparse(x.targets[0]) == k.value.id]
                        if len(a) == 1 and isinstance(a[0].value, ast.Call) and a[0].value.args and isinstance(a[0].value.args[0], ast.Constant):
                            emitted.add(a[0].value.args[0].value)
    for f in sorted(comp_fields):
        has = f"document.{f}" in txt
        ctx.instance("R12.3", col.where(), f"collector reads document.{f}: {has}")
        if not has:
            ctx.violation("R12.3", col.short, f"component {f}", col.where(), f"colours of document.{f} are not collected: references resolve to index 0 or a missing entry")
    for a in sorted(emitted):
        has = a in txt
        ctx.instance("R12.3", col.where(), f"emitted colour attribute {a} collected: {has}")
        if not has:
            ctx.violation("R12.3", col.short, f"attribute {a}", col.where(), f"emitters resolve {a} to a colour index but the collector never reads it")
    # every component group extracts every emitted attribute
    for a in sorted(emitted):
        cnt = txt.count(a)
        if cnt < 3:
            ctx.violation("R12.3", col.short, f"attribute {a} only {cnt}x", col.where(), f"{a} is collected for only {cnt} of the 3 component groups (body, text components, column headers)")
    ctx.floor("R12.3", 9)


def r12_4(ctx: Ctx) -> None:
    pm = ctx.pm
    tbl = const_name(pm, "rtflite.dictionary.color_table", "color_table")
    if tbl is NOC:
        raise AnalysisError("color_table is no longer a constant table")
    where = "src/rtflite/dictionary/color_table.py:4"
    names = [r[0] for r in tbl]
    idxs = [r[1] for r in tbl]
    ctx.instance("R12.4", where, f"{len(tbl)} rows; unique names {len(set(names))}; index range {min(idxs)}..{max(idxs)}")
    if len(set(names)) != len(names):
        ctx.violation("R12.4", "color_table", "duplicate names", where, "colour names are not unique")
    if sorted(idxs) != list(range(1, len(tbl) + 1)):
        ctx.violation("R12.4", "color_table", "indices not dense", where, "master indices are not 1..n without gaps")
    if len(tbl) != 657:
        ctx.violation("R12.4", "color_table", f"{len(tbl)} rows", where, f"{len(tbl)} colours, 657 documented")
    bad = [r for r in tbl if r[5] != f"\\red{r[2]}\\green{r[3]}\\blue{r[4]};" or not all(0 <= v <= 255 for v in r[2:5])]
    ctx.instance("R12.4", where, f"RTF definition agrees with the RGB columns for {len(tbl) - len(bad)}/{len(tbl)} rows")
    for r in bad[:5]:
        ctx.violation("R12.4", "color_table", f"row {r[0]}", where, f"colour {r[0]}: RTF definition {r[5]!r} disagrees with RGB {r[2:5]}")
    for nm, expect in (("name_to_type", lambda r: r[1]), ("name_to_rtf", lambda r: r[5]), ("name_to_rgb", lambda r: tuple(r[2:5]))):
        d = const_name(pm, "rtflite.dictionary.color_table", nm)
        if d is NOC:
            ctx.violation("R12.4", nm, "not constant", where, f"{nm} is no longer derived from the table as a constant mapping")
            continue
        wrong = [r[0] for r in tbl if (tuple(d.get(r[0])) if isinstance(d.get(r[0]), (list, tuple)) else d.get(r[0])) != expect(r)]
        ctx.instance("R12.4", where, f"{nm}: {len(d)} entries, {len(wrong)} disagree with the table")
        if wrong or len(d) != len(tbl):
            ctx.violation("R12.4", nm, f"{len(wrong)} wrong", where, f"{nm} disagrees with color_table for {wrong[:3]}")
    ctx.extra["table_rows"] = len(tbl)
    ctx.extra["exhaustive"] = True


def r12_5(ctx: Ctx) -> None:
    pm = ctx.pm
    ft = const_call(pm, "FontMapping.get_font_table")
    if ft is NOC:
        raise AnalysisError("FontMapping.get_font_table no longer returns a constant table")
    fi = pm.func("RTFSyntaxGenerator.generate_font_table")
    lens = {k: len(v) for k, v in ft.items()}
    ctx.instance("R12.5", fi.where(), f"font table columns {lens}")
    if len(set(lens.values())) != 1:
        ctx.violation("R12.5", "FontMapping.get_font_table", f"column lengths {lens}", fi.where(), "font table columns have different lengths (zip(strict=True) raises)")
    legal = ft.get("type", [])
    # emitted ids
    ids = None
    for n in walk_no_nested(fi.node):
        if isinstance(n, ast.ListComp) and isinstance(n.elt, ast.JoinedStr) and "\\\\f" in unparse(n.elt):
            g = n.generators[0]
            from ..consteval import const_expr
            rng = const_expr(pm, fi.module, g.iter)
            if rng is not NOC:
                ids = list(rng)
    ctx.instance("R12.5", fi.where(), f"emitted font ids {ids}; legal font numbers {legal}")
    if ids is None or sorted(ids) != sorted(n - 1 for n in legal):
        ctx.violation("R12.5", fi.short, f"ids {ids} vs legal {legal}", fi.where(), "emitted \\fN ids are not {font number - 1} for the legal font numbers")
    strict = any(isinstance(c, ast.Call) and dotted(c.func) == "zip" and any(k.arg == "strict" for k in c.keywords) for c in walk_no_nested(fi.node))
    if not strict:
        ctx.violation("R12.5", fi.short, "zip not strict", fi.where(), "font table columns are zipped without strict=True (a short column silently drops fonts)")
    # reference: \f{font - 1}
    tf = pm.func("TextContent._get_text_formatting")
    refs = []
    for n in walk_no_nested(tf.node):
        if isinstance(n, ast.JoinedStr):
            for i, v in enumerate(n.values):
                if isinstance(v, ast.Constant) and isinstance(v.value, str) and v.value.endswith("\\f") and i + 1 < len(n.values):
                    refs.append(unparse(n.values[i + 1].value))
    ctx.instance("R12.5", tf.where(), f"font reference expressions {refs}")
    from ..linform import linform
    for r in refs:
        e = ast.parse(r, mode="eval").body
        while isinstance(e, ast.Call) and dotted(e.func) in ("int", "round") and len(e.args) == 1:
            e = e.args[0]
        lf = linform(e)
        if lf != {"self.font": 1, "": -1}:
            ctx.violation("R12.5", tf.short, "font ref " + r, tf.where(), f"font reference is `{r}`, expected font number - 1")
    if not refs:
        ctx.violation("R12.5", tf.short, "no font ref", tf.where(), "text runs no longer select a font")
    # validator legal set
    v = pm.func("TextAttributes.validate_text_font")
    ok = "_font_type()['type']" in unparse(v.node) or '_font_type()["type"]' in unparse(v.node)
    ctx.instance("R12.5", v.where(), f"font validator checks membership in the font table's type column: {ok}")
    if not ok:
        ctx.violation("R12.5", v.short, "font legal set", v.where(), "font numbers are no longer validated against the font table")


def check(ctx: Ctx) -> None:
    cg = CallGraph(ctx.pm)
    ctx.explain(
        "R12.1 typestate propagated over the call graph from rtf_encode: a call site is 'in context' if its function was "
        "entered in context, or it is dominated (CFG with exceptional edges) by set_document_context and not reachable from "
        "clear_document_context; the context-dependent lookup Utils._get_color_index must never be entered out of context. "
        "R12.2 generate_rtf_color_table and get_rtf_color_index normalise to the same filter/validate/sort pipeline; one "
        "unconditional entry per colour after one default entry; index = position + 1; colour control words take their "
        "parameter only from the lookup. R12.3 collector reads every component and every emitted colour attribute. "
        "R12.4 657-row master table integrity (exhaustive). R12.5 font ids = legal numbers - 1, strict zip, \\f{font-1}.")
    ctx.assume("RTF readers resolve \\cfN/\\cbN/\\chcbpatN against the document's \\colortbl, index 0 = default")
    ctx.undecided("that each concrete element carries the colour the user asked for (follows from R12.1-3 plus C09's binding rules)")
    r12_1(ctx, cg)
    r12_2(ctx)
    r12_3(ctx)
    r12_4(ctx)
    r12_5(ctx)
