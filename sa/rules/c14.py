"""C14 - encoding is a pure function of the document.

R14.1 set/clear pairing of the colour context on all exits; R14.2 no store through a borrowed
(caller-owned) component on the construction/encode call graphs; R14.3 no in-place polars mutation
of a borrowed frame; R14.4 no time/random/environment/hash-order dependence; R14.5 shared
registries are written idempotently; R14.6 no memoised function that reads external state.
"""
from __future__ import annotations

import ast

from ..callgraph import CallGraph
from ..cfg import CFG, own_parts
from ..effects import POLARS_INPLACE, USER_CLASSES, Shared, root_of, stores_in
from ..ownership import Ownership
from ..pm import AnalysisError, dotted, unparse, walk_no_nested
from ..report import Ctx
from .c15 import idempotent_registration

ENTRIES = {"RTFDocument.rtf_encode": {"self": 0}, "RTFDocument.__init__": {"self": 1, "data": 0}}
NONDET = {"random", "time", "datetime", "uuid", "secrets", "os.environ", "os.getenv", "os.getpid", "getpass", "socket", "platform"}

# one named construct, with the reason (see DESIGN.md C14): the guard compares a list with a str
SUPPRESS = {
    "RTFDocument._apply_table_spacing": (
        "component.text_indent_reference == 'table'",
        "guard is never true: _set_attribute_defaults wraps every scalar attribute in a list before this comparison, "
        "so ['table'] == 'table' is False and the stores never execute (confirmed by running the library)"),
}


def calls_named(fn: ast.AST, name: str) -> list[ast.Call]:
    return [c for c in walk_no_nested(fn) if isinstance(c, ast.Call) and dotted(c.func).split(".")[-1] == name]


def r14_1(ctx: Ctx) -> None:
    pm = ctx.pm
    n = 0
    for fi in pm.iter_funcs():
        sets = calls_named(fi.node, "set_document_context")
        if not sets or fi.cls == "ColorService":
            continue
        g = CFG(fi.node)
        clear_nodes = [nd for nd in g.nodes if nd.ast is not None and any(
            isinstance(c, ast.Call) and dotted(c.func).split(".")[-1] == "clear_document_context"
            for part in own_parts(nd) for c in ast.walk(part))]
        live = g.reachable(g.entry)
        for sc in sets:
            nodes = [nd for nd in g.node_containing(sc) if id(nd) in live]
            if not nodes:
                ctx.instance("R14.1", fi.where(sc), f"{fi.short}: set_document_context in unreachable code", nontrivial=False)
                continue
            n += 1
            nd = nodes[0]
            ok_normal = all(g.must_pass(s, clear_nodes, [g.exit], exceptional=True) for s in nd.succ)
            ok_exc = all(g.must_pass(s, clear_nodes, [g.xexit], exceptional=True) for s in nd.succ)
            ctx.instance("R14.1", fi.where(sc), f"{fi.short}: context set; cleared on every normal exit: {ok_normal}; on every exceptional exit: {ok_exc}")
            if not ok_normal:
                ctx.violation("R14.1", fi.short, "context not cleared on a normal exit", fi.where(sc),
                              f"{fi.short}: a path from set_document_context to a return does not pass clear_document_context")
            if not ok_exc:
                ctx.violation("R14.1", fi.short, "context not cleared on exception", fi.where(sc),
                              f"{fi.short}: an exception after set_document_context leaves the colour context of this document "
                              "behind (no try/finally); the next encode in the process sees it")
    # context managers that set the context: the yield must be protected by a finally that clears it
    for fi in pm.iter_funcs():
        if not any(d.endswith("contextmanager") for d in fi.decorators):
            continue
        t = unparse(fi.node)
        if "_document_colors" not in t and "set_document_context" not in t and "_current_document_colors" not in t:
            continue
        ys = [y for y in walk_no_nested(fi.node) if isinstance(y, (ast.Yield, ast.YieldFrom))]
        for y in ys:
            n += 1
            prot = False
            p = getattr(y, "_parent", None)
            while p is not None and p is not fi.node:
                if isinstance(p, ast.Try) and p.finalbody and any(x is y for st in p.body for x in ast.walk(st)):
                    ft = " ".join(unparse(st) for st in p.finalbody)
                    if "clear_document_context" in ft or ".set(None)" in ft or ".reset(" in ft or "= None" in ft:
                        prot = True
                p = getattr(p, "_parent", None)
            conditional = [unparse(a.test) for a in _anc_nodes(y, fi.node) if isinstance(a, ast.If)]
            ctx.instance("R14.1", fi.where(y), f"{fi.short}: context manager yield protected by a clearing finally: {prot}; conditional on {conditional}")
            if not prot:
                ctx.violation("R14.1", fi.short, "context manager without finally", fi.where(y),
                              f"{fi.short}: the colour context set by this context manager is not cleared when the body raises (yield outside try/finally)")
            if conditional:
                ctx.violation("R14.1", fi.short, "context manager keeps an outer context " + str(conditional), fi.where(y),
                              f"{fi.short}: under `{conditional[0]}` the document is encoded with a colour context that was already active (stale palette of another document)")
    if n == 0:
        # no explicit context any more is fine only if nothing reads one
        if pm.has_func("ColorService.set_document_context"):
            callers = CallGraph(pm).callers_of("ColorService.set_document_context")
            if callers:
                raise AnalysisError("set_document_context call sites exist but none is in reachable code")
    ctx.floor("R14.1", 1)


def _anc_nodes(n, stop):
    p = getattr(n, "_parent", None)
    while p is not None and p is not stop:
        yield p
        p = getattr(p, "_parent", None)


def _dead_guard(ctx: Ctx, st) -> str | None:
    """store inside `if X.attr is None` where attr is declared non-Optional and never assigned None"""
    pm = ctx.pm
    p = getattr(st.node, "_parent", None)
    while p is not None and p is not st.fi.node:
        if isinstance(p, ast.If) and isinstance(p.test, ast.Compare) and len(p.test.ops) == 1 and isinstance(p.test.ops[0], ast.Is) \
                and isinstance(p.test.comparators[0], ast.Constant) and p.test.comparators[0].value is None \
                and isinstance(p.test.left, ast.Attribute):
            attr = p.test.left.attr
            cls = st.fi.cls
            ann = pm.field_ann(cls, attr) if cls else None
            if ann and "None" not in ann and "Optional" not in ann and "Any" not in ann:
                assigned_none = False
                for fi in pm.iter_funcs():
                    for n in walk_no_nested(fi.node):
                        if isinstance(n, ast.Assign) and isinstance(n.value, ast.Constant) and n.value.value is None:
                            for t in n.targets:
                                if isinstance(t, ast.Attribute) and t.attr == attr:
                                    assigned_none = True
                if not assigned_none:
                    return f"guard `{unparse(p.test)}` is dead: {cls}.{attr}: {ann} is not Optional and is never assigned None"
        p = getattr(p, "_parent", None)
    return None


def _enclosing_guard(st) -> str:
    p = getattr(st.node, "_parent", None)
    out = []
    while p is not None and p is not st.fi.node:
        if isinstance(p, ast.If):
            out.append(unparse(p.test))
        p = getattr(p, "_parent", None)
    return " and ".join(reversed(out))


def r14_2(ctx: Ctx, cg: CallGraph) -> None:
    pm = ctx.pm
    ow = Ownership(pm, cg, ENTRIES)
    sh = Shared(pm)
    total = 0
    for short in ow.reach:
        fi = pm.funcs.get(short)
        if fi is None:
            continue
        for st in stores_in(fi):
            total += 1
            if sh.shared_target(cg, st) is not None:
                continue          # process-shared state is C15's subject
            ok, why = ow.classify(st)
            if ok:
                continue
            tcls = ow.target_class(st)
            root, depth = root_of(st.target)
            rcls = cg.expr_class(fi, root) if root is not None else None
            if tcls is not None and tcls not in USER_CLASSES:
                continue          # internal object (PageContext, BroadcastValue, Cell …): never user-provided
            if tcls is None and rcls is not None and rcls not in USER_CLASSES and not (root is not None and root.id == "self" and rcls in USER_CLASSES):
                continue
            dead = _dead_guard(ctx, st)
            desc = f"{short}: `{st.text()}` writes through a caller-owned object ({why})"
            if dead:
                ctx.instance("R14.2", st.where, desc + " -- " + dead)
                continue
            sup = SUPPRESS.get(short)
            guard = _enclosing_guard(st)
            if sup and sup[0] in guard:
                ctx.instance("R14.2", st.where, desc + " -- suppressed: " + sup[1])
                ctx.suppress("R14.2", short, sup[1])
                continue
            kind = "R14.3" if st.how.split(":")[-1] in POLARS_INPLACE and "DataFrame" in (unparse(st.target)) else "R14.2"
            ctx.instance(kind, st.where, desc)
            ctx.violation(kind, short, f"{st.how} {unparse(st.target)}" + (f".{st.attr}" if st.attr else ""), st.where,
                          f"{short}: `{st.text()}` modifies an object owned by the caller ({why}); a component shared "
                          "between documents or a second encode sees the modification")
    ctx.extra["store_sites_classified"] = total
    ctx.instance("R14.2", "src/rtflite", f"{total} store/mutator sites on the construction and encode call graphs classified "
                 f"({len(ow.reach)} functions); parameters fresh at every call site are treated as owned")
    if total < 45:
        raise AnalysisError(f"only {total} store sites found on the encode/construct graphs (>=45 confirmed by reading)")
    # R14.3: the frames handed on are clones / results of pure expressions
    f = pm.func("RTFEncodingService.prepare_dataframe_for_body_encoding")
    clones = [c for c in walk_no_nested(f.node) if isinstance(c, ast.Call) and isinstance(c.func, ast.Attribute) and c.func.attr == "clone"]
    ctx.instance("R14.3", f.where(), f"prepare_dataframe_for_body_encoding clones the frame {len(clones)}x before processing")
    inplace = []
    for short in ow.reach:
        fi = pm.funcs.get(short)
        if fi is None:
            continue
        for c in walk_no_nested(fi.node):
            if isinstance(c, ast.Call) and isinstance(c.func, ast.Attribute) and c.func.attr in POLARS_INPLACE - {"extend"}:
                inplace.append((fi, c))
            if isinstance(c, ast.Call) and any(k.arg == "in_place" and isinstance(k.value, ast.Constant) and k.value.value for k in c.keywords):
                inplace.append((fi, c))
    for fi, c in inplace:
        ctx.violation("R14.3", fi.short, unparse(c.func), fi.where(c), f"{fi.short}: in-place polars operation `{unparse(c)[:60]}` on the encode path")
    # DataFrame item assignment: df[...] = / df.columns =
    for short in ow.reach:
        fi = pm.funcs.get(short)
        if fi is None:
            continue
        for st in stores_in(fi):
            t = unparse(st.target)
            if (st.how == "item" or st.attr == "columns") and (t.endswith("df") or t.endswith(".df") or t in ("df", "processed_df", "original_df", "page_df")):
                cls = cg.expr_class(fi, st.target)
                ctx.violation("R14.3", fi.short, f"frame store {t}", st.where, f"{fi.short}: `{st.text()}` writes into a DataFrame in place")


def r14_4(ctx: Ctx, cg: CallGraph) -> None:
    pm = ctx.pm
    reach = cg.reachable(["RTFDocument.rtf_encode"])
    n = 0
    for short in sorted(reach):
        fi = pm.funcs.get(short)
        if fi is None:
            continue
        for c in walk_no_nested(fi.node):
            if isinstance(c, ast.Call):
                d = dotted(c.func)
                head = d.split(".")[0]
                r = pm.resolve(fi.module, head)
                ext = r[1] if r and r[0] == "ext" else None
                full = (str(ext) + d[len(head):]) if ext else d
                if any(full == x or full.startswith(x + ".") for x in NONDET) or d in ("id", "hash"):
                    ctx.violation("R14.4", short, d, fi.where(c), f"{short}: call to {full} makes the output depend on something other than the document")
        # iteration over sets whose order can reach the output
        sets = set()
        for nd in walk_no_nested(fi.node):
            if isinstance(nd, ast.Assign) and len(nd.targets) == 1 and isinstance(nd.targets[0], ast.Name):
                v = nd.value
                if isinstance(v, (ast.Set, ast.SetComp)) or (isinstance(v, ast.Call) and dotted(v.func) in ("set", "frozenset")):
                    sets.add(nd.targets[0].id)
        def is_set_expr(e):
            return (isinstance(e, ast.Name) and e.id in sets) or isinstance(e, (ast.Set, ast.SetComp)) or \
                (isinstance(e, ast.Call) and dotted(e.func) in ("set", "frozenset"))
        for nd in walk_no_nested(fi.node):
            it = None
            if isinstance(nd, (ast.For, ast.comprehension)) and is_set_expr(nd.iter):
                it = nd
            elif isinstance(nd, ast.Call) and dotted(nd.func) in ("list", "tuple", "enumerate") and nd.args and is_set_expr(nd.args[0]):
                it = nd
            if it is None:
                continue
            n += 1
            ok, why = _order_normalised(fi, it)
            ctx.instance("R14.4", fi.where(it), f"{short}: iteration over set `{unparse(it.iter if hasattr(it, 'iter') else it.args[0])[:60]}`: {why}")
            if not ok:
                ctx.violation("R14.4", short, "set order " + unparse(it)[:60], fi.where(it),
                              f"{short}: the iteration order of a set (hash order, randomised per process for strings) can reach the output: {why}")
    ctx.floor("R14.4", 2)


def _order_normalised(fi, it) -> tuple[bool, str]:
    """reasons an iteration over a set is order-insensitive"""
    # (A) the list built from it is sorted before use in the same function
    p = getattr(it, "_parent", None)
    comp = p if isinstance(it, ast.comprehension) else None
    holder = comp if comp is not None else it
    q = getattr(holder, "_parent", None)
    if isinstance(q, ast.Call) and dotted(q.func) == "sorted":
        return True, "wrapped in sorted()"
    if isinstance(q, ast.Assign) and len(q.targets) == 1 and isinstance(q.targets[0], ast.Name):
        name = q.targets[0].id
        for c in walk_no_nested(fi.node):
            if isinstance(c, ast.Call) and isinstance(c.func, ast.Attribute) and c.func.attr == "sort" and isinstance(c.func.value, ast.Name) and c.func.value.id == name:
                return True, f"result list `{name}` is sorted in place afterwards"
            if isinstance(c, ast.Call) and dotted(c.func) == "sorted" and c.args and isinstance(c.args[0], ast.Name) and c.args[0].id == name:
                return True, f"result `{name}` passed through sorted()"
    if isinstance(q, ast.Return) and fi.short == "ColorService.collect_document_colors":
        return True, "returned colour list is re-sorted by master index in generate_rtf_color_table/get_rtf_color_index (checked by C12 R12.2)"
    # (B) loop body only feeds other sets / membership tests
    if isinstance(it, ast.For):
        body_calls = [c for s in it.body for c in ast.walk(s) if isinstance(c, ast.Call) and isinstance(c.func, ast.Attribute)]
        if body_calls and all(c.func.attr in ("add", "update", "discard") for c in body_calls) and \
                not any(isinstance(x, (ast.Return, ast.Yield)) for s in it.body for x in ast.walk(s)):
            return True, "loop body only updates other sets"
    return False, "no sort / order-insensitive use found"


def r14_5_6(ctx: Ctx, cg: CallGraph) -> None:
    pm = ctx.pm
    sh = Shared(pm)
    reach = cg.reachable(list(ENTRIES))
    for short in sorted(reach):
        fi = pm.funcs.get(short)
        if fi is None:
            continue
        for st in stores_in(fi):
            tgt = sh.shared_target(cg, st)
            if tgt is None:
                continue
            ok, why = idempotent_registration(ctx, cg, st)
            ctx.instance("R14.5", st.where, f"{short}: write to process state {tgt}: {'idempotent, ' + why if ok else 'history-dependent'}")
            if not ok:
                ctx.violation("R14.5", short, f"{st.how} {tgt}", st.where,
                              f"{short}: `{st.text()}` leaves process state {tgt} behind; later encodes can observe what earlier ones did")
        for d in fi.decorators:
            if d.split(".")[-1] in ("lru_cache", "cache", "cached_property"):
                io = [c for c in ast.walk(fi.node) if isinstance(c, ast.Call) and (dotted(c.func) in ("open",) or
                      (isinstance(c.func, ast.Attribute) and c.func.attr in ("read_text", "read_bytes", "read", "exists", "stat")))]
                from ..effects import memo_is_pure
                pure, why_pure = memo_is_pure(pm, fi)
                ctx.instance("R14.6", fi.where(), f"{short} memoised ({d}); reads external state: {bool(io)}; pure in its arguments: {pure} ({why_pure})")
                if pure and not io:
                    continue
                ctx.violation("R14.6", short, f"memoised {d}", fi.where(),
                              f"{short} is memoised ({d}) on the encode path" + ("; it reads files, so a later encode returns stale content" if io else
                              "; a value computed for one document is served to later ones (keys must capture every input)"))
    ctx.instance("R14.6", "src/rtflite", f"{len(reach)} functions scanned for memoisation and process-state writes")


def check(ctx: Ctx) -> None:
    cg = CallGraph(ctx.pm)
    ctx.explain(
        "R14.1 CFG with exceptional edges of every function that sets the colour context: every path from the set call to a "
        "normal or exceptional exit passes clear_document_context. R14.2 ownership analysis: flow-sensitive freshness of "
        "locals (constructor / deepcopy / model_copy(deep) / literals are fresh; parameters are fresh only if fresh at every "
        "call site, solved interprocedurally over the call graph from RTFDocument.__init__ and rtf_encode); every attribute/"
        "item store and mutator call on user-facing component objects must go through a fresh object. R14.3 no in-place "
        "frame operation. R14.4 no time/random/env/id/hash calls; set iteration order is normalised before it can reach "
        "output. R14.5 process-state writes are idempotent constant registrations. R14.6 no memoisation on the path.")
    ctx.assume("objects of internal classes (PageContext, BroadcastValue, TextContent, Cell, Row, services) are never supplied by the user")
    ctx.assume("deepcopy/model_copy(deep=True)/DataFrame.clone/select/slice return objects that share no mutable state with their source")
    ctx.undecided("equality of the output with a fresh interpreter's output for concrete histories (follows from the absence of effects only)")
    r14_1(ctx)
    r14_2(ctx, cg)
    r14_4(ctx, cg)
    r14_5_6(ctx, cg)
