"""C14 - encoding is a pure function of the document.

R14.1 set/clear pairing of the colour context on all exits; R14.7 no read of the colour context outside the
encode's own set..clear window while a context can leak; R14.2 no store through a borrowed
(caller-owned) component on the construction/encode call graphs; R14.3 no in-place polars mutation
of a borrowed frame; R14.4 no time/random/environment/hash-order dependence; R14.5 shared
registries are written idempotently; R14.6 no memoised function that reads external state.
"""
from __future__ import annotations

import ast
import re

from ..callgraph import CallGraph
from ..cfg import CFG, own_parts
from ..effects import POLARS_INPLACE, USER_CLASSES, Shared, root_of, stores_in
from ..ownership import Ownership
from ..pm import AnalysisError, dotted, unparse, walk_no_nested
from ..report import Ctx
from .c12 import ColourContext
from .c15 import idempotent_registration

ENTRIES = {"RTFDocument.rtf_encode": {"self": 0}, "RTFDocument.__init__": {"self": 1, "data": 0}}
NONDET = {"random", "time", "datetime", "uuid", "secrets", "os.environ", "os.getenv", "os.getpid", "getpass", "socket", "platform"}

# one named construct, with the reason (see DESIGN.md C14): the guard compares a list with a str
SUPPRESS = {
    "RTFDocument._apply_table_spacing": (
        "component.text_indent_reference == 'table'",
        "guard is never true: _set_attribute_defaults wraps every scalar attribute in a list before this comparison, "
        "so ['table'] == 'table' is False and the stores never execute (confirmed by running the library)"),
}


def calls_named(fn: ast.AST, name: str) -> list[ast.Call]:
    return [c for c in walk_no_nested(fn) if isinstance(c, ast.Call) and dotted(c.func).split(".")[-1] == name]


def r14_1(ctx: Ctx, cg: CallGraph, cc: ColourContext) -> list[str]:
    """every establishment of the colour context is released on every exit; returns the leaks found"""
    from ..astmatch import guards
    pm = ctx.pm
    leaks: list[str] = []
    n = 0
    # clients of the context API: set ... clear pairing on all exits (a `with` on a context manager is a set at entry and a
    # clear at those exits on which the manager clears)
    for fi in pm.iter_funcs():
        if fi.cls == cc.owner or cc.cm_summary(fi) is not None:
            continue
        g, sets, clears, weak = cc.info(fi)
        if not sets and not weak:
            continue
        if fi.name == "__enter__" and fi.cls:
            # one half of a class-based context manager: the with protocol pairs it with __exit__, which must clear
            ex = pm.funcs.get(f"{fi.cls}.__exit__")
            if ex is not None:
                gx, _sx, clx, _wx = cc.info(ex)
                cleared = bool(clx) and all(gx.must_pass(s_, clx, [gx.exit], exceptional=False) for s_ in gx.entry.succ)
                swallows = any(isinstance(r, ast.Return) and r.value is not None and not (isinstance(r.value, ast.Constant) and r.value.value in (False, None))
                               for r in walk_no_nested(ex.node))
                n += 1
                ctx.instance("R14.1", fi.where(), f"{fi.cls}: class-based context manager; __enter__ establishes the context, __exit__ clears it on every path: {cleared}")
                if not cleared:
                    leaks.append(f"{fi.cls}.__exit__")
                    ctx.violation("R14.1", f"{fi.cls}.__exit__", "context manager does not clear", ex.where(),
                                  f"{fi.cls}: __enter__ establishes the colour context but __exit__ does not clear it on every path")
                if swallows:
                    ctx.gap("R14.1", f"{fi.cls}.__exit__ may swallow exceptions (returns a value other than False/None)")
                continue
        live = g.reachable(g.entry)
        for nd in sets + weak:
            sc = next((c for part in own_parts(nd) for c in ast.walk(part) if isinstance(c, ast.Call) and
                       (cc.op_of_call(c) == "set" or cc.manager_of(fi, c) is not None)), nd.ast)
            if id(nd) not in live:
                ctx.instance("R14.1", fi.where(sc), f"{fi.short}: colour context established in unreachable code", nontrivial=False)
                continue
            n += 1
            ok_normal = all(g.must_pass(s, clears, [g.exit], exceptional=True) for s in nd.succ)
            ok_exc = all(g.must_pass(s, clears, [g.xexit], exceptional=True) for s in nd.succ)
            ctx.instance("R14.1", fi.where(sc), f"{fi.short}: context set by `{unparse(sc)[:50]}`; cleared on every normal exit: {ok_normal}; on every exceptional exit: {ok_exc}")
            if not ok_normal:
                leaks.append(f"{fi.short} (normal exit)")
                ctx.violation("R14.1", fi.short, "context not cleared on a normal exit", fi.where(sc),
                              f"{fi.short}: a path from establishing the colour context to a return does not pass clear_document_context")
            if not ok_exc:
                leaks.append(f"{fi.short} (exception)")
                ctx.violation("R14.1", fi.short, "context not cleared on exception", fi.where(sc),
                              f"{fi.short}: an exception after set_document_context leaves the colour context of this document "
                              "behind (no try/finally); the next encode in the process sees it")
    # context managers that establish the context: every path to the yield sets it, the yield is protected by a clearing finally
    for fi in pm.iter_funcs():
        sm = cc.cm_summary(fi)
        if sm is None or not sm["sets"]:
            continue
        for y, established in sm["yields"]:
            n += 1
            conditional = [("" if pol else "not ") + unparse(t) for t, pol in guards(y, fi.node)]
            ctx.instance("R14.1", fi.where(y), f"{fi.short}: context manager; context established at the yield: {established}; cleared when the block ends: "
                                               f"{sm['clears_normal']}; when it raises: {sm['clears_exc']}; yield conditional on {conditional}")
            if not established:
                leaks.append(f"{fi.short} (keeps an outer context)")
                ctx.violation("R14.1", fi.short, "context manager keeps an outer context " + str(conditional), fi.where(y),
                              f"{fi.short}: under `{conditional[0] if conditional else '?'}` the document is encoded with a colour context that was already active (stale palette of another document)")
        if not sm["clears_exc"]:
            leaks.append(f"{fi.short} (exception in the block)")
            ctx.violation("R14.1", fi.short, "context manager without finally", fi.where(),
                          f"{fi.short}: the colour context set by this context manager is not cleared when the body raises (yield outside try/finally)")
        if not sm["clears_normal"]:
            leaks.append(f"{fi.short} (normal end of the block)")
            ctx.violation("R14.1", fi.short, "context manager does not clear", fi.where(),
                          f"{fi.short}: the colour context set by this context manager is still set after the block ends")
    for msg in cc.unrecognised:
        ctx.gap("R14.1", msg)
    if n == 0:
        # no explicit context any more is fine only if nothing reads one
        callers = cg.callers_of(cc.setter.short)
        if callers:
            raise AnalysisError("set_document_context call sites exist but none is in reachable code")
    ctx.floor("R14.1", 1)
    return leaks


def r14_7(ctx: Ctx, cg: CallGraph, cc: ColourContext, leaks: list[str]) -> None:
    """the colour context is process state: a read outside this encode's own set..clear window sees whatever an earlier
    encode left behind - harmless only if every establishment is released on every exit (R14.1)"""
    pm = ctx.pm
    readers = []
    for fi in pm.iter_funcs():
        if fi is cc.setter or fi is cc.clearer:
            continue
        if any(cc.prim(x) == "read" for x in walk_no_nested(fi.node)):
            readers.append(fi)
    if not (cc.cvars or cc.attrs):
        ctx.gap("R14.7", f"the state written by {cc.setter.short} could not be re-identified")
        return
    entry = "RTFDocument.rtf_encode"
    seen, edges = cc.typestate(entry)
    for r in readers:
        states = sorted({st for s, st in seen if s == r.short})
        ctx.instance("R14.7", r.where(), f"{r.short} reads the colour context; entered with context states {states}; leaks of the context: {leaks or 'none'}")
    if not leaks:
        return
    for p, call, nd, path in cc.culprits(entry, seen, edges, {r.short for r in readers}):
        fi = pm.funcs[p[0]]
        reader = path[-1]
        ctx.violation("R14.7", reader, f"stale context read via {p[0]} -> {nd[0]}", fi.where(call) if call is not None else fi.where(),
                      f"{reader} reads the process-wide colour context outside this encode's own set..clear window ({' -> '.join(dict.fromkeys([p[0]] + path))}) "
                      f"while the context can be left behind by an earlier encode ({leaks[0]}): the output depends on what was encoded before")


def _anc_nodes(n, stop):
    p = getattr(n, "_parent", None)
    while p is not None and p is not stop:
        yield p
        p = getattr(p, "_parent", None)


def _dead_guard(ctx: Ctx, st) -> str | None:
    """store inside `if X.attr is None` where attr is declared non-Optional and never assigned None"""
    pm = ctx.pm
    p = getattr(st.node, "_parent", None)
    while p is not None and p is not st.fi.node:
        if isinstance(p, ast.If) and isinstance(p.test, ast.Compare) and len(p.test.ops) == 1 and isinstance(p.test.ops[0], ast.Is) \
                and isinstance(p.test.comparators[0], ast.Constant) and p.test.comparators[0].value is None \
                and isinstance(p.test.left, ast.Attribute):
            attr = p.test.left.attr
            cls = st.fi.cls
            ann = pm.field_ann(cls, attr) if cls else None
            if ann and "None" not in ann and "Optional" not in ann and "Any" not in ann:
                assigned_none = False
                for fi in pm.iter_funcs():
                    for n in walk_no_nested(fi.node):
                        if isinstance(n, ast.Assign) and isinstance(n.value, ast.Constant) and n.value.value is None:
                            for t in n.targets:
                                if isinstance(t, ast.Attribute) and t.attr == attr:
                                    assigned_none = True
                if not assigned_none:
                    return f"guard `{unparse(p.test)}` is dead: {cls}.{attr}: {ann} is not Optional and is never assigned None"
        p = getattr(p, "_parent", None)
    return None


def _enclosing_guard(st) -> str:
    p = getattr(st.node, "_parent", None)
    out = []
    while p is not None and p is not st.fi.node:
        if isinstance(p, ast.If):
            out.append(unparse(p.test))
        p = getattr(p, "_parent", None)
    return " and ".join(reversed(out))


def r14_2(ctx: Ctx, cg: CallGraph) -> None:
    pm = ctx.pm
    ow = Ownership(pm, cg, ENTRIES)
    sh = Shared(pm)
    total = 0
    for short in ow.reach:
        fi = pm.funcs.get(short)
        if fi is None:
            continue
        for st in stores_in(fi):
            total += 1
            if sh.shared_target(cg, st) is not None:
                continue          # process-shared state is C15's subject
            ok, why = ow.classify(st)
            if ok:
                continue
            if ok is None:
                ctx.gap("R14.2", f"{short}: `{st.text()}`: {why}")
                continue
            tcls = ow.target_class(st)
            root, depth = root_of(st.target)
            rcls = cg.expr_class(fi, root) if root is not None else None
            if tcls is not None and tcls not in USER_CLASSES:
                continue          # internal object (PageContext, BroadcastValue, Cell …): never user-provided
            if tcls is None and rcls is not None and rcls not in USER_CLASSES and not (root is not None and root.id == "self" and rcls in USER_CLASSES):
                continue
            dead = _dead_guard(ctx, st)
            desc = f"{short}: `{st.text()}` writes through a caller-owned object ({why})"
            if dead:
                ctx.instance("R14.2", st.where, desc + " -- " + dead)
                continue
            sup = SUPPRESS.get(short)
            guard = _enclosing_guard(st)
            if sup and sup[0] in guard:
                ctx.instance("R14.2", st.where, desc + " -- suppressed: " + sup[1])
                ctx.suppress("R14.2", short, sup[1])
                continue
            kind = "R14.3" if st.how.split(":")[-1] in POLARS_INPLACE and "DataFrame" in (unparse(st.target)) else "R14.2"
            ctx.instance(kind, st.where, desc)
            ctx.violation(kind, short, f"{st.how} {unparse(st.target)}" + (f".{st.attr}" if st.attr else ""), st.where,
                          f"{short}: `{st.text()}` modifies an object owned by the caller ({why}); a component shared "
                          "between documents or a second encode sees the modification")
    _wrapper_aliasing(ctx, cg, ow)
    ctx.extra["store_sites_classified"] = total
    ctx.instance("R14.2", "src/rtflite", f"{total} store/mutator sites on the construction and encode call graphs classified "
                 f"({len(ow.reach)} functions); parameters fresh at every call site are treated as owned")
    if total < 45:
        raise AnalysisError(f"only {total} store sites found on the encode/construct graphs (>=45 confirmed by reading)")
    # R14.3: the frames handed on are clones / results of pure expressions
    f = pm.func("RTFEncodingService.prepare_dataframe_for_body_encoding")
    clones = [c for c in walk_no_nested(f.node) if isinstance(c, ast.Call) and isinstance(c.func, ast.Attribute) and c.func.attr == "clone"]
    ctx.instance("R14.3", f.where(), f"prepare_dataframe_for_body_encoding clones the frame {len(clones)}x before processing")
    inplace = []
    for short in ow.reach:
        fi = pm.funcs.get(short)
        if fi is None:
            continue
        for c in walk_no_nested(fi.node):
            if isinstance(c, ast.Call) and isinstance(c.func, ast.Attribute) and c.func.attr in POLARS_INPLACE - {"extend"}:
                inplace.append((fi, c))
            if isinstance(c, ast.Call) and any(k.arg == "in_place" and isinstance(k.value, ast.Constant) and k.value.value for k in c.keywords):
                inplace.append((fi, c))
    for fi, c in inplace:
        ctx.violation("R14.3", fi.short, unparse(c.func), fi.where(c), f"{fi.short}: in-place polars operation `{unparse(c)[:60]}` on the encode path")
    # DataFrame item assignment: df[...] = / df.columns =
    for short in ow.reach:
        fi = pm.funcs.get(short)
        if fi is None:
            continue
        for st in stores_in(fi):
            t = unparse(st.target)
            if (st.how == "item" or st.attr == "columns") and (t.endswith("df") or t.endswith(".df") or t in ("df", "processed_df", "original_df", "page_df")):
                cls = cg.expr_class(fi, st.target)
                ctx.violation("R14.3", fi.short, f"frame store {t}", st.where, f"{fi.short}: `{st.text()}` writes into a DataFrame in place")


def _field_default_is_none(pm, cls: str, fld: str) -> bool | None:
    d = pm.field_decl(cls, fld)
    v = getattr(d, "value", None) if d is not None else None
    if v is None:
        return None
    if isinstance(v, ast.Constant):
        return v.value is None
    if isinstance(v, ast.Call) and dotted(v.func).split(".")[-1] == "Field":
        a0 = v.args[0] if v.args else next((k.value for k in v.keywords if k.arg == "default"), None)
        if isinstance(a0, ast.Constant):
            return a0.value is None
    return None


def _inplace_aliases(pm, cg: CallGraph, cls: str, mi) -> list[tuple[str, set[str], str]]:
    """for a method of an internal (wrapper) class: (field G, conditions, text of the store) such that the method mutates in
    place - item store or mutator call directly on `self.F` - an object that IS the object held in field G when the method
    was entered, under the conditions (guard atoms over self.<field>).  `self.F = self.h()` before the store is followed
    into h's returns: a return of `self.G` is an alias, a freshly built value is not."""
    from ..astmatch import guard_atoms, guards, resolve
    out = []
    for st in stores_in(mi):
        t = st.target
        if not (isinstance(t, ast.Attribute) and isinstance(t.value, ast.Name) and t.value.id == "self"):
            continue
        if not (st.how == "item" or st.how.startswith("mutator:")):
            continue
        F = t.attr
        conds = guard_atoms(guards(st.node, mi.node), mi.node)
        line = getattr(st.node, "lineno", 0)
        rebinds = [n for n in walk_no_nested(mi.node) if isinstance(n, ast.Assign) and getattr(n, "lineno", 0) < line and
                   any(isinstance(x, ast.Attribute) and isinstance(x.value, ast.Name) and x.value.id == "self" and x.attr == F for x in n.targets)]
        if not rebinds:
            out.append((F, conds, st.text()))
            continue
        E = rebinds[-1].value
        if isinstance(E, ast.Attribute) and isinstance(E.value, ast.Name) and E.value.id == "self":
            out.append((E.attr, conds, st.text()))
        elif isinstance(E, ast.Call) and isinstance(E.func, ast.Attribute) and isinstance(E.func.value, ast.Name) and E.func.value.id == "self":
            h = pm.find_method(cls, E.func.attr)
            if h is None:
                continue
            for r in walk_no_nested(h.node):
                if isinstance(r, ast.Return) and r.value is not None:
                    v = resolve(r.value, h.node)
                    if isinstance(v, ast.Attribute) and isinstance(v.value, ast.Name) and v.value.id == "self":
                        out.append((v.attr, conds | guard_atoms(guards(r, h.node), h.node), st.text()))
    return out


def _wrapper_aliasing(ctx: Ctx, cg: CallGraph, ow: Ownership) -> None:
    """R14.2 through internal wrapper objects: `K(field=<borrowed expr>, ...).m(...)` where m mutates in place the very object
    held in that field (under conditions on the constructor's other arguments that are decided from literals at the call
    site) writes into the caller's object although K itself is internal.  Undecided conditions give no finding."""
    from ..astmatch import resolve
    pm = ctx.pm
    summaries: dict[tuple[str, str], list] = {}
    n = 0
    for short in ow.reach:
        fi = pm.funcs.get(short)
        fr = ow.fresh.get(short)
        if fi is None or fr is None:
            continue
        for call in walk_no_nested(fi.node):
            if not (isinstance(call, ast.Call) and isinstance(call.func, ast.Attribute)):
                continue
            recv = call.func.value
            ctor = recv if isinstance(recv, ast.Call) else (resolve(recv, fi.node) if isinstance(recv, ast.Name) else None)
            if not isinstance(ctor, ast.Call):
                continue
            K = dotted(ctor.func).split(".")[-1]
            if K not in pm.classes or K in USER_CLASSES or not pm.is_pydantic(K) or ctor.args:
                continue
            mi = pm.find_method(K, call.func.attr)
            if mi is None:
                continue
            if (K, mi.name) not in summaries:
                summaries[(K, mi.name)] = _inplace_aliases(pm, cg, K, mi)
            kws = {k.arg: k.value for k in ctor.keywords if k.arg}
            if any(k.arg is None for k in ctor.keywords):
                continue
            for G, conds, text in summaries[(K, mi.name)]:
                bx = kws.get(G)
                if bx is None:
                    continue
                n += 1
                decided = True
                for atom in conds:
                    m_ = re.fullmatch(r"self\.(\w+) is (not )?None", atom)
                    if not m_:
                        decided = False
                        break
                    X, neg = m_.group(1), bool(m_.group(2))
                    if X == G:
                        continue          # when the held object is None nothing is written
                    ex = kws.get(X)
                    if ex is None:
                        dn = _field_default_is_none(pm, K, X)
                        is_none = dn if X not in kws else None
                    elif isinstance(ex, ast.Constant):
                        is_none = ex.value is None
                    elif isinstance(ex, (ast.Tuple, ast.List, ast.Dict, ast.Set, ast.JoinedStr)):
                        is_none = False
                    else:
                        is_none = None
                    if is_none is None or is_none == neg:
                        decided = False
                        break
                lvl = fr._expr_level(bx, fr.at.get(id(call)))
                ctx.instance("R14.2", fi.where(call), f"{short}: {K}.{mi.name} mutates the object held in `{G}` in place (`{text}`) under {sorted(conds)}; "
                                                      f"bound to `{unparse(bx)[:50]}` (freshness level {lvl}); conditions decided true: {decided}")
                if decided and lvl < 1 and isinstance(bx, (ast.Attribute, ast.Subscript, ast.Name)):
                    ctx.violation("R14.2", short, f"in-place {K}.{mi.name} on {unparse(bx)[:60]}", fi.where(call),
                                  f"{short}: `{unparse(call)[:90]}` mutates `{unparse(bx)[:50]}` in place ({K}.{mi.name}: `{text}` on the object passed as `{G}`, "
                                  f"which is not copied when {sorted(conds)}); that object belongs to the caller (a shallow copy shares its field containers), "
                                  "so a component shared between documents or a second encode sees the modification")
    ctx.extra["wrapper_mutation_sites"] = n


def r14_4(ctx: Ctx, cg: CallGraph) -> None:
    pm = ctx.pm
    reach = cg.reachable(["RTFDocument.rtf_encode"])
    n = 0
    for short in sorted(reach):
        fi = pm.funcs.get(short)
        if fi is None:
            continue
        for c in walk_no_nested(fi.node):
            if isinstance(c, ast.Call):
                d = dotted(c.func)
                head = d.split(".")[0]
                r = pm.resolve(fi.module, head)
                ext = r[1] if r and r[0] == "ext" else None
                full = (str(ext) + d[len(head):]) if ext else d
                if any(full == x or full.startswith(x + ".") for x in NONDET) or d in ("id", "hash"):
                    ctx.violation("R14.4", short, d, fi.where(c), f"{short}: call to {full} makes the output depend on something other than the document")
        # iteration over sets whose order can reach the output
        sets = set()
        for nd in walk_no_nested(fi.node):
            if isinstance(nd, ast.Assign) and len(nd.targets) == 1 and isinstance(nd.targets[0], ast.Name):
                v = nd.value
                if isinstance(v, (ast.Set, ast.SetComp)) or (isinstance(v, ast.Call) and dotted(v.func) in ("set", "frozenset")):
                    sets.add(nd.targets[0].id)
        def is_set_expr(e):
            return (isinstance(e, ast.Name) and e.id in sets) or isinstance(e, (ast.Set, ast.SetComp)) or \
                (isinstance(e, ast.Call) and dotted(e.func) in ("set", "frozenset"))
        for nd in walk_no_nested(fi.node):
            it = None
            if isinstance(nd, (ast.For, ast.comprehension)) and is_set_expr(nd.iter):
                it = nd
            elif isinstance(nd, ast.Call) and dotted(nd.func) in ("list", "tuple", "enumerate") and nd.args and is_set_expr(nd.args[0]):
                it = nd
            if it is None:
                continue
            n += 1
            ok, why = _order_normalised(fi, it)
            sens = None if ok else _order_sensitive_use(fi, it)
            ctx.instance("R14.4", fi.where(it), f"{short}: iteration over set `{unparse(it.iter if hasattr(it, 'iter') else it.args[0])[:60]}`: {why if ok or not sens else sens}")
            if not ok and sens is None:
                ctx.gap("R14.4", f"{short}: what becomes of the order of `{unparse(it)[:60]}` (iteration over a set) is not modelled")
            elif not ok:
                why = sens
                ctx.violation("R14.4", short, "set order " + unparse(it)[:60], fi.where(it),
                              f"{short}: the iteration order of a set (hash order, randomised per process for strings) can reach the output: {why}")
    ctx.floor("R14.4", 2)


ORDER_FREE = {"sorted", "set", "frozenset", "sum", "min", "max", "any", "all", "len"}      # result independent of the argument's order
ORDER_KEEPING = {"list", "tuple", "iter", "enumerate", "reversed"}                              # result order = argument order


def _order_free_use(fi, e: ast.AST, depth: int = 3) -> str | None:
    """why the order of the sequence produced by expression node `e` cannot reach the output, or None.
    Follows the value upwards: order-keeping wrappers, an order-free consumer, a set-valued comprehension,
    a membership test, or a local name all of whose uses are order-free (or that is sorted)."""
    q = getattr(e, "_parent", None)
    if isinstance(q, ast.Call) and e in q.args:
        d = dotted(q.func)
        if d in ORDER_FREE:
            return f"consumed by {d}()"
        if d in ORDER_KEEPING:
            return _order_free_use(fi, q, depth)
        if isinstance(q.func, ast.Attribute) and q.func.attr in ("update", "difference_update", "intersection_update", "issubset", "issuperset", "isdisjoint",
                                                                 "union", "intersection", "difference", "symmetric_difference"):
            return f"consumed by set operation .{q.func.attr}()"
        return None
    if isinstance(q, ast.Compare) and e in q.comparators and all(isinstance(o, (ast.In, ast.NotIn)) for o in q.ops):
        return "only used for a membership test"
    if isinstance(q, ast.comprehension) and q.iter is e:
        comp = getattr(q, "_parent", None)
        if isinstance(comp, ast.SetComp):
            return "feeds a set comprehension"
        if isinstance(comp, (ast.GeneratorExp, ast.ListComp)):
            return _order_free_use(fi, comp, depth)
        return None
    if isinstance(q, ast.Assign) and len(q.targets) == 1 and isinstance(q.targets[0], ast.Name) and depth > 0:
        name = q.targets[0].id
        loads = [n for n in walk_no_nested(fi.node) if isinstance(n, ast.Name) and n.id == name and isinstance(n.ctx, ast.Load)]
        for c in walk_no_nested(fi.node):
            if isinstance(c, ast.Call) and isinstance(c.func, ast.Attribute) and c.func.attr == "sort" and isinstance(c.func.value, ast.Name) and c.func.value.id == name:
                return f"result list `{name}` is sorted in place afterwards"
        stores = [n for n in walk_no_nested(fi.node) if isinstance(n, ast.Name) and n.id == name and isinstance(n.ctx, ast.Store)]
        if loads and len(stores) == 1:
            whys = [_order_free_use(fi, ld, depth - 1) for ld in loads]
            if all(whys):
                return f"every use of `{name}` is order-free ({whys[0]})"
        return None
    return None


def _order_sensitive_use(fi, it, depth: int = 3) -> str | None:
    """positive evidence that the iteration order of `it` (a loop / comprehension / list() over a set) is kept in a value whose
    order matters: an ordered sequence that is indexed, searched, joined, returned, or appended to piece by piece"""
    def up(e, depth):
        q = getattr(e, "_parent", None)
        if isinstance(q, ast.Call) and e in q.args:
            if dotted(q.func) in ORDER_KEEPING:
                return up(q, depth)
            if isinstance(q.func, ast.Attribute) and q.func.attr == "join":
                return "joined into a string in iteration order"
            if isinstance(q.func, ast.Attribute) and q.func.attr in ("extend", "append", "insert", "write", "writelines"):
                return f"fed to .{q.func.attr}() in iteration order"
            return None
        if isinstance(q, ast.Attribute) and q.value is e and q.attr in ("index", "pop"):
            return f"searched / consumed by position (.{q.attr})"
        if isinstance(q, ast.Subscript) and q.value is e:
            return "indexed by position"
        if isinstance(q, (ast.Return, ast.Yield, ast.YieldFrom)):
            return "returned in iteration order"
        if isinstance(q, ast.comprehension) and q.iter is e:
            comp = getattr(q, "_parent", None)
            if isinstance(comp, (ast.ListComp, ast.GeneratorExp, ast.DictComp)):
                return up(comp, depth)
            return None
        if isinstance(q, ast.For) and q.iter is e:
            return loop(q)
        if isinstance(q, ast.Assign) and len(q.targets) == 1 and isinstance(q.targets[0], ast.Name) and depth > 0:
            name = q.targets[0].id
            for ld in walk_no_nested(fi.node):
                if isinstance(ld, ast.Name) and ld.id == name and isinstance(ld.ctx, ast.Load):
                    w = up(ld, depth - 1)
                    if w:
                        return f"`{name}` is {w}"
        return None

    def loop(lp):
        for st in lp.body:
            for x in ast.walk(st):
                if isinstance(x, ast.Call) and isinstance(x.func, ast.Attribute) and x.func.attr in ("append", "extend", "insert", "write", "writelines"):
                    return f"loop body calls .{x.func.attr}() once per element, in iteration order"
                if isinstance(x, (ast.Yield, ast.YieldFrom)):
                    return "loop body yields once per element, in iteration order"
                if isinstance(x, ast.AugAssign) and isinstance(x.op, ast.Add) and isinstance(x.value, (ast.JoinedStr, ast.Constant, ast.List)):
                    return "loop body concatenates once per element, in iteration order"
        return None
    if isinstance(it, ast.For):
        return loop(it)
    holder = getattr(it, "_parent", None) if isinstance(it, ast.comprehension) else it
    if isinstance(holder, (ast.SetComp,)):
        return None
    return up(holder, depth)


def _order_normalised(fi, it) -> tuple[bool, str]:
    """reasons an iteration over a set is order-insensitive"""
    if isinstance(it, ast.comprehension):
        comp = getattr(it, "_parent", None)
        if isinstance(comp, ast.SetComp):
            return True, "builds another set"
        holder = comp
    else:
        holder = it
    if not isinstance(it, ast.For):
        why = _order_free_use(fi, holder)
        if why:
            return True, why
        q = getattr(holder, "_parent", None)
        while isinstance(q, ast.Call) and dotted(q.func) in ORDER_KEEPING:
            q = getattr(q, "_parent", None)
        if isinstance(q, ast.Return) and fi.short == "ColorService.collect_document_colors":
            return True, "returned colour list is re-sorted by master index in generate_rtf_color_table/get_rtf_color_index (checked by C12 R12.2)"
        return False, "no sort / order-insensitive use found"
    # loop: the body only feeds other sets / membership tests
    body_calls = [c for s in it.body for c in ast.walk(s) if isinstance(c, ast.Call) and isinstance(c.func, ast.Attribute)]
    if body_calls and all(c.func.attr in ("add", "update", "discard") for c in body_calls) and \
            not any(isinstance(x, (ast.Return, ast.Yield, ast.YieldFrom, ast.Break)) for s in it.body for x in ast.walk(s)):
        return True, "loop body only updates other sets"
    return False, "no sort / order-insensitive use found"


def r14_5_6(ctx: Ctx, cg: CallGraph) -> None:
    pm = ctx.pm
    sh = Shared(pm)
    reach = cg.reachable(list(ENTRIES))
    for short in sorted(reach):
        fi = pm.funcs.get(short)
        if fi is None:
            continue
        for st in stores_in(fi):
            tgt = sh.shared_target(cg, st)
            if tgt is None:
                continue
            ok, why = idempotent_registration(ctx, cg, st)
            ctx.instance("R14.5", st.where, f"{short}: write to process state {tgt}: {'idempotent, ' + why if ok else 'history-dependent' if ok is False else 'undecided'}")
            if ok is None:
                ctx.gap("R14.5", f"{short}: registration `{st.text()}` into process state {tgt}: {why}")
            elif not ok:
                ctx.violation("R14.5", short, f"{st.how} {tgt}", st.where,
                              f"{short}: `{st.text()}` leaves process state {tgt} behind; later encodes can observe what earlier ones did")
        for d in fi.decorators:
            if d.split(".")[-1] in ("lru_cache", "cache", "cached_property"):
                io = [c for c in ast.walk(fi.node) if isinstance(c, ast.Call) and (dotted(c.func) in ("open",) or
                      (isinstance(c.func, ast.Attribute) and c.func.attr in ("read_text", "read_bytes", "read", "exists", "stat")))]
                from ..effects import memo_is_pure
                pure, why_pure = memo_is_pure(pm, fi)
                ctx.instance("R14.6", fi.where(), f"{short} memoised ({d}); reads external state: {bool(io)}; pure in its arguments: {pure} ({why_pure})")
                if pure and not io:
                    continue
                ctx.violation("R14.6", short, f"memoised {d}", fi.where(),
                              f"{short} is memoised ({d}) on the encode path" + ("; it reads files, so a later encode returns stale content" if io else
                              "; a value computed for one document is served to later ones (keys must capture every input)"))
        # manual memo: a container that outlives the call, read and written here, whose key omits inputs of the stored value
        from ..effects import memo_key_gaps
        for node, cont, kl, vl, missing in memo_key_gaps(pm, fi):
            ctx.instance("R14.6", fi.where(node), f"{short}: manual memo in {cont}: key depends on {kl}; value depends on {vl}")
            if missing:
                ctx.violation("R14.6", short, f"memo {cont} key lacks {','.join(missing)[:80]}", fi.where(node),
                              f"{short}: the value stored in {cont} is computed from {missing} but the key is built from {kl} only: a later page/document is served the "
                              "value computed for an earlier one")
    ctx.instance("R14.6", "src/rtflite", f"{len(reach)} functions scanned for memoisation and process-state writes")


def check(ctx: Ctx) -> None:
    cg = CallGraph(ctx.pm)
    ctx.explain(
        "R14.1 CFG with exceptional edges of every function that establishes the colour context (set_document_context or a "
        "`with` on a context manager that sets it): every path from there to a normal or exceptional exit passes a clear "
        "(clear_document_context, or the exit of such a `with` when the manager clears in a finally); context managers "
        "themselves must establish the context on every path to their yield and clear it in a finally. R14.7 typestate over "
        "the call graph: a read of the context outside the encode's own set..clear window is reported when R14.1 found a way "
        "for a context to be left behind. R14.2 ownership analysis: flow-sensitive freshness of "
        "locals (constructor / deepcopy / model_copy(deep) / literals are fresh; parameters are fresh only if fresh at every "
        "call site, solved interprocedurally over the call graph from RTFDocument.__init__ and rtf_encode); every attribute/"
        "item store and mutator call on user-facing component objects must go through a fresh object. R14.3 no in-place "
        "frame operation. R14.4 no time/random/env/id/hash calls; set iteration order is normalised before it can reach "
        "output (a set whose iteration only feeds order-free consumers - sorted, set/frozenset, membership, sum/min/max/any/all - is harmless). R14.5 process-state writes are idempotent constant registrations. R14.6 no memoisation on the path.")
    ctx.assume("objects of internal classes (PageContext, BroadcastValue, TextContent, Cell, Row, services) are never supplied by the user")
    ctx.assume("a field of an internal wrapper model (BroadcastValue ...) initialised with a list holds that very list (validators do not copy nested lists)")
    ctx.assume("deepcopy/model_copy(deep=True)/DataFrame.clone/select/slice return objects that share no mutable state with their source")
    ctx.undecided("equality of the output with a fresh interpreter's output for concrete histories (follows from the absence of effects only)")
    cc = ColourContext(ctx.pm, cg)
    leaks = r14_1(ctx, cg, cc)
    r14_7(ctx, cg, cc, leaks)
    r14_2(ctx, cg)
    r14_4(ctx, cg)
    r14_5_6(ctx, cg)
