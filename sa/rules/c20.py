"""C20 - string width measurement is consistent (the statically decidable clauses).

R20.1 unit conversions are exact multiples of one another (linear forms of the lambdas);
R20.2 number<->name maps are inverse, cover 1..10 and resolve to one font file each;
R20.3 font and unit membership checks dominate every return and raise ValueError;
R20.4 the requested size reaches the font loader unmodified (no rounding/snapping, no memoised
loader keyed on a coarser size), the measured text is the argument itself.
Not decided here (properties of Pillow/FreeType on the bundled fonts): 0 for '', non-negativity,
monotonicity under appending, 1% scaling, monospace advance.
"""
from __future__ import annotations

import ast

from ..absint import NOC
from ..cfg import CFG, own_parts
from ..consteval import const_call, const_expr
from ..linform import linform
from ..pm import AnalysisError, dotted, unparse, walk_no_nested
from ..report import Ctx


def check(ctx: Ctx) -> None:
    pm = ctx.pm
    ctx.explain(
        "R20.1 the three unit lambdas normalise to px = x, in = x/dpi, mm = 25.4·x/dpi (linear forms), so results are exact "
        "multiples; R20.2 the name->number and number->name maps are mutually inverse, cover 1..10, and number and name resolve "
        "to the same font file; R20.3 on the CFG of get_string_width every return is dominated by the font-number, font-name "
        "and unit membership tests, whose failing branches raise ValueError; R20.4 the size handed to ImageFont.truetype is "
        "font_size itself (or the documented Pillow<10 ceiling), the text handed to getlength is the text argument, no "
        "memoisation. Clauses about the numeric result of FreeType's getlength are not decidable from rtflite's source.")
    ctx.assume("Pillow's FreeTypeFont.getlength is deterministic, additive enough and scale-linear for the bundled fonts (not analysed)")
    for c in ("0 for the empty string", "non-negativity", "monotonicity under appending", "width scales with size within 1%", "monospace advance equality"):
        ctx.undecided(c + " (property of Pillow/FreeType on the bundled fonts)")
    fi = pm.func("get_string_width")
    # ---- R20.1
    conv = None
    for a in walk_no_nested(fi.node):
        if isinstance(a, ast.Assign) and unparse(a.targets[0]) == "conversions" and isinstance(a.value, ast.Dict):
            conv = a.value
    if conv is None:
        ctx.violation("R20.1", fi.short, "no conversions table", fi.where(), "unit conversions are no longer a table of per-unit functions")
    else:
        want = {"px": "x", "in": "x / dpi", "mm": "x / dpi * 25.4"}
        got = {}
        for k, v in zip(conv.keys, conv.values):
            key = k.value if isinstance(k, ast.Constant) else unparse(k)
            if isinstance(v, ast.Lambda) and len(v.args.args) == 1:
                arg = v.args.args[0].arg
                body = ast.parse(unparse(v.body).replace(arg, "x") if arg != "x" else unparse(v.body), mode="eval").body
                got[key] = linform(body)
            else:
                got[key] = None
        for unit, expr in want.items():
            ref = linform(ast.parse(expr, mode="eval").body)
            ok = got.get(unit) == ref
            ctx.instance("R20.1", fi.where(conv), f"unit {unit!r}: {got.get(unit)} {'==' if ok else '!='} {ref}")
            if not ok:
                ctx.violation("R20.1", fi.short, f"unit {unit}: {got.get(unit)}", fi.where(conv), f"conversion for {unit!r} is not `{expr}`; results in different units are no longer exact conversions of one another")
        for extra in set(got) - set(want):
            ctx.violation("R20.1", fi.short, f"extra unit {extra}", fi.where(conv), f"undocumented unit {extra!r}")
        rets = [r for r in walk_no_nested(fi.node) if isinstance(r, ast.Return) and r.value is not None]
        final = [unparse(r.value) for r in rets]
        ctx.instance("R20.1", fi.where(), f"returns {final}")
        if final != ["conversions[unit](width_px)"]:
            ctx.violation("R20.1", fi.short, "return " + str(final), fi.where(), "get_string_width does not return conversions[unit](measured pixel width) on every path")
    # ---- R20.2
    n2n = const_call(pm, "FontMapping.get_font_name_to_number_mapping")
    num2 = const_call(pm, "FontMapping.get_font_number_to_name_mapping")
    paths = const_call(pm, "FontMapping.get_font_paths")
    table = const_call(pm, "FontMapping.get_font_table")
    f2 = pm.func("FontMapping.get_font_name_to_number_mapping")
    if NOC in (n2n, num2, paths, table):
        ctx.violation("R20.2", "FontMapping", "tables not constant", f2.where(), "font maps are no longer constant tables")
    else:
        inv = {v: k for k, v in n2n.items()}
        ctx.instance("R20.2", f2.where(), f"name->number {len(n2n)} entries, number->name {len(num2)} entries, paths {len(paths)} entries")
        if inv != num2 or len(inv) != len(n2n):
            ctx.violation("R20.2", "FontMapping", "maps not inverse", f2.where(), "number->name is not the inverse of name->number")
        if sorted(num2) != list(range(1, 11)):
            ctx.violation("R20.2", "FontMapping", f"numbers {sorted(num2)}", f2.where(), "font numbers are not exactly 1..10")
        for num, name in sorted(num2.items()):
            ok = name in paths and table["name"][num - 1] == name and table["type"][num - 1] == num
            ctx.instance("R20.2", f2.where(), f"font {num} <-> {name!r} -> {paths.get(name)}; font table row agrees: {ok}")
            if not ok:
                ctx.violation("R20.2", "FontMapping", f"font {num} {name}", f2.where(), f"font {num} ({name}) has no font file or disagrees with the emitted font table")
    mod = pm.module("rtflite.strwidth")
    srcs = {k: unparse(v) for k, v in mod.assigns.items() if k in ("_FONT_PATHS", "RTF_FONT_NUMBERS", "RTF_FONT_NAMES")}
    want = {"_FONT_PATHS": "FontMapping.get_font_paths()", "RTF_FONT_NUMBERS": "FontMapping.get_font_name_to_number_mapping()",
            "RTF_FONT_NAMES": "FontMapping.get_font_number_to_name_mapping()"}
    for k, v in want.items():
        ctx.instance("R20.2", mod.path + ":1", f"{k} = {srcs.get(k)}")
        if srcs.get(k) != v:
            ctx.violation("R20.2", "strwidth", f"{k} = {srcs.get(k)}", mod.path + ":1", f"strwidth.{k} is `{srcs.get(k)}`, expected {v}")
    # ---- R20.3
    g = CFG(fi.node)
    dom = g.dominators(exceptional=False)
    live = g.reachable(g.entry)
    tests = {}
    for nd in g.nodes:
        if nd.kind == "test" and isinstance(nd.ast, ast.If) and id(nd) in live:
            t = unparse(nd.ast.test)
            raises = [s for s in nd.ast.body if isinstance(s, ast.Raise)]
            if raises and isinstance(raises[0].exc, ast.Call):
                tests[t] = (nd, dotted(raises[0].exc.func))
    need = {"font number": "font not in RTF_FONT_NAMES", "font name": "font_name not in _FONT_PATHS", "unit": "unit not in conversions"}
    ret_nodes = [nd for nd in g.nodes if isinstance(nd.ast, ast.Return) and id(nd) in live]
    for label, t in need.items():
        hit = tests.get(t)
        ctx.instance("R20.3", fi.where(hit[0].ast) if hit else fi.where(), f"{label} check `{t}` -> raise {hit[1] if hit else 'MISSING'}")
        if not hit:
            ctx.violation("R20.3", fi.short, f"{label} check missing", fi.where(), f"unsupported {label} is no longer rejected by `{t}`")
            continue
        if hit[1] != "ValueError":
            ctx.violation("R20.3", fi.short, f"{label} raises {hit[1]}", fi.where(hit[0].ast), f"unsupported {label} raises {hit[1]} instead of ValueError")
        if label == "font number":
            # guarded by isinstance(font, int): every return must be dominated by the isinstance test instead
            outer = [nd for nd in g.nodes if nd.kind == "test" and isinstance(nd.ast, ast.If) and unparse(nd.ast.test) == "isinstance(font, int)" and id(nd) in live]
            anchor = outer[0] if outer else None
        else:
            anchor = hit[0]
        for r in ret_nodes:
            if anchor is None or id(anchor) not in dom.get(id(r), set()):
                ctx.violation("R20.3", fi.short, f"return before {label} check", fi.where(r.ast),
                              f"`{unparse(r.ast)[:50]}` can be reached without the {label} check: an unsupported {label} returns a value instead of raising ValueError")
    # ---- R20.4
    for d in fi.decorators:
        ctx.violation("R20.4", fi.short, "decorator " + d, fi.where(), f"get_string_width is wrapped by {d}")
    tt = [c for c in walk_no_nested(fi.node) if isinstance(c, ast.Call) and dotted(c.func).endswith("truetype")]
    from ..linform import single_assign_env
    env = single_assign_env(fi.node)
    size_expr = None
    where_tt = fi.where()
    if len(tt) == 1:
        size_expr = next((k.value for k in tt[0].keywords if k.arg == "size"), tt[0].args[1] if len(tt[0].args) > 1 else None)
        where_tt = fi.where(tt[0])
    elif not tt:
        # the loader may live in a helper called from here: follow one level
        for c in walk_no_nested(fi.node):
            if isinstance(c, ast.Call) and isinstance(c.func, ast.Name):
                r = pm.resolve(fi.module, c.func.id)
                if r and r[0] == "func":
                    h = r[1]
                    ht = [x for x in walk_no_nested(h.node) if isinstance(x, ast.Call) and dotted(x.func).endswith("truetype")]
                    if len(ht) == 1:
                        hs = next((k.value for k in ht[0].keywords if k.arg == "size"), ht[0].args[1] if len(ht[0].args) > 1 else None)
                        ps = [a.arg for a in h.node.args.args]
                        henv = single_assign_env(h.node)
                        while isinstance(hs, ast.Name) and hs.id in henv and hs.id not in ps:
                            hs = henv[hs.id]
                        if isinstance(hs, ast.Name) and hs.id in ps:
                            i = ps.index(hs.id)
                            size_expr = c.args[i] if i < len(c.args) else next((k.value for k in c.keywords if k.arg == hs.id), None)
                        else:
                            size_expr = hs
                        where_tt = fi.where(c)
    if size_expr is None:
        ctx.violation("R20.4", fi.short, f"truetype x{len(tt)}", fi.where(), "the size at which the font is loaded cannot be traced to font_size")
    else:
        size = size_expr
        while isinstance(size, ast.Name) and size.id in env:
            size = env[size.id]
        txt = unparse(size)
        ok = txt in ("font_size", "int(math.ceil(font_size)) if _PILLOW_REQUIRES_INT_SIZE else font_size")
        ctx.instance("R20.4", where_tt, f"truetype size = `{txt}`")
        if not ok:
            ctx.violation("R20.4", fi.short, "size " + txt, where_tt, f"the font is loaded at `{txt}`, not at the requested font_size (width no longer scales with size)")
    gl = [c for c in walk_no_nested(fi.node) if isinstance(c, ast.Call) and isinstance(c.func, ast.Attribute) and c.func.attr == "getlength"]
    ok = len(gl) == 1 and len(gl[0].args) == 1 and unparse(gl[0].args[0]) == "text"
    ctx.instance("R20.4", fi.where(), f"getlength argument: {unparse(gl[0].args[0]) if gl else '?'}")
    if not ok:
        ctx.violation("R20.4", fi.short, "measured text", fi.where(), "the measured string is not the text argument itself")
    # reassignments of text / font_size before use
    for nm in ("text", "font_size", "dpi"):
        for a in walk_no_nested(fi.node):
            if isinstance(a, (ast.Assign, ast.AugAssign)) and any(isinstance(t, ast.Name) and t.id == nm for t in (a.targets if isinstance(a, ast.Assign) else [a.target])):
                ctx.violation("R20.4", fi.short, f"{nm} reassigned", fi.where(a), f"get_string_width modifies its `{nm}` argument before measuring")
    ctx.floor("R20.1", 4)
    ctx.floor("R20.2", 13)
    ctx.floor("R20.3", 3)
