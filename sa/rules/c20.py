"""C20 - string width measurement is consistent (the clauses decidable from rtflite's source).

get_string_width is evaluated ONCE over symbolic arguments (SDT, sa/rules/c17.py): text, font, font_size and dpi are
uninterpreted symbols, `unit` ranges over the finite domain the source declares (the Literal of its annotation) plus one
value outside it; membership of the font in the source's finite font tables, the type test on the font, the Pillow
compatibility flag and every other condition consulted are enumerated over all valuations.

R20.1 (A) for every unit the returned term is the monomial  px: W,  in: W/dpi,  mm: 25.4*W/dpi  of the measured pixel
      width W = <font object>.getlength(text) (normal form comparison: lambda table, if-chain, match, factor table alike);
R20.2 (A, exhaustive over finite tables) number<->name maps are inverse, cover exactly the declared font numbers, every name
      reachable from a number has a font file, the emitted font table agrees;
R20.3 (A) on every valuation in which the font is not a member of the consulted table / indexes a finite sequence out of
      range or from the end (negative number), or the unit is outside the declared domain, the outcome is `raise
      ValueError`; never a return value, never another exception type (a failed table look-up is a KeyError);
R20.4 (A, dataflow) the size handed to the font loader is the font_size argument itself on every valuation in which the
      Pillow (<10) compatibility flag is false, the measured text is the text argument itself, the font file is looked up
      in a font table by the (validated) font;
R20.5 (S, effects) a memo (module-level container written on the call path, or a memoised function) is keyed on every
      argument its stored value depends on.
Not decided here (properties of Pillow/FreeType on the bundled fonts): 0 for '', non-negativity, monotonicity under
appending, 1% scaling, monospace advance.
"""
from __future__ import annotations

import ast
from fractions import Fraction

from ..absint import NOC
from ..consteval import const_call
from ..dtab import Sym, Unsupported
from ..pm import AnalysisError, dotted, unparse, walk_no_nested
from ..report import Ctx
from .c05 import CallSym, Init, SubSym, path_of
from .c17 import SDT, MonoSym, TableSym, cover_rows, declare_sdt, exc_mro, sdt_env, show, sparts

OTHER = "\x00<any other unit>"
MM = Fraction(127, 5)


def _literal_values(pm, module: str, ann: ast.AST, depth: int = 0):
    """members of a Literal[...] annotation (following module-level aliases), or None"""
    if depth > 4 or ann is None:
        return None
    if isinstance(ann, ast.Subscript) and dotted(ann.value).split(".")[-1] == "Literal":
        elts = ann.slice.elts if isinstance(ann.slice, ast.Tuple) else [ann.slice]
        if all(isinstance(e, ast.Constant) for e in elts):
            return [e.value for e in elts]
        return None
    if isinstance(ann, ast.Name):
        r = pm.resolve(module, ann.id)
        if r and r[0] == "value":
            return _literal_values(pm, r[1][0].name, r[1][1], depth + 1)
    if isinstance(ann, ast.BinOp) and isinstance(ann.op, ast.BitOr):
        l, r = _literal_values(pm, module, ann.left, depth + 1), _literal_values(pm, module, ann.right, depth + 1)
        if l is not None and r is not None:
            return l + r
    return None


def _derives_from_pil(pm, module: str, name: str, depth: int = 0) -> bool:
    if depth > 6:
        return False
    r = pm.resolve(module, name)
    if r is None:
        return False
    if r[0] == "ext":
        return str(r[1]).split(".")[0] in ("PIL", "pillow")
    if r[0] == "value":
        mi, expr = r[1]
        return any(isinstance(x, ast.Name) and _derives_from_pil(pm, mi.name, x.id, depth + 1) for x in ast.walk(expr))
    return False


def _deps(v, params) -> set[str]:
    return {p.path for p in sparts(v) if isinstance(p, Init) and p.path in params}


def check(ctx: Ctx) -> None:
    pm = ctx.pm
    ctx.explain(
        "get_string_width is evaluated once over symbolic arguments; the decision table over all valuations of the consulted conditions (font type, membership of the font in the "
        "source's finite font tables, range class of a font index, unit over its declared Literal domain + one foreign value, the Pillow<10 flag) is judged: R20.1 returned term per "
        "unit equals the monomials W, W/dpi, 25.4*W/dpi; R20.3 every valuation with an unsupported font/unit raises ValueError; R20.4 size and text reach the loader/measurement as "
        "the argument symbols themselves; R20.2 exhaustive agreement of the finite font tables; R20.5 memo keys cover the dependencies of the memoised value. Clauses about the "
        "numeric result of FreeType's getlength are not decidable from rtflite's source.")
    declare_sdt(ctx)
    ctx.assume("Pillow's FreeTypeFont.getlength is deterministic, additive enough and scale-linear for the bundled fonts (not analysed); ImageFont.truetype / getlength are "
               "uninterpreted function symbols of their arguments")
    for c in ("0 for the empty string", "non-negativity", "monotonicity under appending", "width scales with size within 1%", "monospace advance equality"):
        ctx.undecided(c + " (property of Pillow/FreeType on the bundled fonts)")
    fi = pm.func("get_string_width")
    a = fi.node.args
    plist = [x.arg for x in list(a.posonlyargs) + list(a.args) + list(a.kwonlyargs)]
    want = ["text", "font", "font_size", "unit", "dpi"]
    if plist[:5] != want:
        if not all(p in plist for p in want):
            ctx.gap("R20.1", f"get_string_width's parameters {plist} are not (text, font, font_size, unit, dpi)")
            return
    for d in fi.decorators:
        if d.split(".")[-1] in ("lru_cache", "cache"):
            ctx.instance("R20.5", fi.where(), f"get_string_width itself is memoised ({d}) on all its arguments")
    # ---- unit domain from the declaration
    ann = {x.arg: x.annotation for x in list(a.posonlyargs) + list(a.args) + list(a.kwonlyargs)}
    units = _literal_values(pm, fi.module, ann.get("unit"))
    if not units or not all(isinstance(u, str) for u in units):
        ctx.gap("R20.1", f"the domain of `unit` is not a Literal of strings in the source ({unparse(ann.get('unit'))})")
        return
    ctx.instance("R20.1", fi.where(), f"declared unit domain {units} (+ one value outside it)")
    dt = SDT(pm, watch={"truetype", "getlength"}, atoms={"unit": list(units) + [OTHER]})
    try:
        rows = dt.table_rows(fi.node.body, sdt_env(fi), fi)
    except Unsupported as e:
        ctx.gap("R20.1", f"get_string_width could not be evaluated symbolically: {e}")
        return
    cover_rows(ctx, "get_string_width", rows)
    params = set(want)

    def font_derived(v) -> bool:
        return "font" in _deps(v, params)

    n_font_atoms = 0
    expect = {"px": (Fraction(1), {"W": 1}), "in": (Fraction(1), {"W": 1, "dpi": -1}), "mm": (MM, {"W": 1, "dpi": -1})}
    seen_units: dict[str, set] = {}
    seen_size: set = set()
    for row in rows:
        val, out = row["val"], row["outcome"]
        unit = val.get("unit")
        desc = ", ".join(f"{k[:46]}={'<other>' if v == OTHER else v}" for k, v in val.items())
        # ---------------- R20.3 validation
        bad = []
        if unit == OTHER:
            bad.append("a unit outside " + str(units))
        for key, v in val.items():
            rec = dt.cmp.get(key)
            if rec is None:
                continue
            if rec[0] == "member" and isinstance(rec[1], Sym) and font_derived(rec[1]) and not isinstance(rec[2], Sym):
                n_font_atoms += 1
                if v is False:
                    bad.append(f"a font that is not in {dt.table_name(rec[2])}")
            elif rec[0] == "index" and font_derived(rec[1]):
                n_font_atoms += 1
                if v == "neg":
                    bad.append(f"a font number for which the index `{path_of(rec[1])}` is negative (it wraps around to a font counted from the end of the table)")
                elif v == "out":
                    bad.append(f"a font number for which the index `{path_of(rec[1])}` is beyond the table")
        kind = out[0] if isinstance(out, tuple) else out
        # unknown, not guessed: a validity test against a container the evaluator could not resolve decides nothing
        unknown = [k for k in val if (dt.cmp.get(k) or ("",))[0] == "member" and isinstance(dt.cmp[k][2], Sym)
                   and (dt.cmp[k][1] == unit or font_derived(dt.cmp[k][1]) or (isinstance(dt.cmp[k][1], Sym) and dt.cmp[k][1].path == "unit"))]
        unknown += [k for k in val if ("?" in k) and (dt.cmp.get(k) or ("",))[0] in ("member", "index", "substr") and "?mutable:" not in k]
        if unknown:
            ctx.gap("R20.3", f"the validity test `{unknown[0][:80]}` refers to a value the evaluator could not resolve")
            continue
        if bad:
            what = "; ".join(bad)
            if kind == "raise":
                et = out[1]
                ok = "ValueError" in exc_mro(pm, et)
                ctx.instance("R20.3", fi.where(out[3]) if out[3] is not None else fi.where(), f"[{desc}] -> raise {et}")
                if not ok:
                    implicit = out[3] is not None and not isinstance(out[3], ast.Raise)
                    ctx.violation("R20.3", fi.short, f"{bad[0].split(' (')[0][:60]} raises {et}", fi.where(out[3]) if out[3] is not None else fi.where(),
                                  f"for {what} get_string_width raises {et}" + (f" (failed look-up `{unparse(out[3])[:50]}`)" if implicit else "") + " instead of ValueError")
            else:
                rv = out[1] if isinstance(out, tuple) else None
                ctx.instance("R20.3", fi.where(), f"[{desc}] -> {kind} {show(rv)[:60]}")
                ctx.violation("R20.3", fi.short, f"{bad[0].split(' (')[0][:60]} accepted", fi.where(),
                              f"for {what} get_string_width returns `{show(rv)[:80]}` instead of raising ValueError [{desc[:160]}]")
            continue
        # ---------------- R20.4 loader arguments (valuations with supported font and unit)
        tts = [e for e in row["effects"] if e[0] == "call" and e[1] == "truetype"]
        gls = [e for e in row["effects"] if e[0] == "call" and e[1] == "getlength"]
        pil = [k for k, v in val.items() if v is True and (dt.cmp.get(k) or ("",))[0] == "truth" and isinstance(dt.cmp[k][1], Sym)
               and _derives_from_pil(pm, fi.module, dt.cmp[k][1].path.split(".")[0].split("[")[0])]
        for e in tts:
            args, kw = e[3], e[4]
            size = kw.get("size", args[1] if len(args) > 1 else None)
            fpath = kw.get("font", args[0] if args else None)
            ok = isinstance(size, Init) and size.path == "font_size"
            seen_size.add(show(size))
            ctx.instance("R20.4", fi.where(e[5]), f"[{desc[:120]}] font loaded at size `{show(size)[:70]}`" + (" (Pillow<10 compatibility branch)" if pil else ""))
            if size is None:
                ctx.gap("R20.4", "the size argument of the font loader was not re-identified")
            elif not ok and not pil:
                ctx.violation("R20.4", fi.short, "size " + show(size)[:80], fi.where(e[5]),
                              f"the font is loaded at `{show(size)[:100]}`, not at the requested font_size itself: the width no longer scales with the size [{desc[:120]}]")
            elif not ok and pil and "font_size" not in _deps(size, params):
                ctx.violation("R20.4", fi.short, "size " + show(size)[:80], fi.where(e[5]), f"the font size `{show(size)[:80]}` does not derive from font_size")
            tabs = [p for p in sparts(fpath) if isinstance(p, SubSym) and isinstance(p.base, TableSym)]
            if fpath is not None and not any(font_derived(t.key) or font_derived(t) for t in tabs) and not font_derived(fpath):
                ctx.violation("R20.4", fi.short, "font file " + show(fpath)[:60], fi.where(e[5]), f"the font file `{show(fpath)[:100]}` does not depend on the font argument")
        for e in gls:
            args = e[3]
            ok = len(args) == 1 and isinstance(args[0], Init) and args[0].path == "text"
            ctx.instance("R20.4", fi.where(e[5]), f"measured text `{show(args[0])[:60] if args else '?'}`")
            if not ok:
                ctx.violation("R20.4", fi.short, "measured text " + (show(args[0])[:60] if args else "?"), fi.where(e[5]),
                              f"the measured string is `{show(args[0])[:80] if args else '?'}`, not the text argument itself")
            recv = e[2]
            if not (isinstance(recv, CallSym) and recv.meth == "truetype"):
                if not any(isinstance(p, CallSym) and p.meth == "truetype" for p in sparts(recv)):
                    ctx.gap("R20.4", f"the object measured (`{show(recv)[:60]}`) is not recognisably the loaded font")
        # ---------------- R20.1 returned term
        if kind == "raise":
            ctx.instance("R20.3", fi.where(), f"[{desc}] -> raise {out[1]} on supported arguments")
            if not (getattr(out[3], "lineno", None) and isinstance(out[3], ast.Raise)):
                ctx.violation("R20.3", fi.short, f"supported arguments raise {out[1]}", fi.where(out[3]) if out[3] is not None else fi.where(),
                              f"a failed look-up raises {out[1]} although font and unit are supported [{desc[:140]}]")
            continue
        if kind != "return":
            ctx.violation("R20.1", fi.short, "no return value", fi.where(), f"get_string_width ends without returning a width [{desc[:140]}]")
            continue
        rv = dt.concrete(out[1])
        W = gls[-1][6] if gls else None
        font_checked = any((dt.cmp.get(k) or ("",))[0] in ("member", "index") and font_derived(dt.cmp[k][1]) and not isinstance(dt.cmp[k][2], Sym) for k in val)
        unvalidated = ([] if font_checked else ["font"]) + ([] if "unit" in val else ["unit"])
        if unvalidated:
            ctx.instance("R20.3", fi.where(), f"[{desc}] -> returns `{show(rv)[:50]}` without consulting the validity of {unvalidated}")
            ctx.violation("R20.3", fi.short, "return before validation of " + ",".join(unvalidated), fi.where(),
                          f"on the path [{desc[:140]}] get_string_width returns `{show(rv)[:60]}` without having tested the {' and the '.join(unvalidated)} argument: "
                          f"an unsupported {unvalidated[0]} returns a value instead of raising ValueError")
            continue
        if isinstance(rv, (int, float)) and rv == 0 and any(v is False and (dt.cmp.get(k) or ("",))[0] == "truth" and path_of(dt.cmp[k][1]) == "text" for k, v in val.items()):
            ctx.instance("R20.1", fi.where(), f"[{desc[:120]}] empty text -> 0")
            continue
        m = dt.mono_of(rv) if not isinstance(rv, (str, list, tuple, dict, type(None))) else None
        if m is None or W is None:
            ctx.gap("R20.1", f"the value returned for unit {unit!r} (`{show(rv)[:80]}`) is not a monomial of the measured width")
            continue
        coef, fac = m
        if any(p.startswith("?") or "?" in p.split("(")[0] for p in fac):
            ctx.gap("R20.1", f"the value returned for unit {unit!r} (`{show(rv)[:80]}`) contains a term the evaluator could not interpret")
            continue
        norm = {}
        for p, (e, t) in fac.items():
            if p == W.path:
                norm["W"] = e
            elif isinstance(t, Init) and t.path == "dpi":
                norm["dpi"] = e
            else:
                norm[p] = e
        seen_units.setdefault(unit, set()).add((coef, tuple(sorted(norm.items()))))
        ec, ef = expect.get(unit, (None, None))
        ok = ec is not None and coef == ec and norm == ef
        ctx.instance("R20.1", fi.where(), f"unit {unit!r}: returns {coef} x " + " x ".join(f"{k}^{e}" for k, e in sorted(norm.items())) + f" {'==' if ok else '!='} expected [{desc[:100]}]")
        if ec is None:
            ctx.violation("R20.1", fi.short, f"extra unit {unit}", fi.where(), f"undocumented unit {unit!r} is accepted")
        elif not ok:
            ctx.violation("R20.1", fi.short, f"unit {unit}: {coef} {sorted(norm.items())}", fi.where(),
                          f"for unit {unit!r} the result is {float(coef):g} x " + " x ".join(f"{k}^{e}" for k, e in sorted(norm.items())) +
                          f", expected {float(ec):g} x " + " x ".join(f"{k}^{e}" for k, e in sorted(ef.items())) + ": results in different units are no longer exact conversions of one another")
    if n_font_atoms == 0 and not ctx.findings:
        ctx.gap("R20.3", "no membership / index test of the font argument against a finite table was consulted: the font validation was not re-identified")
    for u in units:
        if u not in seen_units and not ctx.findings:
            ctx.gap("R20.1", f"no valuation returns a value for unit {u!r}")
    # ---------------- R20.5 memo keys
    by_key: dict[str, dict] = {}
    for row in rows:
        for e in row["effects"]:
            if e[0] == "setitem" and (isinstance(e[1], dict) or (isinstance(e[1], Sym) and e[1].path.startswith("?mutable:"))):
                k, v = e[2], e[3]
                dk, dv = _deps(k, params), _deps(v, params)
                kparts = list(k) if isinstance(k, tuple) else [k]
                has_unit = any((isinstance(x, str) and x == row["val"].get("unit")) or (isinstance(x, Sym) and x.path == "unit") for x in kparts)
                by_key.setdefault(path_of(k) + (f" | unit={row['val'].get('unit')}" if has_unit else ""), {}).setdefault(show(v), set()).add(row["val"].get("unit"))
                miss = sorted(dv - dk)
                ctx.instance("R20.5", fi.where(e[4]), f"memo store key `{path_of(k)[:80]}` (depends on {sorted(dk)}{' + unit' if has_unit else ''}) value depends on {sorted(dv)}")
                if miss:
                    ctx.violation("R20.5", fi.short, "memo key lacks " + ",".join(miss), fi.where(e[4]),
                                  f"a memoised value that depends on {sorted(dv)} is stored under the key `{path_of(k)[:80]}` which does not contain {miss}: a later call with "
                                  f"another {miss[0]} returns the stale value")
    for k, vals in by_key.items():
        if len(vals) > 1:
            ctx.violation("R20.5", fi.short, "memo key lacks unit", fi.where(), f"the memo key `{k[:80]}` is the same for different units but the stored value differs ({sorted(vals)[:2]})")
    from ..callgraph import CallGraph
    from ..effects import memo_is_pure
    cg = CallGraph(pm)
    try:
        from ..effects import memo_key_gaps
    except ImportError:
        memo_key_gaps = None
    if memo_key_gaps is not None:
        for short in sorted(cg.reachable([fi.short])):
            f2 = pm.funcs.get(short)
            if f2 is None or f2.module != fi.module:
                continue
            for rec in memo_key_gaps(pm, f2):
                node, cont, kl, vl, missing = rec[:5]
                ctx.instance("R20.5", f2.where(node), f"{short}: memo {cont} key leaves {sorted(kl)} value leaves {sorted(vl)} missing {missing}")
                if missing:
                    ctx.violation("R20.5", fi.short, "memo key lacks " + ",".join(m.split(".")[0] for m in missing), f2.where(node),
                                  f"{short}: the memo {cont} stores a value computed from {sorted(vl)} under a key that does not contain {missing}: a later call with another "
                                  f"{missing[0]} returns the stale value")
    for short in sorted(cg.reachable([fi.short])):
        f2 = pm.funcs.get(short)
        if f2 is None or f2.module != fi.module and not f2.module.endswith("fonts_mapping"):
            continue
        memo = [d for d in f2.decorators if d.split(".")[-1] in ("lru_cache", "cache")]
        if memo:
            pure, why = memo_is_pure(pm, f2)
            ctx.instance("R20.5", f2.where(), f"{short} is memoised ({memo[0]}) on its arguments: result depends only on them: {pure} ({why})")
            if not pure:
                ctx.violation("R20.5", short, "memoised " + memo[0], f2.where(), f"{short} is memoised but {why}")
    # ---------------- R20.2 finite tables
    r20_2(ctx, dt, fi)
    ctx.floor("R20.1", 4)
    ctx.floor("R20.3", 3)
    ctx.floor("R20.4", 2)


def r20_2(ctx: Ctx, dt: SDT, fi) -> None:
    pm = ctx.pm
    f2 = pm.func("FontMapping.get_font_name_to_number_mapping")
    try:
        vals = []
        for short in ("FontMapping.get_font_name_to_number_mapping", "FontMapping.get_font_number_to_name_mapping", "FontMapping.get_font_paths", "FontMapping.get_font_table"):
            v = const_call(pm, short)
            if v is NOC:
                v = dt.closed_value(pm.func(short).module, short + "()")       # tables built by zip / dict(...) / comprehensions: symbolic evaluation, closed result
            vals.append(v)
        n2n, num2, paths, table = vals
    except AnalysisError as e:
        ctx.gap("R20.2", f"font tables not found: {e}")
        return
    if any(x is NOC or not isinstance(x, dict) for x in (n2n, num2, paths, table)):
        ctx.gap("R20.2", "the font maps of FontMapping are not constant tables of the source")
        return
    numbers = _literal_values(pm, f2.module, ast.Name(id="FontNumber", ctx=ast.Load())) or list(range(1, 11))
    inv = {v: k for k, v in n2n.items()}
    ctx.instance("R20.2", f2.where(), f"name->number {len(n2n)} entries, number->name {len(num2)} entries, paths {len(paths)} entries, declared numbers {numbers}")
    if inv != num2 or len(inv) != len(n2n):
        ctx.violation("R20.2", "FontMapping", "maps not inverse", f2.where(), "number->name is not the inverse of name->number: a font given by number and by name gives different results")
    if sorted(num2) != sorted(numbers):
        ctx.violation("R20.2", "FontMapping", f"numbers {sorted(num2)}", f2.where(), f"font numbers are not exactly the declared {numbers}")
    for num, name in sorted(num2.items()):
        row_ok = isinstance(table.get("name"), list) and isinstance(table.get("type"), list) and 0 < num <= len(table["name"]) and table["name"][num - 1] == name and table["type"][num - 1] == num
        ok = name in paths and row_ok
        ctx.instance("R20.2", f2.where(), f"font {num} <-> {name!r} -> {paths.get(name)}; font table row agrees: {row_ok}")
        if not ok:
            ctx.violation("R20.2", "FontMapping", f"font {num} {name}", f2.where(), f"font {num} ({name}) has no font file or disagrees with the emitted font table")
    # the tables get_string_width actually consults
    used = {}
    for key, rec in dt.cmp.items():
        if rec[0] == "member" and isinstance(rec[2], (dict, list, tuple)) and any(isinstance(p, Init) and p.path == "font" for p in sparts(rec[1])):
            used[dt.table_name(rec[2])] = rec[2]
    for tn, tab in sorted(used.items()):
        keys = list(tab)
        if keys and all(isinstance(k, int) for k in keys):
            same = isinstance(tab, dict) and dict(tab) == num2
            ctx.instance("R20.2", fi.where(), f"get_string_width tests font numbers against {tn}: equals FontMapping's number->name map: {same}")
            if not same and isinstance(tab, dict):
                ctx.violation("R20.2", fi.short, f"number table {tn}", fi.where(), f"get_string_width resolves font numbers through {tn}, which differs from FontMapping's number->name map")
        elif keys and all(isinstance(k, str) for k in keys):
            missing = sorted(set(num2.values()) - set(keys))
            ctx.instance("R20.2", fi.where(), f"get_string_width tests font names against {tn}: every numbered font has an entry: {not missing}")
            if missing:
                ctx.violation("R20.2", fi.short, f"name table lacks {missing[:3]}", fi.where(), f"fonts {missing} can be selected by number but have no entry in {tn}")
    ctx.floor("R20.2", 11)
