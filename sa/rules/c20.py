"""C20 - string width measurement is consistent (the statically decidable clauses).

get_string_width's syntax tree is interpreted (model interpreter, sa/rules/c17.py) with a model font loader:
ImageFont.truetype(path, size) records what it is asked to load and returns a font whose getlength(text) records the
measured text and returns a generic pixel width W.  Observed:

R20.1 for every unit the result is the exact conversion of W: px = W, in = W / dpi, mm = W / dpi * 25.4, for several dpi,
      also when the same string is measured again at another dpi (stale memoised results);
R20.2 the number<->name maps are inverse, cover 1..10, agree with the emitted font table, and a font given by number or by
      name loads the same font file and gives the same result;
R20.3 unsupported font numbers / names / units raise ValueError, whatever the text (also the empty string);
R20.4 the font is loaded at the requested size itself (or, for Pillow < 10 only, its ceiling) and the measured string is
      the text argument itself.
Not decided here (properties of Pillow/FreeType on the bundled fonts): 0 for '', non-negativity, monotonicity under
appending, 1% scaling, monospace advance.
"""
from __future__ import annotations

import math

from ..pm import AnalysisError
from ..report import Ctx
from .c17 import ExtRef, Interp, Unknown, Unsupported, _Model, is_artefact, interp_pm, cover, METHOD, run_valuations

UNITS = {"px": lambda w, dpi: w, "in": lambda w, dpi: w / dpi, "mm": lambda w, dpi: w / dpi * 25.4}


class _Res(_Model):
    """importlib.resources.files(package): a traversable supporting `/` and str()"""

    def __init__(self, s="<pkg:rtflite.fonts>"):
        self.s = s

    def __truediv__(self, o):
        if not isinstance(o, str):
            raise Unsupported(f"resource path joined with {o!r}")
        return _Res(self.s + "/" + o)

    def joinpath(self, *o):
        r = self
        for x in o:
            r = r / x
        return r

    def __str__(self):
        return self.s

    def __fspath__(self):
        return self.s

    def __enter__(self):
        return self

    def __exit__(self, *a):
        return False


class _Font(_Model):
    def __init__(self, world, path, size):
        self.world, self.path, self.size = world, path, size

    def getlength(self, text, *a, **k):
        if not isinstance(text, str):
            raise Unsupported(f"getlength of {text!r}")
        self.world.measured.append((self.path, self.size, text))
        return self.world.width(self.path, self.size, text)

    def getbbox(self, text, *a, **k):
        w = self.getlength(text)
        return (0, 0, w, float(self.size))


class World:
    """model of Pillow's font loader and of importlib.resources"""

    def __init__(self, pm):
        self.it = Interp(pm)
        self.loads, self.measured = [], []
        w = self

        class ImageFontModel(_Model):
            def truetype(self, font=None, size=10, *a, **k):
                if isinstance(size, (Unknown, ExtRef)) or isinstance(font, (Unknown, ExtRef)):
                    raise Unsupported("font loaded with unknown path/size")
                w.loads.append((str(font), size))
                return _Font(w, str(font), size)
            FreeTypeFont = _Font
        self.it.externals.update({
            "PIL.ImageFont": ImageFontModel(), "PIL.__version__": Unknown("PIL.__version__"),
            "importlib.resources.files": lambda *a, **k: _Res(), "importlib.resources.as_file": lambda r: r,
            "importlib_resources.files": lambda *a, **k: _Res(),
        })

    @staticmethod
    def width(path, size, text):
        # a generic positive width: depends on every argument, no special structure
        h = sum((i + 3) * ord(c) for i, c in enumerate(text)) % 977
        return 17.03125 + float(size) * (len(text) * 0.53125 + h / 1024.0) + (sum(map(ord, path)) % 89) / 64.0


def _close(a, b) -> bool:
    return isinstance(a, (int, float)) and not isinstance(a, bool) and math.isclose(a, b, rel_tol=1e-12, abs_tol=1e-12)


def _exc(o) -> str:
    return o[1].cls.mro_names()[0] if o[0] == "raise" and o[1].cls is not None else ""


def check(ctx: Ctx) -> None:
    pm = interp_pm(ctx.pm)
    ctx.explain(
        "get_string_width is interpreted with a model font loader (truetype records path and size, getlength records the text and "
        "returns a generic width W). R20.1 results are W, W/dpi, 25.4·W/dpi for px/in/mm at several dpi, also on re-measuring at "
        "another dpi; R20.2 the name->number and number->name maps are mutually inverse, cover 1..10, agree with the font table, "
        "and number and name load the same font file with the same result; R20.3 unsupported font numbers, names and units raise "
        "ValueError for any text; R20.4 the size handed to the loader is font_size itself (or its ceiling in the Pillow<10 branch) "
        "and the measured string is the text argument. Clauses about the numeric result of FreeType's getlength are not decidable "
        "from rtflite's source.")
    ctx.assume("Pillow's FreeTypeFont.getlength is deterministic, additive enough and scale-linear for the bundled fonts (not analysed)")
    for c in ("0 for the empty string", "non-negativity", "monotonicity under appending", "width scales with size within 1%", "monospace advance equality"):
        ctx.undecided(c + " (property of Pillow/FreeType on the bundled fonts)")
    ctx.explain("Method: " + METHOD + ". The pixel width returned by the model font is a concrete generic number depending on font file, size and "
                "text; the only unknown is the Pillow version (both branches enumerated). Decided for: all fonts of the number->name map by number "
                "and by name, units px/in/mm at dpi 72/96/300/36/600 including re-measurement in one process, 6 unsupported fonts and 4 unsupported "
                "units with empty and non-empty text, font sizes 12/9.5/10.4/7.25/23.9 (counts in coverage.interpretation).")
    ctx.assume("ImageFont.truetype / FreeTypeFont.getlength and importlib.resources are models that record their arguments; no font file is opened")
    ctx.undecided("dpi, sizes, strings and unsupported fonts/units other than the listed samples (the conversion clauses are decided on samples of a "
                  "straight-line computation, not symbolically)")
    stats = {"sequences": 0, "calls": 0, "forks": 0}
    fi = pm.func("get_string_width")
    params = [a.arg for a in list(fi.node.args.posonlyargs) + list(fi.node.args.args)]
    need = ["text", "font", "font_size", "unit", "dpi"]
    if any(p not in params + [a.arg for a in fi.node.args.kwonlyargs] for p in need):
        raise AnalysisError(f"get_string_width no longer takes the parameters {need}")

    def calls(seq):
        """run a sequence of get_string_width calls in one fresh model world, under every valuation of unknown conditions
        (the Pillow version) -> [(valuation, [outcome per call], world)]"""
        def make():
            w = World(pm)
            f = w.it.func_val(fi)

            def thunk():
                res = []
                for kw in seq:
                    n0 = len(w.loads), len(w.measured)
                    o = w.it.outcome(lambda: w.it.call(f, [], dict(kw)))
                    res.append((o, w.loads[n0[0]:], w.measured[n0[1]:]))
                return res
            return w.it, thunk, w
        out = []
        rv = run_valuations(make)
        stats["sequences"] += 1
        stats["calls"] += len(seq) * len(rv)
        stats["forks"] += len(rv) - 1
        for v, o, w in rv:
            if o[0] != "return":
                raise Unsupported(f"interpretation of get_string_width ended with {o[1]!r}")
            out.append((v, o[1], w))
        return out

    def gap_if_artefact(rule, o, label) -> bool:
        if o[0] == "raise" and is_artefact(o[1]):
            ctx.gap(rule, f"{label}: interpretation ended with {o[1]!r} (possibly an artefact of the font-loader model)")
            return True
        return False

    # ---- the font tables (R20.2, also the sample fonts for the other rules)
    it0 = Interp(pm)

    def table(short):
        try:
            return it0.outcome(lambda: it0.call(it0.func_val(pm.func(short)), [], {}))
        except Unsupported as e:
            ctx.gap("R20.2", f"{short} could not be evaluated: {e}")
            return None
    f2 = pm.func("FontMapping.get_font_name_to_number_mapping")
    got = {k: table(f"FontMapping.{k}") for k in ("get_font_name_to_number_mapping", "get_font_number_to_name_mapping", "get_font_paths", "get_font_table")}
    tables_ok = all(o is not None and o[0] == "return" and isinstance(o[1], dict) for o in got.values())
    n2n = num2 = paths = ftab = None
    if not tables_ok:
        bad = [k for k, o in got.items() if o is not None and not (o[0] == "return" and isinstance(o[1], dict))]
        if bad:
            ctx.gap("R20.2", f"FontMapping.{bad[0]} does not evaluate to a mapping ({got[bad[0]]})")
    else:
        n2n, num2, paths, ftab = (got[k][1] for k in ("get_font_name_to_number_mapping", "get_font_number_to_name_mapping", "get_font_paths", "get_font_table"))
        inv = {v: k for k, v in n2n.items()}
        ctx.instance("R20.2", f2.where(), f"name->number {len(n2n)} entries, number->name {len(num2)} entries, paths {len(paths)} entries")
        if inv != dict(num2) or len(inv) != len(n2n):
            ctx.violation("R20.2", "FontMapping", "maps not inverse", f2.where(), "number->name is not the inverse of name->number")
        if sorted(num2) != list(range(1, 11)):
            ctx.violation("R20.2", "FontMapping", f"numbers {sorted(num2)}", f2.where(), "font numbers are not exactly 1..10")
        for num, name in sorted(num2.items()):
            try:
                ok = name in paths and ftab["name"][num - 1] == name and ftab["type"][num - 1] == num
            except (KeyError, IndexError, TypeError):
                ok = False
            ctx.instance("R20.2", f2.where(), f"font {num} <-> {name!r} -> {paths.get(name)}; font table row agrees: {ok}")
            if not ok:
                ctx.violation("R20.2", "FontMapping", f"font {num} {name}", f2.where(), f"font {num} ({name}) has no font file or disagrees with the emitted font table")
    fonts = sorted(num2.items()) if tables_ok else [(1, "Times New Roman"), (4, "Arial"), (9, "Courier New")]
    base = {"text": "Hello, World", "font": fonts[0][1], "font_size": 12, "unit": "px", "dpi": 72.0}

    # ---- R20.2 number and name give the same font file and the same result
    for num, name in fonts:
        for v, res, w in calls([{**base, "font": num, "unit": "in"}, {**base, "font": name, "unit": "in"}]):
            (o1, _, m1), (o2, _, m2) = res
            if gap_if_artefact("R20.2", o1, f"font {num}") or gap_if_artefact("R20.2", o2, f"font {name!r}"):
                continue
            l1, l2 = [(p, sz) for p, sz, _ in m1], [(p, sz) for p, sz, _ in m2]       # the font files the text was measured with
            # a call that measured nothing itself was served from a memo filled by the other one: compare the results only
            same = o1[0] == o2[0] == "return" and (not l1 or not l2 or [p for p, _ in l1] == [p for p, _ in l2]) and _close(o1[1], o2[1])
            want_file = paths.get(name) if paths else None
            used = l2 or l1
            file_ok = want_file is None or not used or all(p.endswith("/" + want_file) or p == want_file for p, _ in used)
            ctx.instance("R20.2", fi.where(), f"font {num} / {name!r}: measured with {sorted({p for p, _ in l1})} / {sorted({p for p, _ in l2})}, same result: {same}")
            if o1[0] == "raise" or o2[0] == "raise":
                ctx.violation("R20.2", fi.short, f"font {num}/{name} rejected", fi.where(),
                              f"supported font {num} / {name!r} is rejected: {o1[1] if o1[0] == 'raise' else o2[1]!r}")
            elif not same:
                ctx.violation("R20.2", fi.short, f"font {num} differs from {name}", fi.where(),
                              f"font number {num} is measured with {[p for p, _ in l1]} and returns {o1[1]!r}, font name {name!r} with {[p for p, _ in l2]} and returns {o2[1]!r}")
            elif not file_ok:
                ctx.violation("R20.2", fi.short, f"font {name} file", fi.where(), f"font {name!r} is measured with {[p for p, _ in used]}, the font map says {want_file!r}")
    # ---- R20.1 unit conversions, several dpi, re-measured at another dpi in the same process
    dpis = (72.0, 96.0, 300.0, 36.0)
    for unit, conv in UNITS.items():
        seq = [{**base, "unit": unit, "dpi": d} for d in dpis] + [{**base, "unit": unit, "dpi": 600.0, "font": fonts[0][0]}]
        for v, res, w in calls(seq):
            for kw, (o, loads, measured) in zip(seq, res):
                label = f"unit {unit!r} at dpi {kw['dpi']}"
                if gap_if_artefact("R20.1", o, label):
                    continue
                if o[0] == "raise":
                    ctx.violation("R20.1", fi.short, f"unit {unit} rejected", fi.where(), f"{label}: supported unit raises {o[1]!r}")
                    continue
                # the pixel width measured for this call (or, if the call measured nothing itself, by the first call:
                # same text, font and size throughout the sequence)
                ref = (measured or w.measured)[:1]
                if not ref:
                    ctx.gap("R20.1", f"{label}: nothing was measured through a font loaded by ImageFont.truetype")
                    continue
                W = World.width(*ref[0])
                exp = conv(W, kw["dpi"])
                ok = _close(o[1], exp)
                ctx.instance("R20.1", fi.where(), f"{label}: returns {o[1]!r}, exact conversion of the measured {W!r} px is {exp!r}: {ok}")
                if not ok:
                    ctx.violation("R20.1", fi.short, f"unit {unit}: not the exact conversion", fi.where(),
                                  f"{label}: get_string_width returns {o[1]!r} but the measured pixel width {W!r} converts to {exp!r}; "
                                  "results in different units / at different dpi are no longer exact conversions of one another")
    # ---- R20.3 unsupported fonts / units raise ValueError, whatever the text
    bad_fonts = [0, 11, -1, 99, "No Such Font", ""]
    bad_units = ["cm", "pt", "", "IN"]
    for text in ("Hello", ""):
        for label, kw in [(f"font number {f}" if isinstance(f, int) else f"font name {f!r}", {"font": f}) for f in bad_fonts] + \
                         [(f"unit {u!r}", {"unit": u}) for u in bad_units]:
            kind = label.split(" ")[0] + " " + label.split(" ")[1] if label.startswith("font") else "unit"
            for v, res, w in calls([{**base, "text": text, **kw}]):
                o = res[0][0]
                if gap_if_artefact("R20.3", o, label):
                    continue
                names = o[1].cls.mro_names() if o[0] == "raise" else []
                ctx.instance("R20.3", fi.where(), f"unsupported {label}, text {text!r}: {o[0]} {names[:1] if names else repr(o[1])}")
                if o[0] != "raise":
                    ctx.violation("R20.3", fi.short, f"unsupported {kind} accepted" + (" for empty text" if text == "" else ""), fi.where(),
                                  f"get_string_width({text!r}, {', '.join(f'{k}={x!r}' for k, x in kw.items())}) returns {o[1]!r} instead of raising ValueError")
                elif "ValueError" not in names:
                    ctx.violation("R20.3", fi.short, f"unsupported {kind} raises {names[0]}", fi.where(),
                                  f"unsupported {label} raises {names[0]} instead of ValueError")
    # ---- R20.4 requested size and text reach the loader unmodified
    for size in (12, 9.5, 10.4, 7.25, 23.9):
        text = "  width of this text  "
        runs = calls([{**base, "text": text, "font_size": size}, {**base, "text": text.strip() + "!", "font_size": size}])
        exact = []
        for v, res, w in runs:
            o, loads, measured = res[0]
            if gap_if_artefact("R20.4", o, f"font_size {size}"):
                continue
            if o[0] == "raise":
                ctx.violation("R20.4", fi.short, f"size {size} rejected", fi.where(), f"font_size {size} raises {o[1]!r}")
                continue
            sizes = [s for _, s, _ in measured]
            measured = [t for _, _, t in measured]
            ctx.instance("R20.4", fi.where(), f"font_size {size}: measured at size {sizes}, text {measured} (unknown conditions {v})")
            if not sizes:
                ctx.gap("R20.4", "nothing was measured through a font loaded by ImageFont.truetype")
                continue
            exact.append(all(s == size and (isinstance(s, float) or float(size).is_integer()) for s in sizes))
            bad = [s for s in sizes if not (s == size or (s == math.ceil(size) and isinstance(s, int)))]
            if bad:
                ctx.violation("R20.4", fi.short, "size " + ("rounded" if any(float(b).is_integer() for b in bad) else "snapped"), fi.where(),
                              f"for font_size {size} the font is loaded at {bad[0]!r}, not at the requested size (width no longer scales with size)")
            if measured != [text]:
                ctx.violation("R20.4", fi.short, "measured text", fi.where(), f"the measured string is {measured!r}, not the text argument itself ({text!r})")
            o2, loads2, measured2 = res[1]
            if o2[0] == "return" and [t for _, _, t in measured2] != [text.strip() + "!"]:
                ctx.violation("R20.4", fi.short, "measured text", fi.where(), f"a second call measures {measured2!r} instead of its own text argument")
        if exact and not any(exact):
            ctx.violation("R20.4", fi.short, "size never exact", fi.where(), f"for font_size {size} no Pillow version gets the font at exactly the requested size")
    cover(ctx, call_sequences=stats["sequences"], interpreted_calls=stats["calls"], forks_on_unknown_conditions=stats["forks"],
          fonts=[list(x) for x in fonts], dpi=[72.0, 96.0, 300.0, 36.0, 600.0], font_sizes=[12, 9.5, 10.4, 7.25, 23.9],
          unsupported_fonts=[repr(x) for x in bad_fonts], unsupported_units=bad_units,
          fork_enumeration="all valuations of the unknown conditions consulted (Pillow version), at most 48 runs per sequence")
    ctx.floor("R20.1", 4)
    ctx.floor("R20.2", 13)
    ctx.floor("R20.3", 3)
    ctx.floor("R20.4", 3)
