"""C02 - no data cell is lost, duplicated, reordered or altered (structural necessary conditions).

R02.1 cursor partitions at the slicing layers; R02.2 page = [min,max] slice of the paginated frame
(shared R04.5); R02.3 every row gets exactly one, monotone page number (shared R04.1); R02.4 index
agreement in TableAttributes._encode; R02.5 order-preserving column removal computed on the original
frame; R02.6 display predicate == removal predicate (shared R05.2); R02.7 multi-section order;
R02.8 the text pipeline of a cell depends only on that cell (no cache across cells).
"""
from __future__ import annotations

import ast

from ..callgraph import CallGraph
from ..effects import Shared, stores_in
from ..pm import dotted, unparse, walk_no_nested
from ..report import Ctx
from . import tablecore as T


def r02_7(ctx: Ctx) -> None:
    pm = ctx.pm
    fi = pm.func("UnifiedRTFEncoder._encode_multi_section")
    loops = [n for n in walk_no_nested(fi.node) if isinstance(n, ast.For) and "zip(df_list, body_list" in unparse(n.iter)]
    ok = len(loops) == 1 and "strict=True" in unparse(loops[0].iter) and unparse(loops[0].iter).startswith("enumerate(")
    t = unparse(fi.node)
    enc = "section_body_content = self._encode_body_section(temp_document, section_df, section_body)" in t and "all_section_content.extend(section_body_content)" in t
    upd = "'df': section_df" in t and "'rtf_body': section_body" in t
    ctx.instance("R02.7", fi.where(), f"multi-section: sections zipped strictly in list order {ok}; each encoded with its own frame/body {enc and upd}")
    if not (ok and enc and upd):
        ctx.violation("R02.7", fi.short, "section loop", fi.where(), "sections are not encoded one by one, in list order, each from its own frame and body, and concatenated in that order")
    if loops:
        skips = [x for s in loops[0].body for x in ast.walk(s) if isinstance(x, (ast.Continue, ast.Break))]
        if skips:
            ctx.violation("R02.7", fi.short, "section skipped", fi.where(loops[0]), "a section can be skipped")
    e = pm.func("UnifiedRTFEncoder._encode_body_section")
    te = unparse(e.node)
    ok2 = "for _i, page in enumerate(pages):" in te or "for page in pages:" in te
    ok3 = "section_rtf_chunks.extend(chunks)" in te and "return section_rtf_chunks" in te
    ctx.instance("R02.7", e.where(), f"pages rendered in list order and concatenated: {ok2 and ok3}")
    if not (ok2 and ok3):
        ctx.violation("R02.7", e.short, "page loop", e.where(), "pages are not rendered in page order and concatenated")
    first = "processed_df, original_df, processed_attrs = self.encoding_service.prepare_dataframe_for_body_encoding(df, rtf_body)" in te
    ctxdf = "df=original_df" in te and "self._apply_data_post_processing(pages, processed_df, rtf_body)" in te
    ctx.instance("R02.7", e.where(), f"pagination on the original frame, page data re-cut from the reduced frame: {first and ctxdf}")
    if not (first and ctxdf):
        ctx.violation("R02.7", e.short, "frames", e.where(), "pagination/rendering no longer use (original frame for grouping, reduced frame for display) consistently")


def r02_8(ctx: Ctx) -> None:
    """cell text depends only on the cell: the text pipeline neither reads nor writes shared mutable state"""
    pm = ctx.pm
    cg = CallGraph(pm)
    sh = Shared(pm)
    reach = cg.reachable(["TextContent._as_rtf"])
    written = set()
    for fi in pm.iter_funcs():
        for st in stores_in(fi):
            tgt = sh.shared_target(cg, st)
            if tgt:
                written.add(tgt.split(" ")[0])
    n = 0
    for short in sorted(reach):
        fi = pm.funcs.get(short)
        if fi is None:
            continue
        for st in stores_in(fi):
            tgt = sh.shared_target(cg, st)
            if tgt:
                n += 1
                ctx.violation("R02.8", short, "writes " + tgt, st.where, f"{short} (text pipeline of a cell) writes shared state {tgt}: `{st.text()}`; a cell's text can depend on other cells rendered before it")
        for d in fi.decorators:
            from ..effects import memo_is_pure
            if d.split(".")[-1] in ("lru_cache", "cache") and not memo_is_pure(pm, fi)[0]:
                ctx.violation("R02.8", short, "memoised " + d, fi.where(), f"{short} is memoised; unless every input (text, flag) is in the key, one cell's result is served for another")
    ctx.instance("R02.8", pm.func("TextContent._as_rtf").where(), f"{len(reach)} functions of the per-cell text pipeline write no shared state and are not memoised")
    tc = pm.func("TextContent._convert_special_chars")
    t = unparse(tc.node)
    first = [s for s in tc.node.body if not (isinstance(s, ast.Expr) and isinstance(s.value, ast.Constant))][0]
    ok = isinstance(first, ast.Assign) and unparse(first) == "text = self.text"
    ctx.instance("R02.8", tc.where(), f"text pipeline starts from self.text: {ok}")
    if not ok:
        ctx.violation("R02.8", tc.short, "pipeline input", tc.where(first), "the cell's text pipeline does not start from the cell's own text")


def check(ctx: Ctx) -> None:
    ctx.explain(
        "Structural necessary conditions for row/cell preservation: R02.1 the three slicing layers are cursor partitions "
        "(post-processing re-slice: slice(cursor, h); cursor += h twice; _render_body: [prev:boundary) segments plus tail, cursor "
        "from 0, row_offset = slice lower bound); R02.2/R02.3 via C04's page-slice and page-assignment tables; R02.4 cell (i,j) of "
        "_encode is df.row(i)[j] with null->'' else str(), width col_widths[j], one cell per (i,j), one row per i; R02.5 removal "
        "keeps the frame's own column order and computes positions on the original frame; R02.6 via C05's three-site predicate "
        "table; R02.7 sections/pages in list order; R02.8 the per-cell text pipeline touches no shared state.")
    ctx.assume("polars slice/select/row return the rows/columns they are documented to return")
    ctx.undecided("that the concatenated page rows equal the input for concrete frames (row->page arithmetic is run-time); cell text after escaping/conversion (C10/C11)")
    T.cursor_post_processing(ctx, "R02.1")
    T.cursor_render_body(ctx, "R02.1")
    from .c04 import r04_1, r04_5
    r04_5(ctx)
    r04_1(ctx, mode="assign")     # every row gets exactly one, monotone page number; where breaks fall is C04's subject
    T.encode_index_agreement(ctx, "R02.4")
    T.column_removal(ctx, "R02.5")
    from .c05 import r05_2, r05_7
    r05_2(ctx)
    r05_7(ctx)
    r02_7(ctx)
    r02_8(ctx)
