"""C02 - no data cell is lost, duplicated, reordered or altered (structural necessary conditions).

R02.1 cursor partitions at the slicing layers; R02.2 page = [min,max] slice of the paginated frame
(shared R04.5); R02.3 every row gets exactly one, monotone page number (shared R04.1); R02.4 index
agreement in TableAttributes._encode; R02.5 order-preserving column removal computed on the original
frame; R02.6 display predicate == removal predicate (shared R05.2); R02.7 multi-section order;
R02.8 the text pipeline of a cell depends only on that cell (no cache across cells).

R02.1, R02.4, R02.5 and R02.7 are decided by scenario execution (tablecore.Scen): the function is
interpreted on mock frames/pages and what it does with the rows is compared with the property, so the
rules do not depend on statement shape, local names, helper extraction or loop form.
"""
from __future__ import annotations

import ast

from ..callgraph import CallGraph
from ..effects import Shared, stores_in
from ..report import Ctx
from . import tablecore as T


def r02_7(ctx: Ctx) -> None:
    """multi-section documents: sections are encoded one by one in list order, each from its own frame and body, and
    concatenated in that order (interpreted on a mock 3-section document); an unequal number of frames and bodies must not
    be truncated silently.  Then the page order inside one section (tablecore.body_section_order)."""
    from ..pm import AnalysisError
    pm = ctx.pm
    fi = pm.func("UnifiedRTFEncoder._encode_multi_section")
    ps = [a.arg for a in fi.node.args.args]
    services = ("encode_document_start", "encode_font_table", "encode_color_table", "encode_page_header", "encode_page_footer", "encode_page_settings")
    T.scenario_note(ctx, "R02.7", "UnifiedRTFEncoder._encode_multi_section", "for every content of the sections",
                    {"sections (frames, bodies)": [(3, 3), (3, 2)], "columns per section": [3, 2, 3], "titles/footnotes/sources": "absent", "evaluations": 2})

    def mkdoc(n_bodies):
        dfs = [T.Frame(f"s{k}", range(2 + k), ["a", "b", "c"][:3 - (k % 2)]) for k in range(3)]
        bodies = [T.Obj(f"body{k}", cls="RTFBody", new_page=False, border_bottom=[["x"]]) for k in range(n_bodies)]
        page = T.Obj("rtf_page", cls="RTFPage", border_first="double", border_last="double", page_title="all", page_footnote="last", page_source="last")
        return T.Obj("document", cls="RTFDocument", df=dfs, rtf_body=bodies, rtf_column_header=[[T.Obj("h0")], [T.Obj("h1")], [None]], rtf_page=page,
                     rtf_title=None, rtf_footnote=None, rtf_source=None, rtf_subline=None, rtf_page_header=None, rtf_page_footer=None)

    def sections_in(v, acc):
        if isinstance(v, T.Mark):
            if v.name == "_encode_body_section":
                acc.append(v)
            else:
                for x in list(v.args) + list(v.kw.values()):
                    sections_in(x, acc)
        elif isinstance(v, (list, tuple)):
            for x in v:
                sections_in(x, acc)
        elif isinstance(v, T.Splat):
            sections_in(v.v, acc)
        return acc

    for n_bodies in (3, 2):
        markers = {"_encode_body_section": "list", "update_row": "scalar", **{k: "scalar" for k in services}}
        try:
            if len(ps) != 2:
                raise AnalysisError("signature (self, document) not recognised")
            runs = T.Scen(pm, markers=markers).runs(fi, {ps[0]: T.Sym("self", fi.cls), ps[1]: mkdoc(n_bodies)})
        except AnalysisError as e:
            ctx.gap("R02.7", f"_encode_multi_section could not be interpreted on a mock {n_bodies}-body document: {e}")
            continue
        for _val, r in runs:
            calls = [m for m in r.trace if m.name == "_encode_body_section"]
            if n_bodies == 2:
                ctx.instance("R02.7", fi.where(), f"multi-section with 3 frames and 2 bodies: raises {r.raised!r}; sections encoded {len(calls)}")
                if not r.raised:
                    ctx.violation("R02.7", fi.short, "section loop: unequal lists truncated", fi.where(),
                                  f"with 3 frames and 2 bodies {len(calls)} sections are encoded and the rest is dropped silently (the lists must be zipped strictly)")
                continue
            if r.raised:
                ctx.gap("R02.7", f"_encode_multi_section raises {r.raised} on a mock 3-section document")
                continue
            emitted = sections_in(r.ret, [])
            order = []
            bad = []
            for m in emitted:
                d, f, b = (m.args + [None, None, None])[:3]
                k = int(f.tag[1:]) if isinstance(f, T.Frame) and f.tag[:1] == "s" and f.tag[1:].isdigit() else None
                order.append(k)
                if not (isinstance(b, T.Obj) and b.name == f"body{k}"):
                    bad.append(f"section {k} is encoded with body {b!r}")
                if isinstance(d, T.Obj):
                    if not (isinstance(d.attrs.get("df"), T.Frame) and d.attrs["df"].tag == f"s{k}") or not (isinstance(d.attrs.get("rtf_body"), T.Obj) and d.attrs["rtf_body"].name == f"body{k}"):
                        bad.append(f"the document copy of section {k} carries df={d.attrs.get('df')!r}, rtf_body={d.attrs.get('rtf_body')!r}")
                else:
                    bad.append(f"section {k} is encoded against `{d!r}`, not a per-section copy of the document")
            ctx.instance("R02.7", fi.where(), f"multi-section: sections reach the output in the order {order} (encoded: {len(calls)}); each with its own frame/body: {not bad}")
            if order != [0, 1, 2] or len(calls) != 3:
                ctx.violation("R02.7", fi.short, "section loop", fi.where(), f"sections are not encoded one by one, in list order, and concatenated in that order: sections [0, 1, 2] reach the output as {order}"
                              + (" (a section can be skipped)" if len(order) < 3 else ""))
            elif bad:
                ctx.violation("R02.7", fi.short, "section loop: frame/body", fi.where(), "a section is not encoded from its own frame and body: " + bad[0])
    T.body_section_order(ctx, "R02.7")


def r02_8(ctx: Ctx) -> None:
    """cell text depends only on the cell: the text pipeline neither reads nor writes shared mutable state"""
    pm = ctx.pm
    cg = CallGraph(pm)
    sh = Shared(pm)
    reach = cg.reachable(["TextContent._as_rtf"])
    written = set()
    for fi in pm.iter_funcs():
        for st in stores_in(fi):
            tgt = sh.shared_target(cg, st)
            if tgt:
                written.add(tgt.split(" ")[0])
    n = 0
    for short in sorted(reach):
        fi = pm.funcs.get(short)
        if fi is None:
            continue
        for st in stores_in(fi):
            tgt = sh.shared_target(cg, st)
            if tgt:
                n += 1
                ctx.violation("R02.8", short, "writes " + tgt, st.where, f"{short} (text pipeline of a cell) writes shared state {tgt}: `{st.text()}`; a cell's text can depend on other cells rendered before it")
        for d in fi.decorators:
            from ..effects import memo_is_pure
            if d.split(".")[-1] in ("lru_cache", "cache") and not memo_is_pure(pm, fi)[0]:
                ctx.violation("R02.8", short, "memoised " + d, fi.where(), f"{short} is memoised; unless every input (text, flag) is in the key, one cell's result is served for another")
    ctx.instance("R02.8", pm.func("TextContent._as_rtf").where(), f"{len(reach)} functions of the per-cell text pipeline write no shared state and are not memoised")
    tc = pm.func("TextContent._convert_special_chars")
    selfname = tc.node.args.args[0].arg if tc.node.args.args else "self"
    readers = []
    for short in sorted({tc.short} | {s for s in cg.reachable([tc.short]) if s.startswith("TextContent.")}):
        f2 = pm.funcs.get(short)
        if f2 is None:
            continue
        s2 = f2.node.args.args[0].arg if f2.node.args.args else selfname
        if any(isinstance(n, ast.Attribute) and isinstance(n.ctx, ast.Load) and n.attr == "text" and isinstance(n.value, ast.Name) and n.value.id == s2 for n in ast.walk(f2.node)):
            readers.append(short)
    ctx.instance("R02.8", tc.where(), f"text pipeline reads the cell's own text (self.text) in {readers}")
    if not readers:
        ctx.gap("R02.8", "TextContent._convert_special_chars: no read of the cell's own text (self.text) could be re-identified in the text pipeline")


def check(ctx: Ctx) -> None:
    ctx.explain(
        "Necessary conditions for row/cell preservation, decided by interpreting the functions of the table pipeline on mock tables whose "
        "rows, columns and attribute entries are distinguishable (no repository code runs; sa/dtab.py evaluates the syntax trees): "
        "R02.1 _apply_data_post_processing re-cuts mock pages as consecutive slices of the reduced (with group_by: restored) frame; "
        "_render_body hands every row of a mock page with internal group boundaries to _encode exactly once, in order, with "
        "row_offset = position of the segment's first row, under every valuation of the configuration it reads; R02.2/R02.3 via C04's "
        "page-slice and page-assignment tables; R02.4 _encode on a mock segment with nulls in a string and in a numeric column: one "
        "table row per data row, cell (i,j) shows df[i,j] (null -> '', else str) and ends at col_widths[j]; R02.5 column removal on a "
        "mock frame with two removed columns; R02.6 via C05's three-site predicate table; R02.7 sections and pages reach the output "
        "in list order, each section from its own frame/body; R02.8 the per-cell text pipeline touches no shared state.")
    ctx.assume("polars slice/head/tail/select/drop/row/fill_null return the rows/columns they are documented to return (fill_null(value) only fills columns whose dtype accepts the value)")
    ctx.assume("BroadcastValue's `value` validator (_to_nested_list) normalises scalars, flat lists, tuples and frames to nested lists as modelled in tablecore.nested_list_form")
    ctx.undecided("that the concatenated page rows equal the input for concrete frames (row->page arithmetic is run-time); cell text after escaping/conversion (C10/C11)")
    T.cursor_post_processing(ctx, "R02.1")
    T.cursor_render_body(ctx, "R02.1")
    from .c04 import r04_1, r04_5
    r04_5(ctx)
    r04_1(ctx, mode="assign")     # every row gets exactly one, monotone page number; where breaks fall is C04's subject
    T.encode_index_agreement(ctx, "R02.4")
    T.column_removal(ctx, "R02.5")
    from .c05 import r05_2, r05_7
    r05_2(ctx)
    r05_7(ctx)
    r02_7(ctx)
    r02_8(ctx)
