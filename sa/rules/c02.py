"""C02 - no data cell is lost, duplicated, reordered or altered (structural necessary conditions).

R02.1 cursor partitions at the slicing layers; R02.2 page = [min,max] slice of the paginated frame
(shared R04.5); R02.3 every row gets exactly one, monotone page number (shared R04.1); R02.4 index
agreement in TableAttributes._encode; R02.5 order-preserving column removal computed on the original
frame; R02.6 display predicate == removal predicate (shared R05.2); R02.7 multi-section order;
R02.8 the text pipeline of a cell depends only on that cell (no cache across cells).

R02.1, R02.4 and R02.7 are decided by abstract evaluation over symbolic inputs (tablecore.TDT: one generic
page / boundary / cell / section, every valuation of the consulted conditions) and the verdict is read
off the resulting terms; R02.5 and R02.8 are structural / effects rules.
"""
from __future__ import annotations

import ast

from ..callgraph import CallGraph
from ..effects import Shared, stores_in
from ..report import Ctx
from . import tablecore as T


def r02_7(ctx: Ctx) -> None:
    """multi-section documents: sections are encoded one by one in list order, each from its own frame and body, and concatenated in that
    order; an unequal number of frames and bodies must not be truncated silently (one generic section of the section loop,
    tablecore.section_loop).  Then the page order inside one section (tablecore.body_section_order)."""
    T.section_loop(ctx, "R02.7")
    T.body_section_order(ctx, "R02.7")


def r02_8(ctx: Ctx) -> None:
    """cell text depends only on the cell: the text pipeline neither reads nor writes shared mutable state"""
    pm = ctx.pm
    cg = CallGraph(pm)
    sh = Shared(pm)
    reach = cg.reachable(["TextContent._as_rtf"])
    written = set()
    for fi in pm.iter_funcs():
        for st in stores_in(fi):
            tgt = sh.shared_target(cg, st)
            if tgt:
                written.add(tgt.split(" ")[0])
    n = 0
    for short in sorted(reach):
        fi = pm.funcs.get(short)
        if fi is None:
            continue
        for st in stores_in(fi):
            tgt = sh.shared_target(cg, st)
            if tgt:
                n += 1
                ctx.violation("R02.8", short, "writes " + tgt, st.where, f"{short} (text pipeline of a cell) writes shared state {tgt}: `{st.text()}`; a cell's text can depend on other cells rendered before it")
        for d in fi.decorators:
            from ..effects import memo_is_pure
            if d.split(".")[-1] in ("lru_cache", "cache") and not memo_is_pure(pm, fi)[0]:
                ctx.violation("R02.8", short, "memoised " + d, fi.where(), f"{short} is memoised; unless every input (text, flag) is in the key, one cell's result is served for another")
    ctx.instance("R02.8", pm.func("TextContent._as_rtf").where(), f"{len(reach)} functions of the per-cell text pipeline write no shared state and are not memoised")
    tc = pm.func("TextContent._convert_special_chars")
    selfname = tc.node.args.args[0].arg if tc.node.args.args else "self"
    readers = []
    for short in sorted({tc.short} | {s for s in cg.reachable([tc.short]) if s.startswith("TextContent.")}):
        f2 = pm.funcs.get(short)
        if f2 is None:
            continue
        s2 = f2.node.args.args[0].arg if f2.node.args.args else selfname
        if any(isinstance(n, ast.Attribute) and isinstance(n.ctx, ast.Load) and n.attr == "text" and isinstance(n.value, ast.Name) and n.value.id == s2 for n in ast.walk(f2.node)):
            readers.append(short)
    ctx.instance("R02.8", tc.where(), f"text pipeline reads the cell's own text (self.text) in {readers}")
    if not readers:
        ctx.gap("R02.8", "TextContent._convert_special_chars: no read of the cell's own text (self.text) could be re-identified in the text pipeline")


def check(ctx: Ctx) -> None:
    ctx.explain(
        "Necessary conditions for row/cell preservation, each decided by evaluating the function concerned over SYMBOLIC inputs (tablecore.TDT / c05.LDT: "
        "no repository code runs, no table shape, page layout or cell value is chosen; loops over pages / boundaries / rows / columns / sections are one "
        "generic iteration from a symbolic entry state; every valuation of the consulted conditions is enumerated): R02.1 _apply_data_post_processing "
        "re-cuts the generic page as F.slice(c, h) with h the page's own height, c' = c + h, c = 0 before the loop, F the reduced (with group_by: "
        "restored) frame; _render_body: segment [cursor, boundary) with row_offset = cursor and cursor' = boundary on every path of the generic boundary "
        "iteration (c05 R05.7), cursor = 0 before the loop, tail [cursor, end) whenever rows remain, whole page with offset 0 on the boundary-free path; "
        "R02.2/R02.3 via C04's page-slice and page-assignment tables; R02.4 the generic cell (i, j) of _encode shows df.row(i)[j] (null -> '', else "
        "str) and ends at col_widths[j], i / j run over all rows / columns in order, one Row per data row reaches the result; R02.5 column removal "
        "(structural: positions from the original frame, filter polarity, deletion order, column order, deep copy, returned triple); R02.6 via C05's "
        "three-site predicate table; R02.7 the generic section is encoded from the pair the strict zip of frames and bodies yields, against a per-section "
        "document copy, results appended in order; pages of a section rendered in page order; R02.8 the per-cell text pipeline touches no shared state "
        "(effects analysis over the call graph).")
    ctx.undecided("that the concatenated page rows equal the input for concrete frames (row->page arithmetic is run-time); cell text after escaping/conversion (C10/C11); "
                  "the interplay of several consecutive iterations beyond the inductive step (cursor from 0, advanced by exactly what was emitted)")
    T.cursor_post_processing(ctx, "R02.1")
    T.cursor_render_body(ctx, "R02.1")
    from .c04 import r04_1, r04_5
    r04_5(ctx)
    r04_1(ctx, mode="assign")     # every row gets exactly one, monotone page number; where breaks fall is C04's subject
    T.encode_index_agreement(ctx, "R02.4")
    T.column_removal(ctx, "R02.5")
    from .c05 import r05_2, r05_7
    r05_2(ctx)
    r05_7(ctx)
    r02_7(ctx)
    r02_8(ctx)
