"""C19 - invalid configuration is rejected up front with ValueError.

R19.1 (A) rejection coverage per constrained field: the validators reaching the field are evaluated symbolically (SDT, sa/rules/c17.py) on an
      uninterpreted value; for each admitted position (scalar / flat list / nested list: the generic element of the traversal) and each region of
      the constraint kind every valuation of the remaining conditions must raise ValueError; R19.4 = a position-specific miss, R19.5 = the
      boundary 0 is accepted while negatives are rejected;
R19.2 (S) every raise in validator-like functions constructs ValueError / FileNotFoundError (an exception of another type on a rejecting path of
      R19.1 is reported here too); R19.3 (S) every cls./self. attribute read in a raising validator resolves;
R19.6 (A, exhaustive over finite tables) the validator's legal set is contained in the emitter's table;
R19.8 (S, effects) no validator consults a process-wide mutable container (module-level / class-level) that validator code writes;
R19.7 (A) document-level checks as decision tables over symbolic conditions: df xor figure, list-ness and length agreement of multi-section
      arguments, every grouping attribute that is set has its generic column in df.columns (single and multi section), new_page without page_by,
      missing figure file.
"""
from __future__ import annotations

import ast

from ..consteval import const_expr
from ..absint import NOC
from ..pm import AnalysisError, FuncInfo, dotted, unparse, walk_no_nested
from ..report import Ctx

# (class, field, kind, expected table / detail) - transcribed from the property statement
BORDERS = ["border_left", "border_right", "border_top", "border_bottom", "border_first", "border_last"]
BCOLORS = ["border_color_left", "border_color_right", "border_color_top", "border_color_bottom",
           "border_color_first", "border_color_last"]
MATRIX = (
    [("TableAttributes", f, "member", "BORDER_CODES") for f in BORDERS]
    + [("TableAttributes", f, "color", None) for f in BCOLORS]
    + [("TextAttributes", "text_color", "color", None), ("TextAttributes", "text_background_color", "color", None),
       ("TextAttributes", "text_font", "member", "font-types"),
       ("TextAttributes", "text_format", "letters", "FORMAT_CODES"),
       ("TextAttributes", "text_justification", "member", "TEXT_JUSTIFICATION_CODES"),
       ("TextAttributes", "text_font_size", "positive", None),
       ("TableAttributes", "cell_justification", "member", "*JUSTIFICATION_CODES"),
       ("TableAttributes", "cell_vertical_justification", "member", "VERTICAL_ALIGNMENT_CODES"),
       ("TableAttributes", "col_rel_width", "positive", None),
       ("TableAttributes", "border_width", "positive", None),
       ("TableAttributes", "cell_height", "positive", None),
       ("RTFPage", "orientation", "member", ["portrait", "landscape"]),
       ("RTFPage", "border_first", "member", "BORDER_CODES"),
       ("RTFPage", "border_last", "member", "BORDER_CODES"),
       ("RTFPage", "page_title", "member", ["all", "first", "last"]),
       ("RTFPage", "page_footnote", "member", ["all", "first", "last"]),
       ("RTFPage", "page_source", "member", ["all", "first", "last"]),
       ("RTFPage", "width", "positive", None), ("RTFPage", "height", "positive", None),
       ("RTFPage", "nrow", "positive", None), ("RTFPage", "col_width", "positive", None),
       ("RTFPage", "margin", "length", 6),
       ("RTFBody", "pageby_row", "member", ["column", "first_row"]),
       ("RTFFigure", "fig_align", "member", ["center", "left", "right"]),
       ("RTFFigure", "fig_pos", "member", ["after", "before"]),
       ]
)

PYDANTIC_API = {
    "model_fields", "model_copy", "model_dump", "model_validate", "model_config", "model_fields_set",
    "model_construct", "model_json_schema", "model_computed_fields", "model_extra",
    "__name__", "__class__", "__dict__", "__doc__", "__module__", "__qualname__", "__fields__",
    "__annotations__", "__init__", "__pydantic_fields__",
}
VALIDATOR_CLASSES = ("TextAttributes", "TableAttributes", "RTFPage", "RTFBody", "RTFFigure", "RTFDocument",
                     "RTFTextComponent", "RTFTableTextComponent", "RTFColumnHeader", "ValidationHelpers",
                     "RTFPageHeader", "RTFPageFooter", "RTFTitle", "RTFSubline", "RTFFootnote", "RTFSource")
OK_EXC = {"ValueError", "FileNotFoundError", "ColorValidationError"}


def validators_for(pm, cls: str, field: str, modes=("after", "plain", "wrap")) -> list[FuncInfo]:
    out = []
    for c in pm.mro(cls):
        ci = pm.classes.get(c)
        if not ci:
            continue
        for fi in ci.methods.values():
            vf = fi.validator_fields()
            if vf and field in vf[0] and vf[1] in modes:
                out.append(fi)
    return out


def guarded_raises(fi: FuncInfo):
    """yield (raise node, [enclosing if/comprehension tests]) for every raise in the function"""
    for n in walk_no_nested(fi.node):
        if isinstance(n, ast.Raise):
            tests = []
            p = getattr(n, "_parent", None)
            child = n
            while p is not None and p is not fi.node:
                if isinstance(p, ast.If):
                    in_body = any(child is s for s in p.body)
                    tests.append((p.test, in_body))
                child = p
                p = getattr(p, "_parent", None)
            yield n, tests


def exc_name(r: ast.Raise) -> str:
    e = r.exc
    if isinstance(e, ast.Call):
        return dotted(e.func).split(".")[-1]
    if e is None:
        return "<reraise>"
    return dotted(e).split(".")[-1]


def _resolve_local(fi: FuncInfo, e: ast.AST) -> ast.AST:
    """inline a single-assignment local name"""
    if isinstance(e, ast.Name):
        assigns = [n for n in walk_no_nested(fi.node) if isinstance(n, ast.Assign) and len(n.targets) == 1
                   and isinstance(n.targets[0], ast.Name) and n.targets[0].id == e.id]
        if len(assigns) == 1:
            return assigns[0].value
    return e




# ================================================================================================================
# symbolic rejection coverage (SDT of sa/rules/c17.py)
# ================================================================================================================
from fractions import Fraction  # noqa: E402

from ..dtab import Sym, Unsupported  # noqa: E402
from .c05 import CallSym, Init, lin_of, lin_sub, path_of  # noqa: E402
from .c17 import SDT, cover_rows, declare_sdt, exc_mro, sdt_env, show, sparts  # noqa: E402

UNDET = object()
REGIONS = {"member": ["outside the legal set"], "letters": ["a letter outside the legal set"], "color": ["a non-empty string that is no colour"],
           "positive": ["negative", "zero"], "length": ["empty", "shorter", "longer"]}
CONCRETE = {"TextAttributes": ["RTFPageHeader", "RTFPageFooter", "RTFTitle", "RTFSubline", "RTFBody", "RTFColumnHeader", "RTFFootnote", "RTFSource"],
            "TableAttributes": ["RTFBody", "RTFColumnHeader", "RTFFootnote", "RTFSource"]}
_OPN = {ast.Lt: "<", ast.LtE: "<=", ast.Gt: ">", ast.GtE: ">=", ast.Eq: "==", ast.NotEq: "!="}
_LISTY = {"list", "Sequence", "MutableSequence", "Iterable", "Collection", "Sized", "Container"}


class Evaluator:
    """symbolic evaluation of validators / construction hooks, cached per function"""

    def __init__(self, ctx: Ctx):
        self.ctx, self.pm = ctx, ctx.pm
        self.cache: dict[str, tuple] = {}

    def rows(self, fi: FuncInfo, limit: int = 30000):
        if fi.short not in self.cache:
            dt = SDT(self.pm)
            try:
                rows = dt.table_rows(fi.node.body, sdt_env(fi), fi, limit=limit)
            except Unsupported as e:
                self.cache[fi.short] = (dt, None, str(e))
            else:
                self.cache[fi.short] = (dt, rows, "")
                cover_rows(self.ctx, fi.short, rows)
        return self.cache[fi.short]


def _ok_exc(pm, et: str) -> bool:
    m = exc_mro(pm, et)
    return "ValueError" in m or "FileNotFoundError" in m


def elem_types(ann: str) -> set[str]:
    import re
    return {t for t in re.findall(r"[A-Za-z_][A-Za-z_0-9]*", ann) if t in ("str", "int", "float", "bool")} or {"str", "int", "float"}


def shapes_of(ann: str, kind: str) -> list[str]:
    a = ann.replace(" ", "")
    if kind == "length":
        return ["whole"]
    out = []
    import re
    if re.search(r"(list|Sequence|tuple|MutableSequence)\[(list|Sequence|tuple|MutableSequence)\[", a):
        out.append("nested")
    alts = a.split("|")
    if any(re.match(r"(list|Sequence|tuple|MutableSequence)\[(?!list\[|Sequence\[|tuple\[|MutableSequence\[)", p) for p in alts):
        out.append("flat")
    if any(p in ("str", "int", "float", "bool") or p.startswith("Literal[") for p in alts):
        out.append("scalar")
    return out or ["scalar"]


class Info:
    def __init__(self, root: str, shape: str, kind: str, region: str, expected, etypes: set[str]):
        self.root, self.shape, self.kind, self.region, self.expected, self.etypes = root, shape, kind, region, expected, etypes
        d = {"scalar": 0, "whole": 0, "flat": 1, "nested": 2}[shape]
        self.x = root + "[κ]" * d
        self.tested = self.x + ("[κ]" if kind == "letters" else "")
        self.typing = {root: "list" if d else "E"}
        if d >= 1:
            self.typing[root + "[0]"] = "list" if d == 2 else "E"
            self.typing[root + "[κ]"] = "list" if d == 2 else "E"
            self.typing[root + "[-1]"] = "list" if d == 2 else "E"
        if d == 2:
            for a in ("[0]", "[κ]"):
                for b in ("[0]", "[κ]"):
                    self.typing[root + a + b] = "E"
        if shape == "whole":
            self.typing[root] = "list"
        self.containers = {p for p, t in self.typing.items() if t == "list"}


def _interval(info: Info):
    """(lo, lo_inclusive, hi, hi_inclusive) of x (positive) / len(x) (length) in the region"""
    if info.kind == "positive":
        return (None, False, 0, False) if info.region == "negative" else (0, True, 0, True)
    n = info.expected
    if info.region == "empty":
        return (0, True, 0, True)
    if info.region == "shorter":
        return (1, True, n - 1, True)
    return (n + 1, True, None, False)


def _cmp_on_interval(a, c, op: str, iv):
    """truth of a*t + c `op` 0 for all t in the interval, UNDET if it varies"""
    lo, loi, hi, hii = iv
    if a == 0:
        vals = [(c, True)]
        lo_v = hi_v = (c, True)
    else:
        ends = [(None if lo is None else a * lo + c, loi), (None if hi is None else a * hi + c, hii)]
        if a < 0:
            ends.reverse()
        lo_v, hi_v = ends
    mn, mni = lo_v
    mx, mxi = hi_v

    def gt0(strict: bool):
        # all values > 0 (or >= 0)?
        if mn is not None and (mn > 0 or (mn == 0 and (not strict or not mni))):
            return True
        if mx is not None and (mx < 0 or (mx == 0 and (strict or not mxi))):
            return False
        return UNDET
    if op == ">":
        return gt0(True)
    if op == ">=":
        return gt0(False)
    if op in ("<", "<="):
        # negate the form
        r = _cmp_on_interval(-a, -c, ">" if op == "<" else ">=", iv)
        return r
    if op in ("==", "!="):
        point = mn is not None and mx is not None and mn == mx
        if point:
            eq = mn == 0
        elif (mn is not None and (mn > 0 or (mn == 0 and not mni))) or (mx is not None and (mx < 0 or (mx == 0 and not mxi))):
            eq = False
        else:
            return UNDET
        return eq if op == "==" else not eq
    return UNDET


def determined(dt: SDT, key: str, info: Info):
    """the truth value an atom must have when the value has the shape and x lies in the region; UNDET if free"""
    rec = dt.cmp.get(key)
    if rec is not None:
        k0 = rec[0]
        if k0 == "is None":
            p = path_of(rec[1])
            return False if (p in info.typing or p == info.x) else UNDET
        if k0 == "truth":
            s = rec[1]
            p = path_of(s)
            if p in info.containers and p != info.x:
                return True
            if p == info.x or (info.shape == "whole" and p == info.root):
                if info.kind == "positive":
                    return info.region == "negative"
                if info.kind == "length":
                    return info.region != "empty"
                if info.kind == "color":
                    return True
                if info.kind == "member" and "str" in info.etypes and isinstance(info.expected, (set, frozenset)) and "" in info.expected:
                    return True
                return UNDET
            if info.kind == "color" and isinstance(s, CallSym) and "color" in s.meth.lower() and any(path_of(a) == info.x for a in s.args):
                return False if ("valid" in s.meth.lower() or s.meth.lower().startswith("is_")) else UNDET
            return UNDET
        if k0 == "member":
            term, cont = rec[1], rec[2]
            if path_of(term) != info.tested:
                return UNDET
            if info.kind in ("member", "letters"):
                if isinstance(cont, Sym) or not isinstance(info.expected, (set, frozenset)):
                    return UNDET
                try:
                    keys = set(cont)
                except TypeError:
                    return UNDET
                return False if keys <= info.expected else UNDET
            if info.kind == "color":
                # a finite table of names of the source is a colour predicate; an empty / unresolved / mutable container decides nothing
                if not isinstance(cont, Sym) and len(list(cont)) >= 2 and all(isinstance(c, str) for c in cont):
                    return False
                return UNDET
            return UNDET
        if isinstance(k0, type) and k0 in (ast.Eq, ast.NotEq) and info.kind in ("member", "letters", "color") and isinstance(info.expected, (set, frozenset)):
            l, r = rec[1], rec[2]
            c = r if path_of(l) == info.tested and not isinstance(r, Sym) else (l if path_of(r) == info.tested and not isinstance(l, Sym) else UNDET)
            if c is not UNDET and isinstance(c, (str, int, float)):
                if c in info.expected:
                    return k0 is ast.NotEq        # x is outside the legal set, c inside: x != c
                return UNDET
        if isinstance(k0, type) and k0 in _OPN and info.kind in ("positive", "length"):
            dl, dr = lin_of(rec[1]), lin_of(rec[2])
            if dl is None or dr is None:
                return UNDET
            d = lin_sub(dl, dr)
            want = info.x if info.kind == "positive" else f"len({info.x})"
            syms = [k for k in d if k != ""]
            if syms != [want]:
                return UNDET
            return _cmp_on_interval(Fraction(d[want]), Fraction(d.get("", 0)), _OPN[k0], _interval(info))
        return UNDET
    import re
    m = re.match(r"^isinstance\((.+), ([\w|.]+)\)$", key)
    if m:
        subj, names = m.group(1), set(m.group(2).split("|"))
        tag = info.typing.get(subj)
        if tag is None:
            return UNDET
        if tag == "list":
            return bool(names & _LISTY)
        exp = set(names)
        if names & {"Sequence", "Iterable", "Collection", "Container", "Sized"}:
            exp.add("str")
        if names & {"Number", "Real", "Complex"}:
            exp |= {"int", "float"}
        if "int" in exp:
            exp.add("bool")
        et = set(info.etypes)
        if et <= exp:
            return True
        if not (et & exp):
            return False
        return UNDET
    return UNDET


def classify(pm, dt: SDT, rows, info: Info):
    """('covered' | 'accepts' | 'mixed' | 'wrong-exception' | 'untested', detail)"""
    cons = []
    for r in rows:
        ok = True
        for key, val in r["val"].items():
            want = determined(dt, key, info)
            if want is not UNDET and want != val:
                ok = False
                break
        if ok:
            cons.append(r)
    if not cons:
        return "untested", "no valuation is consistent with this shape"
    rej, bad, acc = [], [], []
    for r in cons:
        o = r["outcome"]
        if isinstance(o, tuple) and o[0] == "raise":
            (rej if _ok_exc(pm, o[1]) else bad).append(r)
        else:
            acc.append(r)
    tested = any((dt.cmp.get(k) or ("",))[0] in ("member", "truth") + tuple(_OPN) and info.x in k for r in cons for k in r["val"])
    if bad and not acc:
        return "wrong-exception", f"raises {bad[0]['outcome'][1]} (`{str(bad[0]['outcome'][2])[:60]}`)"
    if not acc and not bad:
        return "covered", f"{len(rej)} valuation(s), all raise {sorted({r['outcome'][1] for r in rej})}"
    if not rej and not bad:
        return "accepts", ("the value is never tested" if not tested else "the test(s) on the value do not reject this region") + f" ({len(acc)} accepting valuation(s))"
    # mixed: which free conditions separate rejection from acceptance?
    free = sorted({k for r in acc for k, v in r["val"].items() if determined(dt, k, info) is UNDET})
    recognised = [k for k in free if (dt.cmp.get(k) or ("",))[0] == "member" and path_of(dt.cmp[k][1]) == info.tested and not isinstance(dt.cmp[k][2], Sym)]
    if recognised:
        cont = dt.cmp[recognised[0]][2]
        extra = sorted(map(str, set(cont) - set(info.expected)))[:4] if isinstance(info.expected, (set, frozenset)) else []
        return "accepts", f"tested against {dt.table_name(cont)} which admits {extra} outside the legal set"
    eqs = []
    for k in free:
        rec = dt.cmp.get(k)
        if rec and rec[0] in (ast.Eq, ast.NotEq) and info.kind in ("member", "letters"):
            c = rec[2] if path_of(rec[1]) == info.tested else (rec[1] if path_of(rec[2]) == info.tested else None)
            if isinstance(c, (str, int, float)) and isinstance(info.expected, (set, frozenset)) and c not in info.expected:
                if any((r["val"].get(k) is True) == (rec[0] is ast.Eq) for r in acc if k in r["val"]):
                    eqs.append(c)
    if eqs:
        return "accepts", f"the value {eqs[0]!r}, which is outside the legal set, is let through"
    comp = [k for k in free if (dt.cmp.get(k) or ("",))[0] == "member" and path_of(dt.cmp[k][1]) == info.x + "[κ]" and not isinstance(dt.cmp[k][2], Sym)]
    if comp and info.kind == "member" and "str" in info.etypes and isinstance(info.expected, (set, frozenset)):
        cont = dt.cmp[comp[0]][2]
        letters = [c for c in cont if isinstance(c, str) and len(c) == 1]
        ex = next((a + b for a in letters for b in letters if a + b not in info.expected), None)
        if ex is not None:
            return "accepts", f"only the characters of the value are tested against {dt.table_name(cont)}, not the value itself: e.g. {ex!r} is composed of legal letters but is not a legal keyword"
    a0 = acc[0]
    return "mixed", "accepted when " + ", ".join(f"{k[:50]}={v}" for k, v in a0["val"].items() if determined(dt, k, info) is UNDET)[:200]


def expected_set(pm, cls: str, kind: str, expected):
    """the legal set of a member/letters row as a set (None if it cannot be read from the source)"""
    if kind not in ("member", "letters"):
        return expected
    if isinstance(expected, list):
        return frozenset(expected)
    if expected == "font-types":
        try:
            from ..consteval import const_call
            t = const_call(pm, "FontMapping.get_font_table")
            return frozenset(t["type"]) if isinstance(t, dict) and "type" in t else None
        except AnalysisError:
            return None
    from ..consteval import const_name
    names = [expected] if not expected.startswith("*") else ["ROW_" + expected[1:], "TEXT_" + expected[1:]]
    out = set()
    for nm in names:
        v = const_name(pm, "rtflite.row", nm)
        if v is NOC:
            return None
        out |= set(v)
        if expected.startswith("*"):
            break                       # cell justification: the row table is the legal set
    return frozenset(out)


def declared_cover(pm, cls: str, field: str, kind: str, region: str, exp) -> str | None:
    """constraint carried by the declaration itself (Literal, Field bounds, length bounds)"""
    d = pm.field_decl(cls, field)
    if d is None:
        return None
    for n in ast.walk(d.annotation):
        if isinstance(n, ast.Subscript) and dotted(n.value).split(".")[-1] == "Literal" and kind == "member":
            elts = n.slice.elts if isinstance(n.slice, ast.Tuple) else [n.slice]
            vals = {e.value for e in elts if isinstance(e, ast.Constant)}
            if isinstance(exp, (set, frozenset)) and vals and vals <= set(exp) | {None}:
                return f"Literal{sorted(map(str, vals))}"
        if isinstance(n, ast.Name) and kind == "positive" and n.id in ("PositiveInt", "PositiveFloat"):
            return n.id
    calls = [c for c in ast.walk(d) if isinstance(c, ast.Call) and dotted(c.func).split(".")[-1] in ("Field", "conlist", "confloat", "conint", "Gt", "Ge", "MinLen", "MaxLen", "Len")]
    for c in calls:
        kw = {k.arg: (k.value.value if isinstance(k.value, ast.Constant) else None) for k in c.keywords if k.arg}
        if kind == "positive":
            if kw.get("gt") is not None and kw["gt"] >= 0:
                return f"Field(gt={kw['gt']})"
            if kw.get("ge") is not None and (kw["ge"] > 0 or (kw["ge"] == 0 and region == "negative")):
                return f"Field(ge={kw['ge']})"
        if kind == "length":
            if region in ("empty", "shorter") and kw.get("min_length") == exp:
                return f"min_length={exp}"
            if region == "longer" and kw.get("max_length") == exp:
                return f"max_length={exp}"
    return None


def construction_hooks(pm, cls: str) -> list[FuncInfo]:
    """functions that run on every construction after the field validators: __init__ of the package (after super().__init__),
    model_validator(mode='after'), model_post_init"""
    out = []
    init = pm.find_method(cls, "__init__")
    if init is not None:
        out.append(init)
    for c in pm.mro(cls):
        ci = pm.classes.get(c)
        if not ci:
            continue
        for fi in ci.methods.values():
            if fi.model_validator_mode() == "after" or fi.name == "model_post_init":
                out.append(fi)
    return out


def r19_1(ctx: Ctx, ev: Evaluator) -> None:
    pm = ctx.pm
    for cls, field, kind, expected in MATRIX:
        decl = pm.field_decl(cls, field)
        if decl is None:
            ctx.gap("R19.1", f"matrix row {cls}.{field}: the field is no longer declared")
            continue
        ann = unparse(decl.annotation)
        exp = expected_set(pm, cls, kind, expected)
        if kind in ("member", "letters") and exp is None:
            ctx.gap("R19.1", f"{cls}.{field}: the legal set {expected} could not be read from the source")
            continue
        shapes = shapes_of(ann, kind)
        etypes = elem_types(ann)
        owners = [cls] + [c for c in CONCRETE.get(cls, []) if c in pm.classes and pm.field_decl(c, field) is not None]
        vsets = {}
        for o in owners:
            vs = validators_for(pm, o, field)
            vsets.setdefault(tuple(v.short for v in vs), (o, vs))
        for names, (owner, vs) in vsets.items():
            results = {}
            for shape in shapes:
                for region in REGIONS[kind]:
                    why = declared_cover(pm, owner, field, kind, region, exp)
                    if why:
                        results[(shape, region)] = ("covered", "declaration: " + why, None)
                        continue
                    best = None
                    for fi in vs:
                        dt, rows, err = ev.rows(fi)
                        if rows is None:
                            best = best or ("unknown", f"{fi.short}: {err}", fi)
                            continue
                        a = fi.node.args
                        ps = [x.arg for x in list(a.posonlyargs) + list(a.args)]
                        vname = ps[1] if len(ps) > 1 and ps[0] in ("cls", "self") else (ps[0] if ps else "v")
                        st, detail = classify(pm, dt, rows, Info(vname, shape, kind, region, exp, etypes))
                        rank = {"covered": 0, "wrong-exception": 1, "mixed": 2, "accepts": 3, "untested": 4, "unknown": 2}
                        if best is None or rank[st] < rank[best[0]]:
                            best = (st, f"{fi.short}: {detail}", fi)
                        if st == "covered":
                            break
                    if best is None or best[0] in ("accepts", "untested"):
                        # checks that run after construction (they see the value after defaults were filled in)
                        for fi in construction_hooks(pm, owner):
                            dt, rows, err = ev.rows(fi)
                            if rows is None:
                                continue
                            st, detail = classify(pm, dt, rows, Info(f"self.{field}", shape, kind, region, exp, etypes))
                            if st == "covered":
                                best = (st, f"{fi.short} (after construction): {detail}", fi)
                                break
                            if st == "mixed" and (best is None or best[0] in ("accepts", "untested")) and any(f"self.{field}" in k for r in rows for k in r["val"]):
                                best = ("accepts", f"{fi.short} (runs after the defaults were filled in): {detail}", fi)
                    results[(shape, region)] = best or ("accepts", "no validator reaches the field", None)
            where = next((b[2].where() for b in results.values() if b[2] is not None), pm.cls(owner).path + f":{decl.lineno}")
            covered = [k for k, b in results.items() if b[0] == "covered"]
            ctx.instance("R19.1", where, f"{owner}.{field} [{kind}{'' if not isinstance(expected, (str, int)) else ' ' + str(expected)}] validators {list(names) or 'none'}: " +
                         "; ".join(f"{s}/{r}: {b[0]}" for (s, r), b in results.items())[:200])
            for (shape, region), (st, detail, fi) in results.items():
                w = fi.where() if fi is not None else where
                tag = f"{kind} {region} ({shape})"
                if st == "covered":
                    continue
                if st in ("mixed", "unknown"):
                    ctx.gap("R19.1", f"{owner}.{field}: rejection of {tag} could not be decided ({detail[:160]})")
                elif st == "wrong-exception":
                    ctx.violation("R19.2", f"{owner}.{field}", f"{tag}: wrong exception", w, f"{owner}.{field}: a value that is {region} ({shape} position) is rejected with the wrong exception type: {detail}")
                else:
                    rule = "R19.1"
                    if covered and any(r2 == region for (_s2, r2) in covered):
                        rule = "R19.4"              # rejected in another position only
                    elif kind == "positive" and region == "zero" and any(r2 == "negative" for (_s2, r2) in covered):
                        rule = "R19.5"
                    ctx.violation(rule, f"{owner}.{field}", tag, w,
                                  f"{owner}.{field}: a value that is {region} in {shape} position is not rejected with ValueError at construction ({detail[:200]})"
                                  + (f"; legal set {sorted(map(str, exp))[:8]}" if isinstance(exp, (set, frozenset)) else ""))
    ctx.floor("R19.1", 37)


# ---------------------------------------------------------------------------------------------- API used by C01
def _kind_ok(pm, fi: FuncInfo, kind: str, expected) -> tuple[bool, str]:
    """does the validator reject every region of the constraint kind (for some admitted shape)?  (symbolic)"""
    dt = SDT(pm)
    try:
        rows = dt.table_rows(fi.node.body, sdt_env(fi), fi, limit=20000)
    except Unsupported:
        return False, ""
    a = fi.node.args
    ps = [x.arg for x in list(a.posonlyargs) + list(a.args)]
    vname = ps[1] if len(ps) > 1 and ps[0] in ("cls", "self") else (ps[0] if ps else "v")
    exp = expected_set(pm, fi.cls or "", kind, expected) if kind in ("member", "letters") else expected
    for shape in (["whole"] if kind == "length" else ["flat", "nested", "scalar"]):
        sts = [classify(pm, dt, rows, Info(vname, shape, kind, region, exp, {"int", "float"} if kind == "positive" else {"str"}))[0] for region in REGIONS[kind]]
        if all(s == "covered" for s in sts):
            return True, f"{shape}: all of {REGIONS[kind]} rejected"
    return False, ""


def _weak_positive(fi: FuncInfo) -> str | None:
    """a positivity guard that excludes the boundary: negatives are rejected, zero is not"""
    for n in walk_no_nested(fi.node):
        if isinstance(n, ast.Compare) and len(n.ops) == 1 and isinstance(n.ops[0], ast.Lt) and isinstance(n.comparators[0], ast.Constant) and n.comparators[0].value == 0:
            return unparse(n)
    return None


def r19_2_3(ctx: Ctx) -> None:
    pm = ctx.pm
    vfuncs = []
    for fi in pm.iter_funcs():
        if fi.cls in VALIDATOR_CLASSES and (fi.validator_fields() or fi.model_validator_mode()
                                            or fi.name.startswith(("_validate", "validate_")) or fi.name in ("_set_default",)):
            vfuncs.append(fi)
    def ok_exception(fi, r) -> bool | None:
        """True: a ValueError/FileNotFoundError (sub)class; False: another exception class; None: not a class construction
        (bare re-raise, a caught exception object, a computed value)"""
        e = r.exc
        if e is None:
            return None
        target = e.func if isinstance(e, ast.Call) else e
        en = dotted(target).split(".")[-1]
        if en in OK_EXC:
            return True
        res = pm.resolve(fi.module, en) if isinstance(target, ast.Name) else None
        if res is not None and res[0] == "class":
            return any(b in ("ValueError", "FileNotFoundError") for b in pm.mro(res[1].name))
        if res is None and en and en[0].isupper() and (en.endswith(("Error", "Exception", "Warning")) or en in ("KeyboardInterrupt", "StopIteration", "SystemExit")):
            return False                                  # a builtin / imported exception class other than the admitted ones
        if res is not None and res[0] == "ext" and en.endswith(("Error", "Exception")):
            return "ValidationError" in en or "PydanticCustomError" in en
        return None

    for fi in vfuncs:
        for r, tests in guarded_raises(fi):
            en = exc_name(r)
            verdict = ok_exception(fi, r)
            ctx.instance("R19.2", fi.where(r), f"{fi.short}: raise {en}" + ("" if verdict is not None else " (not an exception class construction: not judged)"))
            if verdict is False:
                ctx.violation("R19.2", fi.short, f"raise {en}", fi.where(r),
                              f"{fi.short} raises {en}; invalid configuration must raise ValueError")
        # R19.3: cls./self. attribute reads anywhere in a raising validator must resolve
        if any(True for _ in guarded_raises(fi)):
            for a in walk_no_nested(fi.node):
                if isinstance(a, ast.Attribute) and isinstance(a.value, ast.Name) and a.value.id in ("cls", "self"):
                    ok = (pm.field_decl(fi.cls, a.attr) is not None or pm.find_method(fi.cls, a.attr) is not None
                          or a.attr in PYDANTIC_API or a.attr.startswith("model_")
                          or any(a.attr in pm.classes[c].class_assigns for c in pm.mro(fi.cls) if c in pm.classes))
                    ctx.instance("R19.3", fi.where(a), f"{fi.short}: {unparse(a)} {'resolves' if ok else 'UNRESOLVED'}")
                    if not ok:
                        ctx.violation("R19.3", fi.short, unparse(a), fi.where(a),
                                      f"{fi.short}: `{unparse(a)}` on the raising path does not resolve on {fi.cls} "
                                      "(AttributeError is raised instead of ValueError)")
    ctx.floor("R19.2", 30)




# ---------------------------------------------------------------------------------------------- R19.6 validator table = emitter table
def r19_6(ctx: Ctx, rule: str = "R19.6", ev: "Evaluator | None" = None) -> None:
    """the legal set a validator admits must be contained in the table the emitter indexes with the value (exhaustive over the finite tables)"""
    pm = ctx.pm
    ev = ev or Evaluator(ctx)
    # emitter side: TABLE[self.<field>] inside the model classes
    emit: dict[tuple[str, str], tuple[str, FuncInfo, ast.AST]] = {}
    for model in ("TextContent", "Cell", "Row", "Border"):
        ci = pm.cls(model)
        for fi in ci.methods.values():
            for n in walk_no_nested(fi.node):
                if isinstance(n, ast.Subscript) and isinstance(n.slice, ast.Attribute) and isinstance(n.slice.value, ast.Name) and n.slice.value.id == "self":
                    emit[(model, n.slice.attr)] = (unparse(n.value), fi, n)
    # binding: model field <- attribute (from constructor call sites)
    bind: dict[str, set[tuple[str, str]]] = {}
    for fi in pm.iter_funcs():
        for c in walk_no_nested(fi.node):
            if isinstance(c, ast.Call) and dotted(c.func).split(".")[-1] in ("TextContent", "Cell", "Row", "Border"):
                model = dotted(c.func).split(".")[-1]
                for k in c.keywords:
                    v = k.value
                    if isinstance(v, ast.Name):
                        v = _resolve_local(fi, v)
                    if isinstance(v, ast.Call) and dotted(v.func).split(".")[-1] in ("get_broadcast_value", "get_attr") and v.args and isinstance(v.args[0], ast.Constant):
                        bind.setdefault(v.args[0].value, set()).add((model, k.arg))
    for attr, targets in sorted(bind.items()):
        for (model, fld) in sorted(targets):
            if (model, fld) not in emit:
                continue
            etab_txt, efi, enode = emit[(model, fld)]
            etab = const_expr(pm, efi.module, enode.value)
            if etab is NOC:
                continue
            cls = "TableAttributes" if pm.field_decl("TableAttributes", attr) is not None else "TextAttributes"
            for vfi in validators_for(pm, cls, attr):
                dt, rows, err = ev.rows(vfi)
                if rows is None:
                    continue
                seen = set()
                for key, rec in dt.cmp.items():
                    if rec[0] != "member" or isinstance(rec[2], Sym) or isinstance(rec[1], str):
                        continue
                    tn = dt.table_name(rec[2])
                    if tn in seen:
                        continue
                    seen.add(tn)
                    try:
                        extra = sorted(set(rec[2]) - set(etab), key=str)
                    except TypeError:
                        continue
                    ctx.instance(rule, vfi.where(), f"{attr}: validator table {tn} vs emitter {model}.{fld} -> {etab_txt}; accepted-but-unencodable: {extra}")
                    if extra:
                        ctx.violation(rule, f"{cls}.{attr}", f"{vfi.name} vs {etab_txt}: {extra}", vfi.where(),
                                      f"{attr} is validated against {tn} but emitted through {etab_txt} ({model}.{fld}); values {extra} are accepted at construction and raise at encode time")
    ctx.floor(rule, 5)


# ---------------------------------------------------------------------------------------------- R19.7 document-level cross-field checks
def _val(row, key_pred):
    """[(key, value)] of the atoms of a row selected by the predicate"""
    return [(k, v) for k, v in row["val"].items() if key_pred(k)]


def _raises_ok(pm, row) -> bool:
    o = row["outcome"]
    return isinstance(o, tuple) and o[0] == "raise" and _ok_exc(pm, o[1])


def r19_7(ctx: Ctx, ev: Evaluator) -> None:
    pm = ctx.pm
    v = pm.func("RTFDocument.validate_column_names")
    if v.model_validator_mode() != "after":
        ctx.violation("R19.7", v.short, "not a model_validator(after)", v.where(), "validate_column_names is no longer run by pydantic after construction")
    dt, rows, err = ev.rows(v)
    if rows is None:
        ctx.gap("R19.7", f"validate_column_names could not be evaluated symbolically: {err}")
    else:
        def atom(row, text):
            for k, val in row["val"].items():
                if k == text:
                    return val
            return None
        df_none, fig_none = "self.df is None", "self.rtf_figure is None"
        # ---- df xor figure
        for want_df, want_fig, label in ((True, True, "neither"), (False, False, "df-and-figure")):
            sel = [r for r in rows if atom(r, df_none) in (want_df, None) and atom(r, fig_none) in (want_fig, None)
                   and not (atom(r, df_none) is None and atom(r, fig_none) is None)]
            bad = [r for r in sel if not _raises_ok(pm, r)]
            ctx.instance("R19.7", v.where(), f"validate_column_names: '{label}' ({len(sel)} valuation(s)) -> all raise ValueError: {not bad and bool(sel)}")
            if not sel:
                ctx.gap("R19.7", f"validate_column_names: the conditions `{df_none}` / `{fig_none}` were not re-identified")
            elif bad:
                ctx.violation("R19.7", v.short, label, v.where(), f"validate_column_names: no ValueError for '{label}' [" + ", ".join(f"{k[:40]}={x}" for k, x in bad[0]["val"].items())[:160] + "]")
        # ---- multi-section shape checks
        is_multi = "isinstance(self.df, list)"
        body_list = "isinstance(self.rtf_body, list)"
        ctxt = [r for r in rows if atom(r, df_none) is False and atom(r, fig_none) in (True, None)]
        multi = [r for r in ctxt if atom(r, is_multi) is True]
        single = [r for r in ctxt if atom(r, is_multi) is False]
        if not multi or not single:
            ctx.gap("R19.7", "validate_column_names: the single-/multi-section distinction `isinstance(self.df, list)` was not re-identified")
        else:
            bad = [r for r in multi if atom(r, body_list) is False and not _raises_ok(pm, r)]
            n = sum(1 for r in multi if atom(r, body_list) is False)
            ctx.instance("R19.7", v.where(), f"validate_column_names: 'body-list' ({n} valuation(s)) -> all raise ValueError: {not bad and n > 0}")
            if n == 0 or bad:
                ctx.violation("R19.7", v.short, "body-list", v.where(), "validate_column_names: no ValueError when df is a list but rtf_body is not")
            len_keys = {k for r in multi for k in r["val"] if "len(self.df)" in k and "len(self.rtf_body)" in k}
            sel = [r for r in multi if atom(r, body_list) is True and any((k in r["val"]) for k in len_keys)]
            bad = []
            for r in sel:
                for k in len_keys:
                    if k in r["val"]:
                        rec = dt.cmp.get(k)
                        differ = r["val"][k] if rec and rec[0] is ast.NotEq else (not r["val"][k] if rec and rec[0] is ast.Eq else None)
                        if differ and not _raises_ok(pm, r):
                            bad.append(r)
            ctx.instance("R19.7", v.where(), f"validate_column_names: 'length' condition(s) {sorted(len_keys)[:2]} -> mismatch raises ValueError: {bool(len_keys) and not bad}")
            if not len_keys or bad:
                ctx.violation("R19.7", v.short, "length", v.where(), "validate_column_names: no ValueError when df and rtf_body lists differ in length")
            # ---- grouping columns, single and multi section
            for mode, rs in (("single", single), ("multi", [r for r in multi if atom(r, body_list) is True and not any(r["val"].get(k) is (dt.cmp[k][0] is ast.NotEq) for k in len_keys)])):
                for grp in ("group_by", "page_by", "subline_by"):
                    none_keys = {k for r in rs for k in r["val"] if k.endswith(f".{grp} is None")}
                    mem_keys = {k for r in rs for k in r["val"] if (dt.cmp.get(k) or ("",))[0] == "member" and f".{grp}[" in path_of(dt.cmp[k][1])}
                    if not none_keys and not mem_keys:
                        ctx.instance("R19.7", v.where(), f"{mode}-section: {grp} is never read")
                        ctx.violation("R19.7", "RTFDocument._validate_section_columns", f"{grp} missing", v.where(),
                                      f"{mode}-section documents: no ValueError for a {grp} column missing from the data ({grp} is never compared with the frame's columns)")
                        continue
                    # the container the membership is tested against
                    for k in sorted(mem_keys):
                        cont = dt.cmp[k][2]
                        is_cols = isinstance(cont, Sym) and not isinstance(cont, CallSym) and cont.path.endswith(".columns")
                        is_coll = isinstance(cont, CallSym) and cont.meth in ("set", "list", "tuple", "frozenset") and cont.args and isinstance(cont.args[0], Sym) and cont.args[0].path.endswith(".columns")
                        ctx.instance("R19.7", v.where(), f"{mode}-section: {grp} membership tested against `{path_of(cont)[:60]}`")
                        if not (is_cols or is_coll):
                            ctx.violation("R19.7", "RTFDocument._validate_section_columns", f"{grp} container {path_of(cont)[:60]}", v.where(),
                                          f"{grp} membership is tested against `{path_of(cont)[:80]}`, not the frame's column list (a string container makes it a substring test)")
                    bad = []
                    for r in rs:
                        if any(r["val"].get(k) is True for k in none_keys):
                            continue                                     # grp not set
                        if any(r["val"].get(k) is True for k in mem_keys):
                            continue                                     # the generic column exists
                        if not _raises_ok(pm, r):
                            bad.append(r)
                    ctx.instance("R19.7", v.where(), f"{mode}-section: {grp} set and its generic column not in the data -> ValueError on every such valuation: {not bad}")
                    if bad:
                        ctx.violation("R19.7", "RTFDocument._validate_section_columns", f"{grp} not rejected ({mode})", v.where(),
                                      f"{mode}-section documents: a {grp} column missing from the data is not rejected on the path [" +
                                      ", ".join(f"{k[-46:]}={x}" for k, x in bad[0]["val"].items() if ".df is None" not in k and "figure" not in k)[:220] + "]")
    # ---- new_page without page_by: reached from RTFBody's construction
    b_init = pm.find_method("RTFBody", "__init__")
    done = False
    for fi in ([b_init] if b_init is not None else []) + [f for f in construction_hooks(pm, "RTFBody") if f is not b_init]:
        dtb, rws, err = ev.rows(fi, limit=40000)
        if rws is None:
            continue
        pk = {k for r in rws for k in r["val"] if k.endswith("page_by is None")}
        nk = {k for r in rws for k in r["val"] if "new_page" in k}
        if not pk or not nk:
            continue
        sel = [r for r in rws if any(r["val"].get(k) is True for k in pk) and any(r["val"].get(k) is True for k in nk if (dtb.cmp.get(k) or ("",))[0] == "truth")]
        bad = [r for r in sel if not _raises_ok(pm, r)]
        ctx.instance("R19.7", fi.where(), f"{fi.short}: new_page without page_by ({len(sel)} valuation(s)) -> all raise ValueError: {bool(sel) and not bad}")
        if sel:
            done = True
            if bad:
                ctx.violation("R19.7", "RTFBody._validate_page_by_logic", "new_page/page_by", fi.where(), "RTFBody does not reject new_page=True without page_by on every construction path")
            break
    if not done:
        # fallback: the check exists as a function and lies on the construction call graph
        try:
            b = pm.func("RTFBody._validate_page_by_logic")
        except AnalysisError:
            b = None
        reached = b is not None and _reaches(pm, "RTFBody.__init__", b.short)
        okb = False
        if b is not None:
            dtb, rws, err = ev.rows(b)
            if rws:
                sel = [r for r in rws if any(k.endswith("page_by is None") and x is True for k, x in r["val"].items()) and any("new_page" in k and x is True for k, x in r["val"].items())]
                okb = bool(sel) and all(_raises_ok(pm, r) for r in sel)
        ctx.instance("R19.7", b.where() if b else "src/rtflite/input.py:0", f"RTFBody: new_page-without-page_by raise {'present' if okb else 'MISSING'}, reached from __init__: {reached}")
        if not (okb and reached):
            ctx.violation("R19.7", "RTFBody._validate_page_by_logic", "new_page/page_by", b.where() if b else "src/rtflite/input.py:0", "RTFBody no longer rejects new_page=True without page_by at construction")
    # ---- figure file existence
    figs = [f for f in construction_hooks(pm, "RTFFigure")]
    okf = False
    for f in figs:
        dtf, rws, err = ev.rows(f)
        if rws is None:
            continue
        ek = {k for r in rws for k in r["val"] if (dtf.cmp.get(k) or ("",))[0] == "truth" and isinstance(dtf.cmp[k][1], CallSym) and dtf.cmp[k][1].meth in ("exists", "is_file", "isfile")}
        if not ek:
            continue
        sel = [r for r in rws if any(r["val"].get(k) is False for k in ek)]
        bad = [r for r in sel if not _raises_ok(pm, r)]
        ctx.instance("R19.7", f.where(), f"{f.short}: a figure path that does not exist ({len(sel)} valuation(s)) -> FileNotFoundError/ValueError on all: {bool(sel) and not bad}")
        if sel and not bad:
            okf = True
        elif bad:
            ctx.violation("R19.7", f.short, "figure existence", f.where(), "RTFFigure does not raise FileNotFoundError for a missing figure file on every path")
            okf = True
    if not okf:
        f0 = figs[0] if figs else None
        ctx.violation("R19.7", f0.short if f0 else "RTFFigure", "figure existence", f0.where() if f0 else "src/rtflite/input.py:0",
                      "RTFFigure no longer tests at construction that the figure files exist (no existence test reaches a raise)")
    ctx.floor("R19.7", 10)


# ---------------------------------------------------------------------------------------------- R19.8 validators do not decide on mutable shared state
_MUT = {"add", "append", "extend", "update", "setdefault", "pop", "clear", "discard", "remove", "insert", "popitem"}


def r19_8(ctx: Ctx) -> None:
    """(S, effects) the accept/reject decision of a validator must not read process-wide mutable state (a module-level or class-level
    container) that validator code writes: then a value rejected at one construction is accepted at the next"""
    pm = ctx.pm
    from ..effects import Shared
    sh = Shared(pm)
    vfuncs = [fi for fi in pm.iter_funcs() if fi.cls in VALIDATOR_CLASSES and (fi.validator_fields() or fi.model_validator_mode() or fi.name.startswith(("_validate", "validate_"))
                                                                                 or fi.name in ("_set_default", "__init__"))]
    # helpers of the package called directly by validators (one level)
    seen = {f.short for f in vfuncs}
    for fi in list(vfuncs):
        for c in walk_no_nested(fi.node):
            if isinstance(c, ast.Call) and isinstance(c.func, ast.Name):
                r = pm.resolve(fi.module, c.func.id)
                if r and r[0] == "func" and r[1].short not in seen and r[1].module.startswith("rtflite.") and r[1].module.split(".")[-1] in ("attributes", "input", "encode"):
                    seen.add(r[1].short)
                    vfuncs.append(r[1])
    n = 0
    for fi in vfuncs:
        def shared_name(e):
            """module-level / class-level mutable container an expression denotes (through one local alias)"""
            if isinstance(e, ast.Name):
                r = pm.resolve(fi.module, e.id)
                if r and r[0] == "value" and (r[1][0].name, e.id) in sh.module_roots and sh.module_roots[(r[1][0].name, e.id)] == "container":
                    return f"{r[1][0].name}.{e.id}"
                vals = [a.value for a in walk_no_nested(fi.node) if isinstance(a, (ast.Assign, ast.AnnAssign)) and a.value is not None
                        and any(isinstance(t, ast.Name) and t.id == e.id for t in (a.targets if isinstance(a, ast.Assign) else [a.target]))]
                if len(vals) == 1 and isinstance(vals[0], (ast.Name, ast.Attribute)) and not (isinstance(vals[0], ast.Name) and vals[0].id == e.id):
                    return shared_name(vals[0])
            if isinstance(e, ast.Attribute) and isinstance(e.value, ast.Name) and (e.value.id == "cls" or e.value.id in pm.classes):
                cn = fi.cls if e.value.id == "cls" else e.value.id
                for c in pm.mro(cn) if cn else []:
                    if (c, e.attr) in sh.class_roots and sh.class_roots[(c, e.attr)] == "container":
                        return f"{c}.{e.attr}"
            return None
        writes, reads = {}, {}
        for x in walk_no_nested(fi.node):
            if isinstance(x, ast.Call) and isinstance(x.func, ast.Attribute) and x.func.attr in _MUT:
                nm = shared_name(x.func.value)
                if nm:
                    writes.setdefault(nm, x)
            elif isinstance(x, ast.Subscript) and isinstance(x.ctx, (ast.Store, ast.Del)):
                nm = shared_name(x.value)
                if nm:
                    writes.setdefault(nm, x)
            elif isinstance(x, ast.Compare) and any(isinstance(o, (ast.In, ast.NotIn)) for o in x.ops):
                for cmp_ in x.comparators:
                    nm = shared_name(cmp_)
                    if nm:
                        reads.setdefault(nm, x)
            elif isinstance(x, ast.Subscript) and isinstance(x.ctx, ast.Load):
                nm = shared_name(x.value)
                if nm:
                    reads.setdefault(nm, x)
            elif isinstance(x, ast.Call) and isinstance(x.func, ast.Attribute) and x.func.attr in ("get", "__contains__"):
                nm = shared_name(x.func.value)
                if nm:
                    reads.setdefault(nm, x)
        for nm in sorted(set(writes) | set(reads)):
            n += 1
            ctx.instance("R19.8", fi.where(writes.get(nm) or reads.get(nm)), f"{fi.short}: shared container {nm} written: {nm in writes}, consulted: {nm in reads}")
            if nm in writes and nm in reads:
                ctx.violation("R19.8", fi.short, f"decision reads mutable shared state {nm}", fi.where(reads[nm]),
                              f"{fi.short} consults the process-wide container {nm} (`{unparse(reads[nm])[:60]}`) which it also writes (`{unparse(writes[nm])[:60]}`): whether a value is "
                              "rejected depends on earlier constructions (a value recorded before its check passes is accepted the next time)")
    ctx.instance("R19.8", "src/rtflite/attributes.py:1", f"{len(vfuncs)} validator-like function(s) scanned for reads of process-wide mutable containers they write: {n} container use(s)")


def _reaches(pm, src: str, dst: str) -> bool:
    from ..callgraph import CallGraph
    try:
        return dst in CallGraph(pm).reachable([src])
    except Exception:
        return False


def check(ctx: Ctx) -> None:
    ctx.explain(
        "R19.1/R19.4/R19.5 rejection coverage: for every constrained field named by the property the validators that reach it (field_validator functions of the class and its bases, "
        "constraints in the declaration, and - only if those do not reject - the hooks that run after construction: package __init__, model_validator(after)) are evaluated "
        "symbolically on an uninterpreted value; for every admitted position (scalar / flat / nested, read from the declared type; the generic element of the traversal) and every "
        "region of the constraint kind (not in the legal set; negative, zero; length 0, 1..n-1, >n; non-empty non-colour) the conditions determined by shape and region are fixed, all "
        "other consulted conditions are enumerated, and every such valuation must end in `raise ValueError` (sub)class. The legal sets are the finite tables of the source. "
        "R19.2 raise discipline, R19.3 attribute resolvability on raising paths (structural); R19.6 validator table within emitter table (exhaustive); R19.7 document-level checks "
        "as decision tables over symbolic conditions (df/figure None, list-ness, length mismatch, grouping attribute set, generic column in df.columns, new_page/page_by, figure path exists). "
        "R19.8 (effects) a validator must not consult a module-/class-level mutable container that validator code writes.")
    declare_sdt(ctx)
    ctx.assume("pydantic runs the after-mode field validators of a class and its bases for provided values and converts ValueError into ValidationError (a ValueError); before-mode "
               "validators only normalise the shape (scalar -> list -> nested list) and are not analysed beyond R19.2")
    ctx.assume("conditions on the validated value other than those fixed by shape and region are treated as free (all valuations must reject); a mixed outcome that hinges on a "
               "condition the evaluator cannot interpret is an analysis gap")
    ctx.undecided("pydantic's own type validation and coercion; fields not named in the matrix; the content of before-mode normalisers")
    ev = Evaluator(ctx)
    r19_1(ctx, ev)
    r19_2_3(ctx)
    r19_6(ctx, ev=ev)
    r19_7(ctx, ev)
    r19_8(ctx)
