"""C19 - invalid configuration is rejected up front with ValueError.

R19.1 coverage matrix (field x constraint kind -> a validator with a guarded raise of that kind
against the same table), R19.2 raise discipline, R19.3 message-expression resolvability,
R19.4 flat+nested depth coverage, R19.5 boundary included (<= 0), R19.6 validator table = emitter
table.
"""
from __future__ import annotations

import ast

from ..consteval import const_expr
from ..absint import NOC
from ..pm import AnalysisError, FuncInfo, dotted, unparse, walk_no_nested
from ..report import Ctx

# (class, field, kind, expected table / detail) - transcribed from the property statement
BORDERS = ["border_left", "border_right", "border_top", "border_bottom", "border_first", "border_last"]
BCOLORS = ["border_color_left", "border_color_right", "border_color_top", "border_color_bottom",
           "border_color_first", "border_color_last"]
MATRIX = (
    [("TableAttributes", f, "member", "BORDER_CODES") for f in BORDERS]
    + [("TableAttributes", f, "color", None) for f in BCOLORS]
    + [("TextAttributes", "text_color", "color", None), ("TextAttributes", "text_background_color", "color", None),
       ("TextAttributes", "text_font", "member", "font-types"),
       ("TextAttributes", "text_format", "member", "FORMAT_CODES"),
       ("TextAttributes", "text_justification", "member", "TEXT_JUSTIFICATION_CODES"),
       ("TextAttributes", "text_font_size", "positive", None),
       ("TableAttributes", "cell_justification", "member", "*JUSTIFICATION_CODES"),
       ("TableAttributes", "cell_vertical_justification", "member", "VERTICAL_ALIGNMENT_CODES"),
       ("TableAttributes", "col_rel_width", "positive", None),
       ("TableAttributes", "border_width", "positive", None),
       ("TableAttributes", "cell_height", "positive", None),
       ("RTFPage", "orientation", "member", ["portrait", "landscape"]),
       ("RTFPage", "border_first", "member", "BORDER_CODES"),
       ("RTFPage", "border_last", "member", "BORDER_CODES"),
       ("RTFPage", "page_title", "member", ["all", "first", "last"]),
       ("RTFPage", "page_footnote", "member", ["all", "first", "last"]),
       ("RTFPage", "page_source", "member", ["all", "first", "last"]),
       ("RTFPage", "width", "positive", None), ("RTFPage", "height", "positive", None),
       ("RTFPage", "nrow", "positive", None), ("RTFPage", "col_width", "positive", None),
       ("RTFPage", "margin", "length", 6),
       ("RTFBody", "pageby_row", "member", ["column", "first_row"]),
       ("RTFFigure", "fig_align", "member", ["center", "left", "right"]),
       ("RTFFigure", "fig_pos", "member", ["after", "before"]),
       ]
)

PYDANTIC_API = {
    "model_fields", "model_copy", "model_dump", "model_validate", "model_config", "model_fields_set",
    "model_construct", "model_json_schema", "model_computed_fields", "model_extra",
    "__name__", "__class__", "__dict__", "__doc__", "__module__", "__qualname__", "__fields__",
    "__annotations__", "__init__", "__pydantic_fields__",
}
VALIDATOR_CLASSES = ("TextAttributes", "TableAttributes", "RTFPage", "RTFBody", "RTFFigure", "RTFDocument",
                     "RTFTextComponent", "RTFTableTextComponent", "RTFColumnHeader", "ValidationHelpers",
                     "RTFPageHeader", "RTFPageFooter", "RTFTitle", "RTFSubline", "RTFFootnote", "RTFSource")
OK_EXC = {"ValueError", "FileNotFoundError", "ColorValidationError"}


def validators_for(pm, cls: str, field: str, modes=("after", "plain", "wrap")) -> list[FuncInfo]:
    out = []
    for c in pm.mro(cls):
        ci = pm.classes.get(c)
        if not ci:
            continue
        for fi in ci.methods.values():
            vf = fi.validator_fields()
            if vf and field in vf[0] and vf[1] in modes:
                out.append(fi)
    return out


def guarded_raises(fi: FuncInfo):
    """yield (raise node, [enclosing if/comprehension tests]) for every raise in the function"""
    for n in walk_no_nested(fi.node):
        if isinstance(n, ast.Raise):
            tests = []
            p = getattr(n, "_parent", None)
            child = n
            while p is not None and p is not fi.node:
                if isinstance(p, ast.If):
                    in_body = any(child is s for s in p.body)
                    tests.append((p.test, in_body))
                child = p
                p = getattr(p, "_parent", None)
            yield n, tests


def exc_name(r: ast.Raise) -> str:
    e = r.exc
    if isinstance(e, ast.Call):
        return dotted(e.func).split(".")[-1]
    if e is None:
        return "<reraise>"
    return dotted(e).split(".")[-1]


def _resolve_local(fi: FuncInfo, e: ast.AST) -> ast.AST:
    """inline a single-assignment local name"""
    if isinstance(e, ast.Name):
        assigns = [n for n in walk_no_nested(fi.node) if isinstance(n, ast.Assign) and len(n.targets) == 1
                   and isinstance(n.targets[0], ast.Name) and n.targets[0].id == e.id]
        if len(assigns) == 1:
            return assigns[0].value
    return e


def _table_matches(pm, fi: FuncInfo, container: ast.AST, expected) -> bool:
    container = _resolve_local(fi, container)
    text = unparse(container)
    if expected == "font-types":
        return "_font_type" in text or "get_font_table" in text or "RTF_FONT_NAMES" in text
    if isinstance(expected, str):
        if expected.startswith("*"):
            return text.split(".")[-1].endswith(expected[1:])
        return text.split(".")[-1] == expected
    val = const_expr(pm, fi.module, container)
    if val is NOC:
        return False
    try:
        return sorted(val) == sorted(expected)
    except TypeError:
        return False


def _kind_ok(pm, fi: FuncInfo, kind: str, expected) -> tuple[bool, str]:
    """does the validator contain a ValueError raise guarded by a test of this kind?"""
    for r, tests in guarded_raises(fi):
        if exc_name(r) not in OK_EXC:
            continue
        for test, in_body in tests:
            if not in_body:
                continue
            for c in ast.walk(test):
                if kind == "member" and isinstance(c, ast.Compare) and len(c.ops) == 1 and isinstance(c.ops[0], ast.NotIn):
                    if _table_matches(pm, fi, c.comparators[0], expected):
                        return True, unparse(test)
                if kind == "color" and isinstance(c, ast.Call) and dotted(c.func).endswith("validate_color"):
                    # must be negated: `not color_service.validate_color(x)`
                    p = getattr(c, "_parent", None)
                    if isinstance(p, ast.UnaryOp) and isinstance(p.op, ast.Not):
                        return True, unparse(test)
                if kind == "positive" and isinstance(c, ast.Compare) and len(c.ops) == 1:
                    op, rhs = c.ops[0], c.comparators[0]
                    if isinstance(rhs, ast.Constant) and rhs.value == 0 and isinstance(op, ast.LtE):
                        return True, unparse(test)
                    if isinstance(c.left, ast.Constant) and c.left.value == 0 and isinstance(op, ast.GtE):
                        return True, unparse(test)
                if kind == "length" and isinstance(c, ast.Compare) and len(c.ops) == 1 and isinstance(c.ops[0], ast.NotEq):
                    l, rr = c.left, c.comparators[0]
                    if isinstance(l, ast.Call) and dotted(l.func) == "len" and isinstance(rr, ast.Constant) and rr.value == expected:
                        return True, unparse(test)
    return False, ""


def _weak_positive(fi: FuncInfo) -> str | None:
    """a positivity guard that excludes the boundary (`< 0`)"""
    for r, tests in guarded_raises(fi):
        for test, in_body in tests:
            for c in ast.walk(test):
                if isinstance(c, ast.Compare) and len(c.ops) == 1 and isinstance(c.ops[0], ast.Lt) \
                        and isinstance(c.comparators[0], ast.Constant) and c.comparators[0].value == 0:
                    return unparse(c)
    return None


def _depth_ok(pm, cls: str, field: str, fi: FuncInfo) -> tuple[bool, str]:
    """R19.4: fields admitting flat and nested lists need a raise reachable for both shapes"""
    ann = (pm.field_ann(cls, field) or "").replace(" ", "")
    nested = "list[list[" in ann
    flat = any(p.startswith("list[") and not p.startswith("list[list[") for p in ann.split("|"))
    raises = [(r, tests) for r, tests in guarded_raises(fi) if exc_name(r) in OK_EXC]

    def loop_depth(r):
        d = 0
        p = getattr(r, "_parent", None)
        while p is not None and p is not fi.node:
            if isinstance(p, ast.For):
                d += 1
            p = getattr(p, "_parent", None)
        return d

    def gen_depth(r_tests):
        best = 0
        for test, _ in r_tests:
            for c in ast.walk(test):
                if isinstance(c, ast.GeneratorExp):
                    best = max(best, len(c.generators))
        return best

    depths = {max(loop_depth(r), gen_depth(t)) for r, t in raises}
    # string-valued fields iterate one more level (characters of a format string)
    extra = 1 if field == "text_format" else 0
    need = set()
    if nested:
        need.add(2 + extra)
    if flat:
        need.add(1 + extra)
    if not nested and not flat:
        return True, "scalar"
    # a `before` normaliser (_to_nested_list) makes every value nested in table classes
    missing = {d for d in need if d not in depths}
    return (not missing), f"annotation admits depths {sorted(need)}, raises at loop depths {sorted(depths)}"


def r19_6(ctx: Ctx, rule: str = "R19.6") -> None:
    """validator legal set must be contained in the emitter's table (same keys)"""
    pm = ctx.pm
    # emitter side: TABLE[self.<field>] inside model classes
    emit: dict[tuple[str, str], tuple[str, FuncInfo, ast.AST]] = {}
    for model in ("TextContent", "Cell", "Row", "Border"):
        ci = pm.cls(model)
        for fi in ci.methods.values():
            for n in walk_no_nested(fi.node):
                if isinstance(n, ast.Subscript) and isinstance(n.slice, ast.Attribute) and \
                        isinstance(n.slice.value, ast.Name) and n.slice.value.id == "self":
                    emit[(model, n.slice.attr)] = (unparse(n.value), fi, n)
    # binding: model field <- attribute (from constructor call sites)
    bind: dict[str, set[tuple[str, str]]] = {}
    for fi in pm.iter_funcs():
        for c in walk_no_nested(fi.node):
            if isinstance(c, ast.Call) and dotted(c.func).split(".")[-1] in ("TextContent", "Cell", "Row", "Border"):
                model = dotted(c.func).split(".")[-1]
                for k in c.keywords:
                    v = k.value
                    if isinstance(v, ast.Call) and dotted(v.func).split(".")[-1] in ("get_broadcast_value", "get_attr") \
                            and v.args and isinstance(v.args[0], ast.Constant):
                        bind.setdefault(v.args[0].value, set()).add((model, k.arg))
                    elif isinstance(v, ast.Name):
                        # local assigned from get_attr("x", …)
                        rv = _resolve_local(fi, v)
                        if isinstance(rv, ast.Call) and dotted(rv.func).split(".")[-1] in ("get_broadcast_value", "get_attr") \
                                and rv.args and isinstance(rv.args[0], ast.Constant):
                            bind.setdefault(rv.args[0].value, set()).add((model, k.arg))
    # Border(style=…) is fed from border_* attributes
    n = 0
    for attr, targets in sorted(bind.items()):
        for (model, fld) in sorted(targets):
            if (model, fld) not in emit:
                continue
            etab_txt, efi, enode = emit[(model, fld)]
            etab = const_expr(pm, efi.module, enode.value)
            cls = "TableAttributes" if pm.field_decl("TableAttributes", attr) is not None else "TextAttributes"
            for vfi in validators_for(pm, cls, attr):
                for r, tests in guarded_raises(vfi):
                    for test, in_body in tests:
                        for c in ast.walk(test):
                            if isinstance(c, ast.Compare) and len(c.ops) == 1 and isinstance(c.ops[0], ast.NotIn):
                                vtab = const_expr(pm, vfi.module, _resolve_local(vfi, c.comparators[0]))
                                if vtab is NOC or etab is NOC:
                                    continue
                                n += 1
                                extra = sorted(set(vtab) - set(etab))
                                ctx.instance(rule, vfi.where(c), f"{attr}: validator table {unparse(c.comparators[0])} vs emitter {model}.{fld} -> {etab_txt}; accepted-but-unencodable: {extra}")
                                if extra:
                                    ctx.violation(rule, f"{cls}.{attr}", f"{unparse(c.comparators[0])} vs {etab_txt}: {extra}", vfi.where(c),
                                                  f"{attr} is validated against {unparse(c.comparators[0])} but emitted through {etab_txt} "
                                                  f"({model}.{fld}); values {extra} are accepted at construction and raise at encode time")
    ctx.floor(rule, 5)


def check(ctx: Ctx) -> None:
    pm = ctx.pm
    ctx.explain(
        "R19.1 coverage matrix: for each constrained field named by the property a field_validator (own class or MRO) "
        "contains a ValueError raise guarded by a test of the right kind against the right table; R19.2 every raise in "
        "validators constructs ValueError/FileNotFoundError; R19.3 every cls./self. attribute read in a validator "
        "resolves (class, MRO, pydantic API); R19.4 flat and nested list shapes both reach a raise; R19.5 positivity "
        "guards include 0; R19.6 accepted set is contained in the emitter's table; R19.7 document-level cross-field "
        "checks (grouping columns in df.columns, new_page/page_by, df xor figure, list lengths, figure file).")
    ctx.assume("pydantic runs field validators for provided values and converts ValueError into ValidationError (a ValueError)")
    ctx.undecided("that every invalid value at every position is rejected for concrete inputs (validators are checked structurally)")
    # ---- R19.1 / R19.4 / R19.5
    for cls, field, kind, expected in MATRIX:
        if pm.field_decl(cls, field) is None:
            raise AnalysisError(f"matrix row {cls}.{field}: field no longer declared")
        vs = validators_for(pm, cls, field)
        found = None
        for fi in vs:
            ok, test = _kind_ok(pm, fi, kind, expected)
            if ok:
                found = (fi, test)
                break
        where = (found[0].where() if found else (vs[0].where() if vs else pm.cls(cls).path + ":0"))
        ctx.instance("R19.1", where, f"{cls}.{field}: {kind} {expected if expected else ''} -> " +
                     (f"{found[0].short} guards `{found[1]}`" if found else "NO validator"))
        if not found:
            weak = None
            if kind == "positive":
                for fi in vs:
                    weak = weak or _weak_positive(fi)
            ctx.violation("R19.1" if not weak else "R19.5", f"{cls}.{field}", f"{kind} " + (weak or "missing"), where,
                          f"{cls}.{field}: no validator raises ValueError for the '{kind}' constraint"
                          + (f" (guard `{weak}` excludes the boundary 0)" if weak else "")
                          + (f" against {expected}" if expected else ""))
            continue
        ok, why = _depth_ok(pm, cls, field, found[0])
        ctx.instance("R19.4", found[0].where(), f"{cls}.{field}: {why}")
        if not ok:
            ctx.violation("R19.4", f"{cls}.{field}", why, found[0].where(),
                          f"{cls}.{field}: validator {found[0].short} does not reach a raise for every list depth ({why})")
    ctx.floor("R19.1", 37)
    # ---- R19.2 / R19.3 over all validator-like functions
    vfuncs = []
    for fi in pm.iter_funcs():
        if fi.cls in VALIDATOR_CLASSES and (fi.validator_fields() or fi.model_validator_mode()
                                            or fi.name.startswith(("_validate", "validate_")) or fi.name in ("_set_default",)):
            vfuncs.append(fi)
    for fi in vfuncs:
        for r, tests in guarded_raises(fi):
            en = exc_name(r)
            ctx.instance("R19.2", fi.where(r), f"{fi.short}: raise {en}")
            if en not in OK_EXC:
                ctx.violation("R19.2", fi.short, f"raise {en}", fi.where(r),
                              f"{fi.short} raises {en}; invalid configuration must raise ValueError")
        # R19.3: cls./self. attribute reads anywhere in a raising validator must resolve
        if any(True for _ in guarded_raises(fi)):
            for a in walk_no_nested(fi.node):
                if isinstance(a, ast.Attribute) and isinstance(a.value, ast.Name) and a.value.id in ("cls", "self"):
                    ok = (pm.field_decl(fi.cls, a.attr) is not None or pm.find_method(fi.cls, a.attr) is not None
                          or a.attr in PYDANTIC_API
                          or any(a.attr in pm.classes[c].class_assigns for c in pm.mro(fi.cls) if c in pm.classes))
                    ctx.instance("R19.3", fi.where(a), f"{fi.short}: {unparse(a)} {'resolves' if ok else 'UNRESOLVED'}")
                    if not ok:
                        ctx.violation("R19.3", fi.short, unparse(a), fi.where(a),
                                      f"{fi.short}: `{unparse(a)}` on the raising path does not resolve on {fi.cls} "
                                      "(AttributeError is raised instead of ValueError)")
    ctx.floor("R19.2", 30)
    # ---- R19.6
    r19_6(ctx)
    # ---- R19.7 document-level cross-field checks
    r19_7(ctx)


def r19_7(ctx: Ctx) -> None:
    pm = ctx.pm
    fi = pm.func("RTFDocument._validate_section_columns")
    params = [a.arg for a in fi.node.args.args]
    for grp in ("group_by", "page_by", "subline_by"):
        hit = None
        for r, tests in guarded_raises(fi):
            if exc_name(r) not in OK_EXC:
                continue
            for test, in_body in tests:
                for c in ast.walk(test):
                    if isinstance(c, ast.Compare) and len(c.ops) == 1 and isinstance(c.ops[0], ast.NotIn) and in_body:
                        cont = _resolve_local(fi, c.comparators[0])
                        # the loop variable must range over body.<grp>
                        loop = None
                        p = getattr(r, "_parent", None)
                        while p is not None and p is not fi.node:
                            if isinstance(p, ast.For):
                                loop = p
                                break
                            p = getattr(p, "_parent", None)
                        if loop is None:
                            continue
                        it_txt = unparse(_resolve_local(fi, loop.iter))
                        if grp in it_txt or (isinstance(loop.iter, ast.Name) and _loops_over_group(fi, loop, grp)):
                            hit = (c, cont)
        desc = f"{fi.short}: {grp} membership test " + (f"`{unparse(hit[0])}` container `{unparse(hit[1])}`" if hit else "MISSING")
        ctx.instance("R19.7", fi.where(hit[0]) if hit else fi.where(), desc)
        if not hit:
            ctx.violation("R19.7", fi.short, f"{grp} missing", fi.where(),
                          f"{fi.short}: no ValueError for a {grp} column missing from the data")
            continue
        cont = hit[1]
        is_cols = isinstance(cont, ast.Attribute) and cont.attr == "columns"
        is_coll = isinstance(cont, ast.Call) and dotted(cont.func) in ("set", "list", "tuple", "frozenset") and \
            cont.args and isinstance(cont.args[0], ast.Attribute) and cont.args[0].attr == "columns"
        if not (is_cols or is_coll):
            ctx.violation("R19.7", fi.short, f"{grp} container {unparse(cont)}", fi.where(hit[0]),
                          f"{fi.short}: {grp} membership is tested against `{unparse(cont)}`, not the frame's column list "
                          "(a string container makes it a substring test)")
    # both call sites of _validate_section_columns in validate_column_names (single + per section)
    v = pm.func("RTFDocument.validate_column_names")
    calls = [c for c in walk_no_nested(v.node) if isinstance(c, ast.Call) and dotted(c.func).endswith("_validate_section_columns")]
    ctx.instance("R19.7", v.where(), f"validate_column_names calls _validate_section_columns {len(calls)}x")
    if len(calls) < 2:
        ctx.violation("R19.7", v.short, "section validation call missing", v.where(),
                      "validate_column_names must validate grouping columns for single- and multi-section documents")
    need = {
        "df-and-figure": lambda t: "self.df is not None" in t and "self.rtf_figure is not None" in t,
        "neither": lambda t: "self.df is None" in t and "self.rtf_figure is None" in t,
        "body-list": lambda t: "isinstance(self.rtf_body, list)" in t,
        "length": lambda t: "len(self.df) != len(self.rtf_body)" in t or "len(self.rtf_body) != len(self.df)" in t,
    }
    got = {k: False for k in need}
    for r, tests in guarded_raises(v):
        if exc_name(r) not in OK_EXC:
            continue
        txt = " && ".join(unparse(t) for t, b in tests if b)
        for k, pred in need.items():
            if pred(txt):
                got[k] = True
    for k, ok in got.items():
        ctx.instance("R19.7", v.where(), f"validate_column_names: cross-field check '{k}' {'present' if ok else 'MISSING'}")
        if not ok:
            ctx.violation("R19.7", v.short, k, v.where(), f"validate_column_names: no ValueError for '{k}'")
    mode = v.model_validator_mode()
    if mode != "after":
        ctx.violation("R19.7", v.short, "not a model_validator(after)", v.where(), "validate_column_names is no longer run by pydantic after construction")
    # new_page without page_by: raise reachable from RTFBody.__init__
    b = pm.func("RTFBody._validate_page_by_logic")
    ok = any(exc_name(r) in OK_EXC and any("page_by is None" in unparse(t) and "new_page" in unparse(t) for t, _ in tests)
             for r, tests in guarded_raises(b))
    chain = _calls(pm.func("RTFBody.__init__"), "_set_default") and _calls(pm.func("RTFBody._set_default"), "_validate_page_by_logic")
    ctx.instance("R19.7", b.where(), f"RTFBody: new_page-without-page_by raise {'present' if ok else 'MISSING'}, reached from __init__: {chain}")
    if not (ok and chain):
        ctx.violation("R19.7", b.short, "new_page/page_by", b.where(), "RTFBody no longer rejects new_page=True without page_by at construction")
    # figure file existence
    f = pm.func("RTFFigure.validate_figure_data")
    ok = any(exc_name(r) == "FileNotFoundError" and any("exists" in unparse(t) for t, _ in tests) for r, tests in guarded_raises(f))
    ctx.instance("R19.7", f.where(), f"RTFFigure: missing file raise {'present' if ok else 'MISSING'}")
    if not ok or f.model_validator_mode() is None:
        ctx.violation("R19.7", f.short, "figure existence", f.where(), "RTFFigure no longer raises FileNotFoundError for a missing figure file at construction")
    # margin: the post-default length check must not be the only one (defaults replace an empty list first)
    ctx.floor("R19.7", 10)


def _loops_over_group(fi, loop: ast.For, grp: str) -> bool:
    return False


def _calls(fi: FuncInfo, name: str) -> bool:
    return any(isinstance(c, ast.Call) and dotted(c.func).endswith(name) for c in walk_no_nested(fi.node))
