"""C19 - invalid configuration is rejected up front with ValueError.

The constructors of the configuration classes are interpreted (model interpreter of sa/rules/c17.py with a small model of
pydantic's BaseModel.__init__: before-validators, after-validators, model validators, defaults) on sample values:

R19.1 for every constrained field named by the property an invalid value (unknown keyword, non-positive number, bad length)
      makes construction raise ValueError (pydantic's ValidationError included) in scalar, flat-list and nested-list position
      (a position-specific miss is reported as R19.4, a boundary-only miss (0 accepted, negatives rejected) as R19.5), for the
      class that declares the field and for the concrete components inheriting it;
R19.2 every raise in validator-like functions constructs ValueError / FileNotFoundError; an exception of another type observed
      while constructing with an invalid value is reported here too;
R19.3 every cls./self. attribute read in a raising validator resolves;
R19.6 the validator's legal set is contained in the emitter's table;
R19.7 document-level checks observed by interpretation: grouping columns missing from the data (single and multi-section),
      df xor figure, list-length mismatches, new_page without page_by, missing figure file.
"""
from __future__ import annotations

import ast

from ..consteval import const_expr
from ..absint import NOC
from ..pm import AnalysisError, FuncInfo, dotted, unparse, walk_no_nested
from ..report import Ctx

# (class, field, kind, expected table / detail) - transcribed from the property statement
BORDERS = ["border_left", "border_right", "border_top", "border_bottom", "border_first", "border_last"]
BCOLORS = ["border_color_left", "border_color_right", "border_color_top", "border_color_bottom",
           "border_color_first", "border_color_last"]
MATRIX = (
    [("TableAttributes", f, "member", "BORDER_CODES") for f in BORDERS]
    + [("TableAttributes", f, "color", None) for f in BCOLORS]
    + [("TextAttributes", "text_color", "color", None), ("TextAttributes", "text_background_color", "color", None),
       ("TextAttributes", "text_font", "member", "font-types"),
       ("TextAttributes", "text_format", "letters", "FORMAT_CODES"),
       ("TextAttributes", "text_justification", "member", "TEXT_JUSTIFICATION_CODES"),
       ("TextAttributes", "text_font_size", "positive", None),
       ("TableAttributes", "cell_justification", "member", "*JUSTIFICATION_CODES"),
       ("TableAttributes", "cell_vertical_justification", "member", "VERTICAL_ALIGNMENT_CODES"),
       ("TableAttributes", "col_rel_width", "positive", None),
       ("TableAttributes", "border_width", "positive", None),
       ("TableAttributes", "cell_height", "positive", None),
       ("RTFPage", "orientation", "member", ["portrait", "landscape"]),
       ("RTFPage", "border_first", "member", "BORDER_CODES"),
       ("RTFPage", "border_last", "member", "BORDER_CODES"),
       ("RTFPage", "page_title", "member", ["all", "first", "last"]),
       ("RTFPage", "page_footnote", "member", ["all", "first", "last"]),
       ("RTFPage", "page_source", "member", ["all", "first", "last"]),
       ("RTFPage", "width", "positive", None), ("RTFPage", "height", "positive", None),
       ("RTFPage", "nrow", "positive", None), ("RTFPage", "col_width", "positive", None),
       ("RTFPage", "margin", "length", 6),
       ("RTFBody", "pageby_row", "member", ["column", "first_row"]),
       ("RTFFigure", "fig_align", "member", ["center", "left", "right"]),
       ("RTFFigure", "fig_pos", "member", ["after", "before"]),
       ]
)

PYDANTIC_API = {
    "model_fields", "model_copy", "model_dump", "model_validate", "model_config", "model_fields_set",
    "model_construct", "model_json_schema", "model_computed_fields", "model_extra",
    "__name__", "__class__", "__dict__", "__doc__", "__module__", "__qualname__", "__fields__",
    "__annotations__", "__init__", "__pydantic_fields__",
}
VALIDATOR_CLASSES = ("TextAttributes", "TableAttributes", "RTFPage", "RTFBody", "RTFFigure", "RTFDocument",
                     "RTFTextComponent", "RTFTableTextComponent", "RTFColumnHeader", "ValidationHelpers",
                     "RTFPageHeader", "RTFPageFooter", "RTFTitle", "RTFSubline", "RTFFootnote", "RTFSource")
OK_EXC = {"ValueError", "FileNotFoundError", "ColorValidationError"}


def validators_for(pm, cls: str, field: str, modes=("after", "plain", "wrap")) -> list[FuncInfo]:
    out = []
    for c in pm.mro(cls):
        ci = pm.classes.get(c)
        if not ci:
            continue
        for fi in ci.methods.values():
            vf = fi.validator_fields()
            if vf and field in vf[0] and vf[1] in modes:
                out.append(fi)
    return out


def guarded_raises(fi: FuncInfo):
    """yield (raise node, [enclosing if/comprehension tests]) for every raise in the function"""
    for n in walk_no_nested(fi.node):
        if isinstance(n, ast.Raise):
            tests = []
            p = getattr(n, "_parent", None)
            child = n
            while p is not None and p is not fi.node:
                if isinstance(p, ast.If):
                    in_body = any(child is s for s in p.body)
                    tests.append((p.test, in_body))
                child = p
                p = getattr(p, "_parent", None)
            yield n, tests


def exc_name(r: ast.Raise) -> str:
    e = r.exc
    if isinstance(e, ast.Call):
        return dotted(e.func).split(".")[-1]
    if e is None:
        return "<reraise>"
    return dotted(e).split(".")[-1]


def _resolve_local(fi: FuncInfo, e: ast.AST) -> ast.AST:
    """inline a single-assignment local name"""
    if isinstance(e, ast.Name):
        assigns = [n for n in walk_no_nested(fi.node) if isinstance(n, ast.Assign) and len(n.targets) == 1
                   and isinstance(n.targets[0], ast.Name) and n.targets[0].id == e.id]
        if len(assigns) == 1:
            return assigns[0].value
    return e


def _table_matches(pm, fi: FuncInfo, container: ast.AST, expected) -> bool:
    container = _resolve_local(fi, container)
    text = unparse(container)
    if expected == "font-types":
        return "_font_type" in text or "get_font_table" in text or "RTF_FONT_NAMES" in text
    if isinstance(expected, str):
        if expected.startswith("*"):
            return text.split(".")[-1].endswith(expected[1:])
        return text.split(".")[-1] == expected
    val = const_expr(pm, fi.module, container)
    if val is NOC:
        return False
    try:
        return sorted(val) == sorted(expected)
    except TypeError:
        return False


def _kind_ok(pm, fi: FuncInfo, kind: str, expected) -> tuple[bool, str]:
    """does the validator contain a ValueError raise guarded by a test of this kind?"""
    for r, tests in guarded_raises(fi):
        if exc_name(r) not in OK_EXC:
            continue
        for test, in_body in tests:
            if not in_body:
                continue
            for c in ast.walk(test):
                if kind == "member" and isinstance(c, ast.Compare) and len(c.ops) == 1 and isinstance(c.ops[0], ast.NotIn):
                    if _table_matches(pm, fi, c.comparators[0], expected):
                        return True, unparse(test)
                if kind == "color" and isinstance(c, ast.Call) and dotted(c.func).endswith("validate_color"):
                    # must be negated: `not color_service.validate_color(x)`
                    p = getattr(c, "_parent", None)
                    if isinstance(p, ast.UnaryOp) and isinstance(p.op, ast.Not):
                        return True, unparse(test)
                if kind == "positive" and isinstance(c, ast.Compare) and len(c.ops) == 1:
                    op, rhs = c.ops[0], c.comparators[0]
                    if isinstance(rhs, ast.Constant) and rhs.value == 0 and isinstance(op, ast.LtE):
                        return True, unparse(test)
                    if isinstance(c.left, ast.Constant) and c.left.value == 0 and isinstance(op, ast.GtE):
                        return True, unparse(test)
                if kind == "length" and isinstance(c, ast.Compare) and len(c.ops) == 1 and isinstance(c.ops[0], ast.NotEq):
                    l, rr = c.left, c.comparators[0]
                    if isinstance(l, ast.Call) and dotted(l.func) == "len" and isinstance(rr, ast.Constant) and rr.value == expected:
                        return True, unparse(test)
    return False, ""


def _weak_positive(fi: FuncInfo) -> str | None:
    """a positivity guard that excludes the boundary (`< 0`)"""
    for r, tests in guarded_raises(fi):
        for test, in_body in tests:
            for c in ast.walk(test):
                if isinstance(c, ast.Compare) and len(c.ops) == 1 and isinstance(c.ops[0], ast.Lt) \
                        and isinstance(c.comparators[0], ast.Constant) and c.comparators[0].value == 0:
                    return unparse(c)
    return None


def _depth_ok(pm, cls: str, field: str, fi: FuncInfo) -> tuple[bool, str]:
    """R19.4: fields admitting flat and nested lists need a raise reachable for both shapes"""
    ann = (pm.field_ann(cls, field) or "").replace(" ", "")
    nested = "list[list[" in ann
    flat = any(p.startswith("list[") and not p.startswith("list[list[") for p in ann.split("|"))
    raises = [(r, tests) for r, tests in guarded_raises(fi) if exc_name(r) in OK_EXC]

    def loop_depth(r):
        d = 0
        p = getattr(r, "_parent", None)
        while p is not None and p is not fi.node:
            if isinstance(p, ast.For):
                d += 1
            p = getattr(p, "_parent", None)
        return d

    def gen_depth(r_tests):
        best = 0
        for test, _ in r_tests:
            for c in ast.walk(test):
                if isinstance(c, ast.GeneratorExp):
                    best = max(best, len(c.generators))
        return best

    depths = {max(loop_depth(r), gen_depth(t)) for r, t in raises}
    # string-valued fields iterate one more level (characters of a format string)
    extra = 1 if field == "text_format" else 0
    need = set()
    if nested:
        need.add(2 + extra)
    if flat:
        need.add(1 + extra)
    if not nested and not flat:
        return True, "scalar"
    # a `before` normaliser (_to_nested_list) makes every value nested in table classes
    missing = {d for d in need if d not in depths}
    return (not missing), f"annotation admits depths {sorted(need)}, raises at loop depths {sorted(depths)}"


def r19_6(ctx: Ctx, rule: str = "R19.6") -> None:
    """validator legal set must be contained in the emitter's table (same keys)"""
    pm = ctx.pm
    # emitter side: TABLE[self.<field>] inside model classes
    emit: dict[tuple[str, str], tuple[str, FuncInfo, ast.AST]] = {}
    for model in ("TextContent", "Cell", "Row", "Border"):
        ci = pm.cls(model)
        for fi in ci.methods.values():
            for n in walk_no_nested(fi.node):
                if isinstance(n, ast.Subscript) and isinstance(n.slice, ast.Attribute) and \
                        isinstance(n.slice.value, ast.Name) and n.slice.value.id == "self":
                    emit[(model, n.slice.attr)] = (unparse(n.value), fi, n)
    # binding: model field <- attribute (from constructor call sites)
    bind: dict[str, set[tuple[str, str]]] = {}
    for fi in pm.iter_funcs():
        for c in walk_no_nested(fi.node):
            if isinstance(c, ast.Call) and dotted(c.func).split(".")[-1] in ("TextContent", "Cell", "Row", "Border"):
                model = dotted(c.func).split(".")[-1]
                for k in c.keywords:
                    v = k.value
                    if isinstance(v, ast.Call) and dotted(v.func).split(".")[-1] in ("get_broadcast_value", "get_attr") \
                            and v.args and isinstance(v.args[0], ast.Constant):
                        bind.setdefault(v.args[0].value, set()).add((model, k.arg))
                    elif isinstance(v, ast.Name):
                        # local assigned from get_attr("x", …)
                        rv = _resolve_local(fi, v)
                        if isinstance(rv, ast.Call) and dotted(rv.func).split(".")[-1] in ("get_broadcast_value", "get_attr") \
                                and rv.args and isinstance(rv.args[0], ast.Constant):
                            bind.setdefault(rv.args[0].value, set()).add((model, k.arg))
    # Border(style=…) is fed from border_* attributes
    n = 0
    for attr, targets in sorted(bind.items()):
        for (model, fld) in sorted(targets):
            if (model, fld) not in emit:
                continue
            etab_txt, efi, enode = emit[(model, fld)]
            etab = const_expr(pm, efi.module, enode.value)
            cls = "TableAttributes" if pm.field_decl("TableAttributes", attr) is not None else "TextAttributes"
            for vfi in validators_for(pm, cls, attr):
                for r, tests in guarded_raises(vfi):
                    for test, in_body in tests:
                        for c in ast.walk(test):
                            if isinstance(c, ast.Compare) and len(c.ops) == 1 and isinstance(c.ops[0], ast.NotIn):
                                vtab = const_expr(pm, vfi.module, _resolve_local(vfi, c.comparators[0]))
                                if vtab is NOC or etab is NOC:
                                    continue
                                n += 1
                                extra = sorted(set(vtab) - set(etab))
                                ctx.instance(rule, vfi.where(c), f"{attr}: validator table {unparse(c.comparators[0])} vs emitter {model}.{fld} -> {etab_txt}; accepted-but-unencodable: {extra}")
                                if extra:
                                    ctx.violation(rule, f"{cls}.{attr}", f"{unparse(c.comparators[0])} vs {etab_txt}: {extra}", vfi.where(c),
                                                  f"{attr} is validated against {unparse(c.comparators[0])} but emitted through {etab_txt} "
                                                  f"({model}.{fld}); values {extra} are accepted at construction and raise at encode time")
    ctx.floor(rule, 5)




# ================================================================================================
# observation by interpretation: a small model of pydantic's BaseModel on top of the model interpreter
# ================================================================================================
from .c17 import (Bound, ExtRef, Interp, Obj, PyExc, Unknown, Unsupported, _Model,  # noqa: E402
                  is_artefact, interp_pm, cover, METHOD, run_valuations, FS)
import copy as _copy  # noqa: E402


class DataFrameModel(_Model):
    """model of a data frame: only its column names matter here"""

    def __init__(self, columns, nrow=3):
        self.columns = list(columns)
        self.shape = (nrow, len(self.columns))
        self.width, self.height = len(self.columns), nrow
        self.schema = {c: "String" for c in self.columns}

    def __len__(self):
        return self.height

    def __repr__(self):
        return f"<Frame {self.columns}>"

    def __deepcopy__(self, memo):
        return self


class PydInterp(Interp):
    """Interp + BaseModel.__init__: model validators (before), per field: before-validators, after/plain validators (type
    coercion is not modelled: samples already have an admitted type), defaults for absent fields, model validators (after).
    ValueError / AssertionError raised by a validator become ValidationError (a ValueError), other exceptions propagate."""

    def __init__(self, pm, externals=None, lenient=True):
        Interp.__init__(self, pm, externals, lenient)
        self.unmodelled_types = set()         # (class, field) whose declared type uses constructs ann_check cannot decide

    def make_model(self, cv, args, kwargs):
        if args:
            self.throw("TypeError", "BaseModel.__init__() takes 1 positional argument")
        o = Obj(cv, {})
        init = self.pm.find_method(cv.ci.name, "__init__")
        if init is not None:
            self.call_func(self.func_val(init), [o], kwargs)
        else:
            self.pydantic_init(o, kwargs)
        return o

    def super_fallback(self, obj, name, rest):
        if name == "__init__" and isinstance(obj, Obj) and "BaseModel" in obj.cls.mro_names():
            return lambda *a, **k: self.pydantic_init(obj, k)
        if name in ("model_post_init",):
            return lambda *a, **k: None
        return Interp.super_fallback(self, obj, name, rest)

    def isinstance_ext(self, v, t):
        if isinstance(v, DataFrameModel):
            return isinstance(t, ExtRef) and t.dotted.split(".")[-1] in ("DataFrame", "LazyFrame")
        return Interp.isinstance_ext(self, v, t)

    def call_ext(self, f, args, kwargs):
        if f.dotted.split(".")[-1] in ("Field", "PrivateAttr", "ConfigDict"):
            return Unknown(f.dotted)
        return Interp.call_ext(self, f, args, kwargs)

    def _validators(self, cname):
        meths = {}
        for c in reversed(self.pm.mro(cname)):
            ci = self.pm.classes.get(c)
            if ci:
                for nm, fi in ci.methods.items():
                    meths.pop(nm, None)
                    meths[nm] = fi
        fv, mb, ma = [], [], []
        for fi in meths.values():
            vf = fi.validator_fields()
            if vf:
                fv.append((fi, vf[0], vf[1]))
            mm = fi.model_validator_mode()
            if mm == "before":
                mb.append(fi)
            elif mm == "after":
                ma.append(fi)
            elif mm is not None:
                raise Unsupported(f"model_validator mode {mm}")
        return fv, mb, ma

    def _call_validator(self, fi, cv, v, info):
        n = len(fi.node.args.posonlyargs) + len(fi.node.args.args)
        f = Bound(self.func_val(fi), cv)
        return self.call(f, [v, info][:max(n - 1, 1)], {})

    # ---- declarative constraints (annotation / Field arguments): True = admitted, False = rejected, None = not modelled
    _PLAIN = {"int", "float", "str", "bool", "bytes", "Any", "object", "Path", "Number", "complex"}
    _SEQ = {"list", "List", "Sequence", "MutableSequence", "Iterable", "Collection", "tuple", "Tuple", "set", "Set", "frozenset", "FrozenSet"}
    _NUMERIC = {"PositiveInt": lambda v: v > 0, "PositiveFloat": lambda v: v > 0, "NonNegativeInt": lambda v: v >= 0,
                "NonNegativeFloat": lambda v: v >= 0, "NegativeInt": lambda v: v < 0, "NegativeFloat": lambda v: v < 0,
                "NonPositiveInt": lambda v: v <= 0, "NonPositiveFloat": lambda v: v <= 0}
    _BOUNDS = {"gt": lambda v, b: v > b, "ge": lambda v, b: v >= b, "lt": lambda v, b: v < b, "le": lambda v, b: v <= b,
               "min_length": lambda v, b: len(v) >= b, "max_length": lambda v, b: len(v) <= b,
               "multiple_of": lambda v, b: v % b == 0}
    _FIELD_NEUTRAL = {"default", "default_factory", "description", "title", "examples", "alias", "repr", "exclude", "frozen",
                      "validate_default", "json_schema_extra", "deprecated", "kw_only", "init", "validation_alias", "serialization_alias"}

    def _field_bounds(self, call, v, module):
        """constraints given as Field(...) keyword arguments"""
        res = True
        for k in call.keywords:
            if k.arg in self._BOUNDS:
                b = self.ev(k.value, Frame_mod(module))
                try:
                    if isinstance(v, bool) or v is None:
                        continue
                    if not self._BOUNDS[k.arg](v, b):
                        return False
                except TypeError:
                    continue                      # constraint of another alternative of the union
            elif k.arg not in self._FIELD_NEUTRAL:
                res = None
        return res

    def ann_check(self, ann, v, module, depth=0):
        def tri_any(rs):
            rs = list(rs)
            return True if any(r is True for r in rs) else (None if any(r is None for r in rs) else False)

        def tri_all(rs):
            rs = list(rs)
            return False if any(r is False for r in rs) else (None if any(r is None for r in rs) else True)
        if depth > 8:
            return None
        if isinstance(ann, ast.Constant):
            if ann.value is None:
                return v is None
            if isinstance(ann.value, str):
                try:
                    return self.ann_check(ast.parse(ann.value, mode="eval").body, v, module, depth + 1)
                except SyntaxError:
                    return None
            return None
        if isinstance(ann, ast.BinOp) and isinstance(ann.op, ast.BitOr):
            return tri_any([self.ann_check(ann.left, v, module, depth + 1), self.ann_check(ann.right, v, module, depth + 1)])
        if isinstance(ann, ast.Subscript):
            base = dotted(ann.value).split(".")[-1]
            args = list(ann.slice.elts) if isinstance(ann.slice, ast.Tuple) else [ann.slice]
            if base == "Optional":
                return tri_any([v is None, self.ann_check(args[0], v, module, depth + 1)])
            if base == "Union":
                return tri_any(self.ann_check(a, v, module, depth + 1) for a in args)
            if base == "Literal":
                vals = [self.ev(a, Frame_mod(module)) for a in args]
                return any(type(x) is type(v) and x == v for x in vals)
            if base in self._SEQ:
                if isinstance(v, (str, bytes)) or not isinstance(v, (list, tuple, set, frozenset)):
                    return False
                if base in ("tuple", "Tuple") and not (len(args) == 2 and isinstance(args[1], ast.Constant) and args[1].value is Ellipsis):
                    if len(args) != len(v):
                        return False
                    return tri_all(self.ann_check(a, x, module, depth + 1) for a, x in zip(args, v))
                return tri_all(self.ann_check(args[0], x, module, depth + 1) for x in v)
            if base == "Annotated":
                r = self.ann_check(args[0], v, module, depth + 1)
                for m in args[1:]:
                    if isinstance(m, ast.Call) and dotted(m.func).split(".")[-1] == "Field":
                        r = tri_all([r, self._field_bounds(m, v, module)])
                    elif isinstance(m, ast.Constant):
                        continue
                    elif isinstance(m, ast.Call) and dotted(m.func).split(".")[-1] in ("Gt", "Ge", "Lt", "Le", "MinLen", "MaxLen") and m.args:
                        key = {"Gt": "gt", "Ge": "ge", "Lt": "lt", "Le": "le", "MinLen": "min_length", "MaxLen": "max_length"}[dotted(m.func).split(".")[-1]]
                        try:
                            if v is not None and not self._BOUNDS[key](v, self.ev(m.args[0], Frame_mod(module))):
                                return False
                        except TypeError:
                            pass
                    else:
                        r = tri_all([r, None])
                return r
            if base in ("dict", "Dict", "Mapping", "MutableMapping"):
                return isinstance(v, dict)
            if base in ("type", "Type", "ClassVar", "Callable"):
                return True
            return None
        if isinstance(ann, (ast.Name, ast.Attribute)):
            nm = dotted(ann).split(".")[-1]
            if nm == "None":
                return v is None
            if nm in self._NUMERIC:
                return isinstance(v, (int, float)) and not isinstance(v, bool) and self._NUMERIC[nm](v)
            if nm in self._PLAIN or nm in self._SEQ or nm in ("dict", "Dict", "Mapping", "DataFrame", "LazyFrame"):
                return True
            if isinstance(ann, ast.Name):
                r = self.pm.resolve(module, nm)
                if r is not None and r[0] == "value":            # a type alias defined in the repository
                    return self.ann_check(r[1][1], v, r[1][0].name, depth + 1)
                if r is not None and r[0] == "class":
                    names = self.class_val(r[1]).mro_names()
                    if "Enum" in names:
                        members = [self.ev(x, Frame_mod(r[1].module)) for x in r[1].class_assigns.values()]
                        return v in members
                    return True
                if r is not None and r[0] == "ext" and r[1].split(".")[0] in ("typing", "collections", "pathlib", "polars", "narwhals", "pandas", "numpy", "builtins", "os"):
                    return True
            return None
        return None

    def type_check(self, cname, name, decl, v):
        """pydantic's own validation of the declared type, as far as it constrains *values*"""
        ci = next((self.pm.classes[c] for c in self.pm.mro(cname) if c in self.pm.classes and name in self.pm.classes[c].fields), None)
        module = ci.module if ci is not None else self.pm.cls(cname).module
        r = self.ann_check(decl.annotation, v, module)
        if r is not False and isinstance(decl.value, ast.Call) and dotted(decl.value.func).split(".")[-1] == "Field":
            b = self._field_bounds(decl.value, v, module)
            r = False if b is False else (None if (b is None or r is None) else True)
        return r

    def _as_validation_error(self, e, what):
        names = self.exc_names(e.val)
        if "ValueError" in names or "AssertionError" in names:
            ve = self.make_exc("ValidationError", f"1 validation error for {what}: {self.fmt(e.val)}")
            ve.attrs["__origin__"] = "validator"
            ve.attrs["__cause__"] = e.val
            return PyExc(ve)
        return e

    def pydantic_init(self, o, data):
        cv = o.cls
        cname = cv.ci.name
        fv, mb, ma = self._validators(cname)
        data = dict(data)
        for fi in mb:
            try:
                data = self.call(Bound(self.func_val(fi), cv), [data], {})
            except PyExc as e:
                raise self._as_validation_error(e, cname)
            if not isinstance(data, dict):
                raise Unsupported(f"model validator {fi.short} returned {data!r}")
        validated = {}
        for name, decl in self.pm.all_fields(cname).items():
            if name.startswith("_") or "ClassVar" in unparse(decl.annotation) or name == "model_config":
                continue
            if name in data:
                v = data[name]
                info = Obj(None, {"field_name": name, "data": dict(validated), "config": None, "context": None, "mode": "python"})
                mine = [(fi, mode) for fi, flds, mode in fv if name in flds or "*" in flds]
                try:
                    for fi, mode in reversed(mine):
                        if mode == "before":
                            v = self._call_validator(fi, cv, v, info)
                    tc = self.type_check(cname, name, decl, v)
                    if tc is False:
                        self.throw("ValueError", f"value {v!r} is not admitted by the declared type of {name}")
                    if tc is None:
                        self.unmodelled_types.add((cname, name))
                    for fi, mode in mine:
                        if mode in ("after", "plain"):
                            v = self._call_validator(fi, cv, v, info)
                        elif mode != "before":
                            raise Unsupported(f"field_validator mode {mode}")
                except PyExc as e:
                    raise self._as_validation_error(e, f"{cname}.{name}")
            else:
                d = self.field_default(decl.value, Frame_module(cv)) if decl.value is not None else NotImplemented
                if d is NotImplemented:
                    ve = self.make_exc("ValidationError", f"1 validation error for {cname}: {name} Field required")
                    ve.attrs["__origin__"] = "validator"
                    raise PyExc(ve)
                v = _copy.deepcopy(d)
            validated[name] = v
        o.attrs.update(validated)
        o.attrs.setdefault("__fields_set__", set()).update(k for k in data if k in validated)
        for fi in ma:
            try:
                self.call(Bound(self.func_val(fi), o), [], {})
            except PyExc as e:
                raise self._as_validation_error(e, cname)
        return None

    def model_attr(self, o, name):
        if name == "model_fields_set":
            return set(o.attrs.get("__fields_set__", ()))
        if name == "model_copy":
            def model_copy(update=None, deep=False):
                n = Obj(o.cls, _copy.deepcopy(o.attrs) if deep else dict(o.attrs))
                n.attrs.update(update or {})
                return n
            return model_copy
        if name == "model_dump":
            return lambda **k: {k2: v for k2, v in o.attrs.items() if not k2.startswith("_")}
        return NotImplemented

    def model_class_attr(self, cv, name):
        if name == "model_fields" and "BaseModel" in cv.mro_names():
            out = {}
            for nm, decl in self.pm.all_fields(cv.ci.name).items():
                if nm.startswith("_"):
                    continue
                d = self.field_default(decl.value, Frame_module(cv)) if decl.value is not None else None
                out[nm] = Obj(None, {"default": None if d is NotImplemented else d, "annotation": Unknown("annotation"), "is_required": lambda d=d: d is NotImplemented})
            return out
        return NotImplemented


def Frame_mod(module):
    from .c17 import Frame
    return Frame(module)


def Frame_module(cv):
    from .c17 import Frame
    return Frame(cv.ci.module)


def _shared_interp(pm):
    """one interpreter per program model for constructor runs: module-level tables (colour table, code tables) are evaluated once;
    constructors do not mutate module state"""
    it = getattr(pm, "_c19_interp", None)
    if it is None:
        it = pm._c19_interp = PydInterp(pm)
    return it


def _construct(pm, cls, kwargs):
    """construct cls(**kwargs) under every valuation of unknown conditions -> [outcome]"""
    it = _shared_interp(pm)

    def make():
        cv = it.class_val(pm.cls(cls))
        return it, (lambda: it.call(cv, [], _copy.deepcopy(kwargs))), it
    out = [o for _, o, _ in run_valuations(make)]
    _STATS["constructions"] += 1
    _STATS["runs"] += len(out)
    _STATS["forks"] += len(out) - 1
    _STATS["classes"].add(cls)
    return out


_STATS = {"constructions": 0, "runs": 0, "forks": 0, "classes": set(), "samples": {}}


def _is_value_error(o) -> bool:
    return o[0] == "raise" and "ValueError" in (o[1].cls.mro_names() if o[1].cls is not None else [])


def _table_values(it, pm, name):
    """keys of the module-level table NAME (wherever it is defined)"""
    for mi in pm.modules.values():
        if name in mi.assigns:
            v = it.global_name(mi.name, name)
            if isinstance(v, dict):
                return list(v)
            if isinstance(v, (list, tuple, set, frozenset)):
                return list(v)
    return None


def _samples(it, pm, kind, expected):
    """(valid values, invalid values) for a constraint kind"""
    if kind in ("member", "letters"):
        if expected == "font-types":
            try:
                tab = it.call(it.class_attr(it.class_val(pm.cls("Utils")), "_font_type"), [], {})["type"]
                valid = list(tab)
            except (Unsupported, PyExc, KeyError, TypeError, AnalysisError):
                valid = list(range(1, 11))
            return valid[:3], [x for x in (0, max(valid) + 1, 99, -1) if x not in valid]
        if isinstance(expected, str):
            names = [expected] if not expected.startswith("*") else ["ROW_" + expected[1:]]
            valid = None
            for nm in names:
                valid = _table_values(it, pm, nm)
                if valid is not None:
                    break
            if valid is None:
                raise Unsupported(f"table {expected} not found")
        else:
            valid = list(expected)
        if kind == "letters":
            letters = [x for x in valid if isinstance(x, str) and len(x) == 1]
            return ([letters[0], letters[0] + letters[-1]] if letters else [""]), ["~", (letters[0] if letters else "") + "~"]
        nonempty = [x for x in valid if isinstance(x, str) and x]
        invalid = ["zz-invalid"]
        if len(nonempty) >= 2 and nonempty[0] + nonempty[1] not in valid:
            invalid.append(nonempty[0] + nonempty[1])
        return (nonempty or valid)[:2], invalid
    if kind == "color":
        return ["red", "blue"], ["not-a-colour", "redd~"]
    if kind == "positive":
        return [1, 2], [-1, 0]
    if kind == "length":
        return [[1.0] * expected], [[1.0] * (expected - 1), [1.0] * (expected + 1), []]
    raise Unsupported("constraint kind " + kind)


def _positions(kind, good, bad):
    """(position label, value) for an invalid element `bad` placed among valid elements `good`"""
    if kind == "length":
        return [("whole", bad)]
    return [("scalar", bad), ("flat", [good, bad]), ("flat", [bad]), ("nested", [[good, good], [good, bad]]), ("nested", [[bad]])]


def _valid_in(kind, good):
    if kind == "length":
        return {"whole": good}
    return {"scalar": good, "flat": [good, good], "nested": [[good, good], [good, good]]}


def r19_1(ctx: Ctx) -> None:
    pm = interp_pm(ctx.pm)
    it0 = PydInterp(pm)
    concrete = {}
    for cls, field, kind, expected in MATRIX:
        if pm.field_decl(cls, field) is None:
            raise AnalysisError(f"matrix row {cls}.{field}: field no longer declared")
        where = pm.cls(cls).path + f":{pm.field_decl(cls, field).lineno}"
        try:
            valid, invalid = _samples(it0, pm, kind, expected)
        except Unsupported as e:
            ctx.gap("R19.1", f"{cls}.{field}: no sample values ({e})")
            continue
        good = valid[0]
        _STATS["samples"][f"{kind}:{expected}"] = {"valid": [repr(x) for x in valid], "invalid": [repr(x) for x in invalid]}
        if cls not in concrete:
            subs = [c for c in pm.subclasses(cls) if c != cls and pm.is_pydantic(c) and not pm.subclasses(c)[1:]]
            concrete[cls] = subs
        classes = [cls] + [c for c in concrete[cls] if c != cls]
        n_checked = 0
        accepted = {}      # (class, position) -> [invalid values accepted]
        rejected = set()
        wrong_exc = {}
        for ci_, c in enumerate(classes):
            # which positions does this class support? (a valid value in that position constructs)
            try:
                supported = {}
                for pos, val in _valid_in(kind, good).items():
                    outs = _construct(pm, c, {field: val})
                    supported[pos] = all(o[0] == "return" for o in outs)
                for v2 in valid[1:]:
                    pos0 = next((p for p, ok in supported.items() if ok), None)
                    if pos0 is not None and not all(o[0] == "return" for o in _construct(pm, c, {field: _valid_in(kind, v2)[pos0]})):
                        ctx.gap("R19.1", f"{c}.{field}: the valid value {v2!r} is rejected in the model (sample set or pydantic model out of date)")
                if not any(supported.values()):
                    if ci_ == 0:
                        outs = _construct(pm, c, {field: list(_valid_in(kind, good).values())[0]})
                        ctx.gap("R19.1", f"{c}({field}=<valid value {good!r}>) cannot be constructed in the model: {outs[0][1]!r}")
                    continue
                bads = invalid if ci_ == 0 else invalid[-1:]
                for bad in bads:
                    seen_pos = set()
                    for pos, val in _positions(kind, good, bad):
                        if not supported.get(pos) or (ci_ > 0 and pos in seen_pos):
                            continue
                        seen_pos.add(pos)
                        for o in _construct(pm, c, {field: val}):
                            n_checked += 1
                            if o[0] == "return":
                                accepted.setdefault((c, pos), []).append(bad)
                            elif _is_value_error(o):
                                rejected.add((c, pos, repr(bad)))
                            elif is_artefact(o[1]):
                                ctx.gap("R19.1", f"{c}({field}={val!r}): interpretation ended with {o[1]!r}")
                            else:
                                wrong_exc[(c, pos)] = o[1]
            except Unsupported as e:
                ctx.gap("R19.1", f"{c}({field}=...): construction is outside the interpreted subset: {e}")
                continue
        ctx.instance("R19.1", where, f"{cls}.{field}: {kind} {expected if expected else ''}: {n_checked} constructions with invalid values "
                     f"({', '.join(map(repr, invalid))}) over {len(classes)} class(es); accepted: {sorted({f'{c}/{p}' for c, p in accepted}) or 'none'}")
        for (c, pos), exc in sorted(wrong_exc.items()):
            en = exc.cls.mro_names()[0] if exc.cls is not None else "?"
            ctx.violation("R19.2", f"{cls}.{field}", f"raises {en}", where,
                          f"{c}({field}=<invalid value in {pos} position>) raises {exc!r}; invalid configuration must raise ValueError")
        if not accepted:
            continue
        unm = sorted(f"{c}.{f}" for c, f in _shared_interp(pm).unmodelled_types if f == field and any(cc == c for (cc, _p) in accepted))
        if unm:
            ctx.gap("R19.1", f"{cls}.{field}: invalid sample values are accepted in the model, but the declared type of {unm[0]} uses constructs "
                             "whose validation by pydantic is not modelled")
            continue
        by_pos = {}
        for (c, pos), vals in accepted.items():
            by_pos.setdefault(pos, set()).update(map(repr, vals))
        all_pos = {p for (c, p, _) in rejected} | set(by_pos)
        # classify: boundary only / some positions only / not validated at all
        vals = set().union(*by_pos.values())
        ex_c, ex_pos = sorted(accepted)[0]
        if kind == "positive" and vals == {"0"}:
            ctx.violation("R19.5", f"{cls}.{field}", "positive: 0 accepted", where,
                          f"{ex_c}({field}=0) is accepted while negative values are rejected: the positivity check excludes the boundary 0")
        elif any(p not in by_pos for p in all_pos) and any(True for (c, p, _) in rejected):
            ctx.violation("R19.4", f"{cls}.{field}", f"{kind} not checked in {sorted(by_pos)} position", where,
                          f"{cls}.{field}: invalid values {sorted(vals)} are rejected in {sorted(all_pos - set(by_pos)) or 'some classes'} position but accepted in "
                          f"{sorted(by_pos)} position (e.g. by {ex_c})")
        else:
            ctx.violation("R19.1", f"{cls}.{field}", f"{kind} missing", where,
                          f"{cls}.{field}: construction accepts the invalid value(s) {sorted(vals)} (e.g. {ex_c}, {ex_pos} position); "
                          f"no ValueError for the '{kind}' constraint" + (f" against {expected}" if expected else ""))
    ctx.floor("R19.1", 37)


def _body_kwargs(**k):
    return k


def r19_7(ctx: Ctx) -> None:
    """document-level cross-field checks, observed on interpreted construction"""
    pm = interp_pm(ctx.pm)
    cols_a, cols_b = ["alpha", "beta", "gamma"], ["delta", "epsilon", "alpha"]
    doc_fi = pm.func("RTFDocument.validate_column_names")
    if doc_fi.model_validator_mode() != "after":
        ctx.violation("R19.7", doc_fi.short, "not a model_validator(after)", doc_fi.where(), "validate_column_names is no longer run by pydantic after construction")

    def build(it, spec):
        """spec: ('doc', {df: cols|[cols..]|None, body: dict|[dict..], figure: bool, extra...})"""
        RTFBody = it.class_val(pm.cls("RTFBody"))
        kw = {}
        df = spec.get("df")
        if df is not None:
            kw["df"] = [DataFrameModel(c) for c in df] if df and isinstance(df[0], list) else DataFrameModel(df)
        body = spec.get("body")
        if body is not None:
            kw["rtf_body"] = [it.call(RTFBody, [], dict(b)) for b in body] if isinstance(body, list) else it.call(RTFBody, [], dict(body))
        if spec.get("figure"):
            kw["rtf_figure"] = it.call(it.class_val(pm.cls("RTFFigure")), [], {})
        return kw

    def construct(spec):
        def make():
            it = PydInterp(pm)
            fs = FS(it, {"/work/fig.png": "PNG"})
            it.externals.update(fs.externals())
            return it, (lambda: it.call(it.class_val(pm.cls("RTFDocument")), [], build(it, spec))), it
        return [o for _, o, _ in run_valuations(make)]

    ok_body = {"group_by": ["alpha"], "page_by": ["beta"], "subline_by": ["gamma"]}
    # ---- the model must be able to construct valid documents, otherwise nothing can be concluded
    usable = True
    for label, spec in (("single section", {"df": cols_a, "body": {}}), ("single section with grouping", {"df": cols_a, "body": ok_body}),
                        ("two sections", {"df": [cols_a, cols_b], "body": [ok_body, {"page_by": ["delta"]}]})):
        try:
            outs = construct(spec)
        except Unsupported as e:
            ctx.gap("R19.7", f"RTFDocument construction ({label}) is outside the interpreted subset: {e}")
            usable = False
            continue
        for o in outs:
            ctx.instance("R19.7", doc_fi.where(), f"valid document ({label}): {o[0]} {o[1] if o[0] == 'raise' else ''}")
            if o[0] == "raise":
                ctx.gap("R19.7", f"a valid document ({label}) cannot be constructed in the model: {o[1]!r}")
                usable = False
    if usable:
        cases = []
        for grp in ("group_by", "page_by", "subline_by"):
            for missing in ("alp", "nonexistent", "beta, gamma"):
                cases.append((f"{grp} column {missing!r} missing from the data", grp, {"df": cols_a, "body": {grp: [missing]}}))
            cases.append((f"{grp} column missing, listed after a valid one", grp, {"df": cols_a, "body": {grp: ["alpha", "zzz"]}}))
            others = {g: [c] for g, c in zip(("group_by", "page_by", "subline_by"), cols_a) if g != grp}
            cases.append((f"{grp} column missing while the other grouping options are valid", grp, {"df": cols_a, "body": {**others, grp: ["zzz"]}}))
            cases.append((f"{grp} column of section 2 present only in section 1", grp,
                          {"df": [cols_a, cols_b], "body": [{}, {grp: ["beta"]}]}))
        cases += [("neither df nor figure", "df-or-figure", {}), ("df together with a figure", "df-and-figure", {"df": cols_a, "body": {}, "figure": True}),
                  ("df list with a single body", "body-list", {"df": [cols_a, cols_b], "body": {}}),
                  ("df list and body list of different lengths", "length", {"df": [cols_a, cols_b], "body": [{}, {}, {}]}),
                  ("df list longer than the body list", "length", {"df": [cols_a, cols_b, cols_a], "body": [{}, {}]})]
        for label, key, spec in cases:
            try:
                outs = construct(spec)
            except Unsupported as e:
                ctx.gap("R19.7", f"RTFDocument construction ({label}) is outside the interpreted subset: {e}")
                continue
            for o in outs:
                ctx.instance("R19.7", doc_fi.where(), f"{label}: {o[0]} {(o[1].cls.mro_names()[0] if o[1].cls else '?') if o[0] == 'raise' else ''}")
                if o[0] == "return":
                    ctx.violation("R19.7", "RTFDocument", f"{key} accepted", doc_fi.where(),
                                  f"RTFDocument is constructed although {label}; no ValueError is raised")
                elif not _is_value_error(o):
                    if is_artefact(o[1]):
                        ctx.gap("R19.7", f"{label}: interpretation ended with {o[1]!r}")
                    else:
                        ctx.violation("R19.2", "RTFDocument", f"{key} raises {o[1].cls.mro_names()[0] if o[1].cls else '?'}", doc_fi.where(),
                                      f"{label}: construction raises {o[1]!r} instead of ValueError")
    # ---- new_page without page_by
    b = pm.func("RTFBody._validate_page_by_logic") if pm.has_func("RTFBody._validate_page_by_logic") else pm.func("RTFBody.__init__")
    try:
        ok_new = _construct(pm, "RTFBody", {"new_page": True, "page_by": ["alpha"]})
        bad_new = _construct(pm, "RTFBody", {"new_page": True})
        for o in ok_new:
            if o[0] == "raise":
                ctx.gap("R19.7", f"RTFBody(new_page=True, page_by=[...]) cannot be constructed in the model: {o[1]!r}")
        for o in bad_new:
            ctx.instance("R19.7", b.where(), f"RTFBody(new_page=True) without page_by: {o[0]}")
            if o[0] == "return":
                ctx.violation("R19.7", "RTFBody", "new_page/page_by", b.where(), "RTFBody no longer rejects new_page=True without page_by at construction")
            elif not _is_value_error(o) and not is_artefact(o[1]):
                ctx.violation("R19.2", "RTFBody", "new_page/page_by raises " + o[1].cls.mro_names()[0], b.where(), f"RTFBody(new_page=True) raises {o[1]!r} instead of ValueError")
    except Unsupported as e:
        ctx.gap("R19.7", f"RTFBody construction is outside the interpreted subset: {e}")
    # ---- figure file existence
    f = pm.func("RTFFigure.validate_figure_data") if pm.has_func("RTFFigure.validate_figure_data") else pm.func("RTFFigure.__init__") if pm.has_func("RTFFigure.__init__") else None
    fwhere = f.where() if f is not None else pm.cls("RTFFigure").path + ":1"

    def fig(kwargs):
        def make():
            it = PydInterp(pm)
            fs = FS(it, {"/work/fig.png": "PNG", "/work/fig2.png": "PNG"})
            it.externals.update(fs.externals())
            kw = {k: ([fs.Path(x[5:]) if isinstance(x, str) and x.startswith("PATH:") else x for x in v] if isinstance(v, list)
                      else (fs.Path(v[5:]) if isinstance(v, str) and v.startswith("PATH:") else v)) for k, v in kwargs.items()}
            return it, (lambda: it.call(it.class_val(pm.cls("RTFFigure")), [], kw)), it
        return [o for _, o, _ in run_valuations(make)]
    try:
        for o in fig({"figures": "/work/fig.png"}) + fig({"figures": ["/work/fig.png", "PATH:/work/fig2.png"]}):
            if o[0] == "raise":
                ctx.gap("R19.7", f"RTFFigure with existing files cannot be constructed in the model: {o[1]!r}")
        for label, kw in (("a missing file", {"figures": "/work/missing.png"}), ("a missing file given as Path", {"figures": "PATH:/work/missing.png"}),
                          ("a missing file after an existing one", {"figures": ["/work/fig.png", "/work/missing.png"]})):
            for o in fig(kw):
                names = o[1].cls.mro_names() if o[0] == "raise" and o[1].cls is not None else []
                ctx.instance("R19.7", fwhere, f"RTFFigure with {label}: {o[0]} {names[:1]}")
                if o[0] == "return":
                    ctx.violation("R19.7", "RTFFigure", "figure existence", fwhere, f"RTFFigure with {label} is constructed; no FileNotFoundError at construction")
                elif "FileNotFoundError" not in names and "ValueError" not in names and not is_artefact(o[1]):
                    ctx.violation("R19.2", "RTFFigure", f"figure existence raises {names[0] if names else '?'}", fwhere, f"RTFFigure with {label} raises {o[1]!r}")
    except Unsupported as e:
        ctx.gap("R19.7", f"RTFFigure construction is outside the interpreted subset: {e}")
    ctx.floor("R19.7", 10)


def r19_2_3(ctx: Ctx) -> None:
    pm = ctx.pm
    vfuncs = []
    for fi in pm.iter_funcs():
        if fi.cls in VALIDATOR_CLASSES and (fi.validator_fields() or fi.model_validator_mode()
                                            or fi.name.startswith(("_validate", "validate_")) or fi.name in ("_set_default",)):
            vfuncs.append(fi)
    def ok_exception(fi, r) -> bool | None:
        """True: a ValueError/FileNotFoundError (sub)class; False: another exception class; None: not a class construction
        (bare re-raise, a caught exception object, a computed value)"""
        e = r.exc
        if e is None:
            return None
        target = e.func if isinstance(e, ast.Call) else e
        en = dotted(target).split(".")[-1]
        if en in OK_EXC:
            return True
        res = pm.resolve(fi.module, en) if isinstance(target, ast.Name) else None
        if res is not None and res[0] == "class":
            return any(b in ("ValueError", "FileNotFoundError") for b in pm.mro(res[1].name))
        if res is None and en and en[0].isupper() and (en.endswith(("Error", "Exception", "Warning")) or en in ("KeyboardInterrupt", "StopIteration", "SystemExit")):
            return False                                  # a builtin / imported exception class other than the admitted ones
        if res is not None and res[0] == "ext" and en.endswith(("Error", "Exception")):
            return "ValidationError" in en or "PydanticCustomError" in en
        return None

    for fi in vfuncs:
        for r, tests in guarded_raises(fi):
            en = exc_name(r)
            verdict = ok_exception(fi, r)
            ctx.instance("R19.2", fi.where(r), f"{fi.short}: raise {en}" + ("" if verdict is not None else " (not an exception class construction: not judged)"))
            if verdict is False:
                ctx.violation("R19.2", fi.short, f"raise {en}", fi.where(r),
                              f"{fi.short} raises {en}; invalid configuration must raise ValueError")
        # R19.3: cls./self. attribute reads anywhere in a raising validator must resolve
        if any(True for _ in guarded_raises(fi)):
            for a in walk_no_nested(fi.node):
                if isinstance(a, ast.Attribute) and isinstance(a.value, ast.Name) and a.value.id in ("cls", "self"):
                    ok = (pm.field_decl(fi.cls, a.attr) is not None or pm.find_method(fi.cls, a.attr) is not None
                          or a.attr in PYDANTIC_API or a.attr.startswith("model_")
                          or any(a.attr in pm.classes[c].class_assigns for c in pm.mro(fi.cls) if c in pm.classes))
                    ctx.instance("R19.3", fi.where(a), f"{fi.short}: {unparse(a)} {'resolves' if ok else 'UNRESOLVED'}")
                    if not ok:
                        ctx.violation("R19.3", fi.short, unparse(a), fi.where(a),
                                      f"{fi.short}: `{unparse(a)}` on the raising path does not resolve on {fi.cls} "
                                      "(AttributeError is raised instead of ValueError)")
    ctx.floor("R19.2", 30)


def check(ctx: Ctx) -> None:
    ctx.explain(
        "R19.1/R19.4/R19.5 the constructors of the configuration classes are interpreted with a model of pydantic's BaseModel.__init__ "
        "(before/after field validators, model validators, defaults): for each constrained field named by the property invalid sample "
        "values in scalar, flat and nested position must make construction raise ValueError, for the declaring class and the concrete "
        "components inheriting the field; R19.2 every raise in validators constructs ValueError/FileNotFoundError; R19.3 every cls./self. "
        "attribute read in a validator resolves (class, MRO, pydantic API); R19.6 accepted set is contained in the emitter's table; "
        "R19.7 RTFDocument / RTFBody / RTFFigure are constructed in the model with grouping columns missing from the data (substring and "
        "multi-section cases included), df xor figure, mismatched list lengths, new_page without page_by, missing figure files.")
    ctx.explain("Method for R19.1/R19.4/R19.5/R19.7: " + METHOD + ". pydantic is a model of BaseModel.__init__ (model validators, before/after "
                "field validators in pydantic's order, defaults, ValueError/AssertionError -> ValidationError, value constraints expressed by "
                "Literal / Field bounds / Annotated / Enum); type coercion is not modelled. The verdict is a BOUNDED SAMPLE: per constraint kind a "
                "fixed set of invalid values (listed in coverage.interpretation.samples) in scalar / flat / nested position, for the declaring "
                "class and each concrete leaf class; R19.7 a fixed list of document configurations.")
    ctx.assume("pydantic runs field validators for provided values and converts ValueError into ValidationError (a ValueError)")
    ctx.assume("the pydantic model is faithful for values that already have an admitted type; data frames are models exposing column names only; "
               "figure files live in an in-memory file-system model")
    ctx.undecided("that every invalid value at every position is rejected: only the sample values per constraint kind are decided (bounded sample, not "
                  "exhaustive); pydantic's own type validation and coercion; fields not named in the matrix")
    _STATS.update({"constructions": 0, "runs": 0, "forks": 0, "classes": set(), "samples": {}})
    r19_1(ctx)
    r19_2_3(ctx)
    r19_6(ctx)
    r19_7(ctx)
    cover(ctx, constructions=_STATS["constructions"], interpreted_runs=_STATS["runs"], forks_on_unknown_conditions=_STATS["forks"],
          classes_constructed=sorted(_STATS["classes"]), samples=dict(_STATS["samples"]), positions=["scalar", "flat list", "nested list"],
          verdict_kind="bounded sample (not exhaustive over values)",
          fork_enumeration="all valuations of the unknown conditions consulted (at most 48 runs per construction, else analysis gap)")
