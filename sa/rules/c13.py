"""C13 - group_by blanks only true repeats and restores context on each page.

R13.1 null-aware comparison with the shifted column; R13.2 hierarchical show-condition covers the
first row, every higher level and the column itself, evaluated on the unsuppressed frame;
R13.3 only group_by columns are rewritten; R13.4 page-start indices are cumulative page heights and
restoration writes the original values at exactly those rows; R13.5 validation dominates
suppression, raises ValueError and sees the whole table; R13.6 contiguity key covers all levels.
"""
from __future__ import annotations

import ast

from ..cfg import CFG
from ..linform import linform
from ..pm import AnalysisError, dotted, unparse, walk_no_nested
from ..report import Ctx

NULL_AWARE = {"ne_missing", "eq_missing"}


def _has_shift(e: ast.AST) -> bool:
    return any(isinstance(c, ast.Call) and isinstance(c.func, ast.Attribute) and c.func.attr == "shift" for c in ast.walk(e))


def r13_1(ctx: Ctx) -> int:
    pm = ctx.pm
    n = 0
    for short in ("GroupingService._suppress_single_column", "GroupingService._suppress_hierarchical_columns"):
        fi = pm.func(short)
        for node in walk_no_nested(fi.node):
            # plain comparisons
            if isinstance(node, ast.Compare) and (_has_shift(node.left) or any(_has_shift(c) for c in node.comparators)):
                n += 1
                ok = False
                p = getattr(node, "_parent", None)
                # accepted idiom: (a != a.shift(1)).fill_null(True)
                if isinstance(p, ast.Attribute) and p.attr == "fill_null":
                    call = getattr(p, "_parent", None)
                    if isinstance(call, ast.Call) and call.args and isinstance(call.args[0], ast.Constant) and call.args[0].value is True:
                        ok = True
                ctx.instance("R13.1", fi.where(node), f"{short}: comparison with shifted column `{unparse(node)}` null-aware: {ok}")
                if not ok:
                    ctx.violation("R13.1", short, "null-unaware " + unparse(node), fi.where(node),
                                  f"{short}: `{unparse(node)}` yields null when either side is null, so when(null) blanks the first value "
                                  "after a null key (null must count as a value distinct from every non-null)")
            if isinstance(node, ast.Call) and isinstance(node.func, ast.Attribute) and node.func.attr in NULL_AWARE and \
                    (node.args and _has_shift(node.args[0]) or _has_shift(node.func.value)):
                n += 1
                ctx.instance("R13.1", fi.where(node), f"{short}: `{unparse(node)}` is null-aware ({node.func.attr})")
                if node.func.attr == "eq_missing":
                    # equality must be negated to mean 'changed'
                    p = getattr(node, "_parent", None)
                    neg = isinstance(p, ast.UnaryOp) and isinstance(p.op, (ast.Invert, ast.Not)) or (isinstance(p, ast.Attribute) and p.attr == "not_")
                    if not neg:
                        ctx.violation("R13.1", short, "eq_missing not negated " + unparse(node), fi.where(node), f"{short}: change detection uses equality without negation")
    ctx.floor("R13.1", 3)
    return n


def r13_2_3(ctx: Ctx) -> None:
    pm = ctx.pm
    fi = pm.func("GroupingService._suppress_hierarchical_columns")
    outer = [n for n in walk_no_nested(fi.node) if isinstance(n, ast.For) and "group_by" in unparse(n.iter)
             and not isinstance(getattr(n, "_parent", None), ast.For)]
    outer = [n for n in outer if isinstance(n.iter, ast.Call) and dotted(n.iter.func) == "enumerate"] or outer
    if not outer:
        ctx.violation("R13.2", fi.short, "no level loop", fi.where(), "hierarchical suppression no longer iterates over the group_by levels")
        return
    lp = outer[0]
    tgt = lp.target
    idx_name = tgt.elts[0].id if isinstance(tgt, ast.Tuple) else None
    col_name = tgt.elts[1].id if isinstance(tgt, ast.Tuple) else (tgt.id if isinstance(tgt, ast.Name) else None)
    body_txt = unparse(lp)
    first_row = "int_range" in body_txt and "== 0" in body_txt
    inner = [n for s in lp.body for n in ast.walk(s) if isinstance(n, ast.For)]
    higher_ok = False
    for n in inner:
        it = n.iter
        if isinstance(it, ast.Subscript) and unparse(it.value) == "group_by" and isinstance(it.slice, ast.Slice) and it.slice.lower is None \
                and it.slice.upper is not None and unparse(it.slice.upper) == idx_name and it.slice.step is None:
            hv = n.target.id if isinstance(n.target, ast.Name) else None
            if hv and any(_has_shift(x) and hv in unparse(x) for x in ast.walk(n)):
                higher_ok = True
    own_ok = any(_has_shift(c) and col_name in unparse(c) and not isinstance(getattr(c, "_in_inner", None), bool)
                 for s in lp.body if not isinstance(s, ast.For) for c in ast.walk(s) if isinstance(c, (ast.Call, ast.Compare)))
    ors = [n for s in lp.body for n in ast.walk(s) if isinstance(n, ast.BinOp) and isinstance(n.op, ast.BitOr)]
    ands = [n for s in lp.body for n in ast.walk(s) if isinstance(n, ast.BinOp) and isinstance(n.op, ast.BitAnd)]
    ctx.instance("R13.2", fi.where(lp), f"level loop: first-row term {first_row}; higher levels group_by[:{idx_name}] compared {higher_ok}; own column compared {own_ok}; "
                 f"combined by | ({len(ors)}) & ({len(ands)})")
    if not first_row:
        ctx.violation("R13.2", fi.short, "first row", fi.where(lp), "the first row is not unconditionally shown")
    if not higher_ok:
        ctx.violation("R13.2", fi.short, "higher levels", fi.where(lp), f"show-condition of a level does not include a change of every higher level (group_by[:{idx_name}])")
    if not own_ok:
        ctx.violation("R13.2", fi.short, "own column", fi.where(lp), "show-condition does not include a change of the column itself")
    if not ors or ands:
        ctx.violation("R13.2", fi.short, "combination", fi.where(lp), "conditions are not combined by OR only")
    # evaluated on the unsuppressed frame: with_columns inside the loop must not be applied to a loop-carried frame
    for s in lp.body:
        for n in ast.walk(s):
            if isinstance(n, ast.Assign) and isinstance(n.value, ast.Call) and isinstance(n.value.func, ast.Attribute) \
                    and n.value.func.attr == "with_columns" and isinstance(n.value.func.value, ast.Name) \
                    and any(isinstance(t, ast.Name) and t.id == n.value.func.value.id for t in n.targets):
                ctx.instance("R13.2", fi.where(n), f"loop-carried frame `{unparse(n)[:70]}`")
                ctx.violation("R13.2", fi.short, "levels evaluated on suppressed frame", fi.where(n),
                              f"`{unparse(n)[:80]}` inside the level loop: a lower level is computed on the frame in which its parents are "
                              "already blanked, so a child is blanked when its parent changes but the child does not")
    # R13.3 only the group_by column is written
    for short in ("GroupingService._suppress_single_column", "GroupingService._suppress_hierarchical_columns", "GroupingService.restore_page_context"):
        f = pm.func(short)
        for c in walk_no_nested(f.node):
            if isinstance(c, ast.Call) and isinstance(c.func, ast.Attribute) and c.func.attr == "alias":
                arg = unparse(c.args[0]) if c.args else "?"
                allowed = {"column", "col"}
                ok = arg in allowed
                ctx.instance("R13.3", f.where(c), f"{short}: rewritten column alias({arg})")
                if not ok:
                    ctx.violation("R13.3", short, "alias " + arg, f.where(c), f"{short}: writes column `{arg}`, not the group_by column being processed")
            if isinstance(c, ast.Call) and isinstance(c.func, ast.Attribute) and c.func.attr == "otherwise":
                arg = unparse(c.args[0]) if c.args else "?"
                if short != "GroupingService.restore_page_context" and arg != "None":
                    ctx.violation("R13.3", short, "otherwise " + arg, f.where(c), f"{short}: suppressed cells are set to `{arg}` instead of null (rendered blank)")
            if isinstance(c, ast.Call) and isinstance(c.func, ast.Attribute) and c.func.attr == "then" and short != "GroupingService.restore_page_context":
                arg = unparse(c.args[0]) if c.args else "?"
                ok = arg in ("df[column]", "pl.col(column)")
                if not ok:
                    ctx.violation("R13.3", short, "then " + arg, f.where(c), f"{short}: shown cells take `{arg}` instead of the original value")
    ctx.floor("R13.3", 3)


def r13_4(ctx: Ctx) -> None:
    pm = ctx.pm
    fi = pm.func("UnifiedRTFEncoder._apply_data_post_processing")
    # the cumulative loop: for i, p in enumerate(pages): if i > 0: idx.append(cum); cum += p.data.height
    found = False
    for lp in [n for n in walk_no_nested(fi.node) if isinstance(n, ast.For)]:
        apps = [c for s in lp.body for c in ast.walk(s) if isinstance(c, ast.Call) and isinstance(c.func, ast.Attribute) and c.func.attr == "append"
                and "page_start" in unparse(c.func.value)]
        if not apps:
            continue
        found = True
        acc = unparse(apps[0].args[0])
        aug = [a for s in lp.body for a in ast.walk(s) if isinstance(a, ast.AugAssign) and unparse(a.target) == acc and isinstance(a.op, ast.Add)]
        guard = getattr(apps[0], "_parent", None)
        gtest = None
        p = apps[0]
        while p is not None and p is not lp:
            if isinstance(p, ast.If):
                gtest = unparse(p.test)
            p = getattr(p, "_parent", None)
        app_stmt_idx = next(i for i, s in enumerate(lp.body) if any(x is apps[0] for x in ast.walk(s)))
        aug_idx = next((i for i, s in enumerate(lp.body) if aug and any(x is aug[0] for x in ast.walk(s))), -1)
        over_pages = "pages" in unparse(lp.iter)
        inc = unparse(aug[0].value) if aug else "?"
        ok = bool(aug) and inc.endswith(".data.height") and gtest in ("i > 0", "0 < i", "i >= 1", "i != 0") and app_stmt_idx < aug_idx and over_pages
        ctx.instance("R13.4", fi.where(lp), f"page start indices: append({acc}) under `{gtest}` then {acc} += {inc}; loop over pages: {over_pages}")
        if not ok:
            ctx.violation("R13.4", fi.short, f"page_start_indices append({acc}) if {gtest}; += {inc}", fi.where(lp),
                          "page start indices are not the cumulative heights of the preceding pages (append before adding this page's height, skipping page 1)")
    if not found:
        ctx.violation("R13.4", fi.short, "no page_start_indices", fi.where(), "page start indices are no longer collected for context restoration")
    # restore is called with (suppressed, full frame, group_by, indices) and its result is what pages are re-sliced from
    calls = [c for c in walk_no_nested(fi.node) if isinstance(c, ast.Call) and dotted(c.func).endswith("restore_page_context")]
    for c in calls:
        args = [unparse(a) for a in c.args]
        ctx.instance("R13.4", fi.where(c), f"restore_page_context({', '.join(args)})")
        if len(args) != 4 or "page_start" not in args[3] or "group_by" not in args[2]:
            ctx.violation("R13.4", fi.short, "restore args " + ", ".join(args), fi.where(c), "restore_page_context is not given (suppressed, original, group_by, page_start_indices)")
    if not calls:
        ctx.violation("R13.4", fi.short, "no restore", fi.where(), "page context is no longer restored at page starts")
    r = pm.func("GroupingService.restore_page_context")
    txt = unparse(r.node)
    loops_ok = "for page_start_idx in page_start_indices" in txt and "for col in group_by" in txt
    mask_ok = "== page_start_idx" in txt and "original_df[col][page_start_idx]" in txt
    ctx.instance("R13.4", r.where(), f"restore: loops over indices x group columns {loops_ok}; writes original value at that row {mask_ok}")
    if not (loops_ok and mask_ok):
        ctx.violation("R13.4", r.short, "restore body", r.where(), "restore_page_context no longer writes the original value of every group column at every page start row")
    ctx.floor("R13.4", 3)


def r13_5_6(ctx: Ctx) -> None:
    pm = ctx.pm
    e = pm.func("GroupingService.enhance_group_by")
    g = CFG(e.node)
    val_nodes = [nd for nd in g.nodes if nd.ast is not None and any(isinstance(c, ast.Call) and dotted(c.func).endswith("validate_data_sorting") for c in ast.walk(nd.ast)) and nd.kind == "stmt"]
    sup_nodes = [nd for nd in g.nodes if nd.ast is not None and nd.kind == "stmt" and any(isinstance(c, ast.Call) and dotted(c.func).split(".")[-1].startswith("_suppress") for c in ast.walk(nd.ast))]
    dom = g.dominators()
    ok = bool(val_nodes) and bool(sup_nodes) and all(any(id(v) in dom.get(id(s), set()) for v in val_nodes) for s in sup_nodes)
    ctx.instance("R13.5", e.where(), f"validate_data_sorting dominates {len(sup_nodes)} suppression call(s): {ok}")
    if not ok:
        ctx.violation("R13.5", e.short, "validation does not dominate suppression", e.where(), "group_by suppression can run without the contiguity validation")
    for v in val_nodes:
        for c in ast.walk(v.ast):
            if isinstance(c, ast.Call) and dotted(c.func).endswith("validate_data_sorting"):
                a0 = unparse(c.args[0]) if c.args else "?"
                kw = {k.arg: unparse(k.value) for k in c.keywords}
                if a0 != "df" or kw.get("group_by") != "group_by":
                    ctx.violation("R13.5", e.short, f"validate args {a0} {kw}", e.where(c), "validation is not applied to the frame and group_by list being suppressed")
    vfi = pm.func("GroupingService.validate_data_sorting")
    raises = [r for r in walk_no_nested(vfi.node) if isinstance(r, ast.Raise)]
    for r in raises:
        en = dotted(r.exc.func) if isinstance(r.exc, ast.Call) else "?"
        ctx.instance("R13.5", vfi.where(r), f"validate_data_sorting raises {en}")
        if en != "ValueError":
            ctx.violation("R13.5", vfi.short, "raise " + en, vfi.where(r), "non-contiguous data must be rejected with ValueError")
    if len(raises) < 3:
        ctx.violation("R13.5", vfi.short, f"{len(raises)} raises", vfi.where(), "contiguity validation lost a raise (first level / deeper levels / missing columns)")
    # the whole table is validated: enhance_group_by is called once with the full frame, outside any page loop
    p = pm.func("UnifiedRTFEncoder._apply_data_post_processing")
    calls = [c for c in walk_no_nested(p.node) if isinstance(c, ast.Call) and dotted(c.func).endswith("enhance_group_by")]
    params = [a.arg for a in p.node.args.args]
    from ..linform import single_assign_env
    env = single_assign_env(p.node)
    for c in calls:
        a0 = c.args[0] if c.args else None
        while isinstance(a0, ast.Name) and a0.id in env and a0.id not in params:
            a0 = env[a0.id]
        in_loop = any(isinstance(x, (ast.For, ast.While, ast.ListComp, ast.GeneratorExp)) for x in _anc(c, p.node))
        txt = unparse(a0) if a0 is not None else "?"
        ok = (txt == "processed_df") and not in_loop
        ctx.instance("R13.5", p.where(c), f"enhance_group_by({txt}, …) in a loop: {in_loop}")
        if not ok:
            ctx.violation("R13.5", p.short, f"enhance_group_by({txt}) loop={in_loop}", p.where(c),
                          "group_by validation/suppression is applied to a page slice instead of the whole table: keys split across a page "
                          "boundary are no longer rejected")
    if not calls:
        ctx.violation("R13.5", p.short, "no enhance_group_by", p.where(), "group_by suppression is no longer applied")
    # R13.6 contiguity key uses all levels up to the current one
    ok6 = False
    for n in walk_no_nested(vfi.node):
        if isinstance(n, ast.Assign) and unparse(n.targets[0]) == "group_cols" and isinstance(n.value, ast.Subscript) and isinstance(n.value.slice, ast.Slice):
            sl = n.value.slice
            up = linform(sl.upper) if sl.upper is not None else None
            ok6 = sl.lower is None and sl.step is None and up == {"i": 1, "": 1} and unparse(n.value.value) == "unique_vars"
            ctx.instance("R13.6", vfi.where(n), f"contiguity key columns `{unparse(n.value)}`")
            if not ok6:
                ctx.violation("R13.6", vfi.short, "group_cols " + unparse(n.value), vfi.where(n),
                              f"contiguity of level i is checked on `{unparse(n.value)}` instead of all levels up to i (unique_vars[:i + 1])")
    if not ok6 and not any(f.rule == "R13.6" for f in ctx.findings):
        ctx.violation("R13.6", vfi.short, "no group_cols", vfi.where(), "the hierarchical contiguity key is no longer built from unique_vars[:i + 1]")
    # composite key is separator-joined and null-safe
    txt = unparse(vfi.node)
    sep_ok = "concat_str" in txt and "separator=" in txt and "fill_null" in txt
    ctx.instance("R13.6", vfi.where(), f"composite key: concat_str with separator and fill_null: {sep_ok}")
    if not sep_ok:
        ctx.violation("R13.6", vfi.short, "composite key", vfi.where(), "composite group key is not a separator-joined, null-filled string (distinct keys can collide)")
    ctx.floor("R13.5", 5)


def _anc(n, stop):
    p = getattr(n, "_parent", None)
    while p is not None and p is not stop:
        yield p
        p = getattr(p, "_parent", None)


def check(ctx: Ctx) -> None:
    ctx.explain(
        "R13.1 every comparison whose operand contains .shift( in the suppression functions is null-aware (ne_missing or "
        "(… != …).fill_null(True)); R13.2 the hierarchical show-condition is first-row OR change of every column in "
        "group_by[:i] OR change of the column, combined by | only, and is not evaluated on a loop-carried (already suppressed) "
        "frame; R13.3 only alias(column) of the group column is rewritten, suppressed cells become null; R13.4 page start "
        "indices are cumulative heights of preceding pages and restoration writes the original value for every index x group "
        "column; R13.5 validate_data_sorting dominates suppression, raises ValueError, and is applied once to the whole table; "
        "R13.6 contiguity key of level i = unique_vars[:i+1], separator-joined and null-filled.")
    ctx.assume("polars: a shifted column always contains a null; != with null yields null; ne_missing treats null as a value")
    ctx.undecided("equality of the down-filled column with the input for concrete frames")
    r13_1(ctx)
    r13_2_3(ctx)
    r13_4(ctx)
    r13_5_6(ctx)
