"""C13 - group_by blanks only true repeats and restores context on each page.

R13.1 null-aware comparison with the shifted column; R13.2 hierarchical show-condition covers the
first row, every higher level and the column itself, evaluated on the unsuppressed frame;
R13.3 only group_by columns are rewritten; R13.4 page-start indices are cumulative page heights and
restoration writes the original values at exactly those rows; R13.5 validation dominates
suppression, raises ValueError and sees the whole table; R13.6 contiguity key covers all levels.

R13.2-R13.4 interpret the functions over symbolic inputs (the lenient interpreter of rules/c05.py) and judge the
data-frame expressions that are built (when/then/otherwise/alias chains, the list of page start indices), so
helper extraction, loop vs comprehension, reduce vs accumulation loop and temporaries do not matter.  A construct
that cannot be re-identified is an analysis gap (ctx.gap); a violation needs a recognised construct that
contradicts the property.
"""
from __future__ import annotations

import ast

from ..astmatch import alternatives, guards, resolve
from ..cfg import CFG
from ..dtab import Unsupported, _cmp
from ..linform import linform
from ..pm import dotted, unparse, walk_no_nested
from ..report import Ctx
from .c05 import (LDT, BoolSym, CallSym, GenList, Carried, CmpSym, ElemSym, Init, RangeSym, SliceSym, SubSym, Sym, called, lin_of, lin_sub, parts, path_of,
                  cover, declare, run_block, sym_env)

NULL_AWARE = {"ne_missing", "eq_missing"}


def _has_shift(e: ast.AST) -> bool:
    return any(isinstance(c, ast.Call) and isinstance(c.func, ast.Attribute) and c.func.attr == "shift" for c in ast.walk(e))


def r13_1(ctx: Ctx) -> int:
    pm = ctx.pm
    n = 0
    for short in ("GroupingService._suppress_single_column", "GroupingService._suppress_hierarchical_columns"):
        fi = pm.func(short)
        for node in walk_no_nested(fi.node):
            # plain comparisons
            if isinstance(node, ast.Compare) and (_has_shift(node.left) or any(_has_shift(c) for c in node.comparators)):
                n += 1
                ok = False
                p = getattr(node, "_parent", None)
                # accepted idiom: (a != a.shift(1)).fill_null(True)
                if isinstance(p, ast.Attribute) and p.attr == "fill_null":
                    call = getattr(p, "_parent", None)
                    if isinstance(call, ast.Call) and call.args and isinstance(call.args[0], ast.Constant) and call.args[0].value is True:
                        ok = True
                ctx.instance("R13.1", fi.where(node), f"{short}: comparison with shifted column `{unparse(node)}` null-aware: {ok}")
                if not ok:
                    ctx.violation("R13.1", short, "null-unaware " + unparse(node), fi.where(node),
                                  f"{short}: `{unparse(node)}` yields null when either side is null, so when(null) blanks the first value "
                                  "after a null key (null must count as a value distinct from every non-null)")
            if isinstance(node, ast.Call) and isinstance(node.func, ast.Attribute) and node.func.attr in NULL_AWARE and \
                    (node.args and _has_shift(node.args[0]) or _has_shift(node.func.value)):
                n += 1
                ctx.instance("R13.1", fi.where(node), f"{short}: `{unparse(node)}` is null-aware ({node.func.attr})")
                if node.func.attr == "eq_missing":
                    # equality must be negated to mean 'changed'
                    p = getattr(node, "_parent", None)
                    neg = isinstance(p, ast.UnaryOp) and isinstance(p.op, (ast.Invert, ast.Not)) or (isinstance(p, ast.Attribute) and p.attr == "not_")
                    if not neg:
                        ctx.violation("R13.1", short, "eq_missing not negated " + unparse(node), fi.where(node), f"{short}: change detection uses equality without negation")
        if not any(i.rule == "R13.1" and i.desc.startswith(short) for i in ctx.instances):
            ctx.gap("R13.1", f"{short}: no comparison of a column with its shifted self was re-identified")
    ctx.floor("R13.1", 2)
    return n


# ------------------------------------------------------------------------------------------------------------
# when(...).then(...).otherwise(...).alias(...) chains built by a function
# ------------------------------------------------------------------------------------------------------------

def _chains(values) -> list[dict]:
    """every rewritten-column expression among the symbolic values: {'alias', 'otherwise', 'then', 'when', 'expr'}"""
    out, seen = [], set()
    for v in values:
        for p in parts(v):
            if isinstance(p, CallSym) and p.meth == "alias" and id(p) not in seen:
                seen.add(id(p))
                d = {"expr": p, "alias": p.args[0] if p.args else None}
                x = p.recv
                while isinstance(x, CallSym) and x.meth in ("otherwise", "then", "when"):
                    d.setdefault(x.meth, x.args[0] if x.args else None)
                    x = x.recv
                if "when" in d and "then" in d:
                    out.append(d)
    return out


def _column_of(v):
    """the column an expression `pl.col(c)` / `df[c]` denotes"""
    if isinstance(v, CallSym) and v.meth == "col" and len(v.args) == 1:
        return v.args[0]
    if isinstance(v, SubSym) and not isinstance(v.base, SubSym) and isinstance(v.key, Sym):
        return v.key
    return None


def _columns_in(v) -> list:
    out = []
    for p in parts(v):
        c = _column_of(p)
        if c is not None and not any(c is x for x in out):
            out.append(c)
    return out


def _interpret(ctx: Ctx, short: str, watch=()):
    fi = ctx.pm.func(short)
    dt = LDT(ctx.pm, watch=set(watch) | {"with_columns", "append"})
    leaves = run_block(dt, fi.node.body, sym_env(fi), fi)
    declare(ctx)
    cover(ctx, short + " (whole body, loops: one generic iteration)", leaves)
    return fi, dt, leaves


def _built(leaves) -> list:
    vals = []
    for v, env, eff, out in leaves:
        for e in eff:
            if e[0] == "call" and e[1] in ("with_columns", "append"):
                vals.extend(e[3])
                vals.extend(e[4].values())
        if isinstance(out, tuple) and out[0] == "return":
            vals.append(out[1])
    return vals


def r13_2_3(ctx: Ctx) -> None:
    pm = ctx.pm
    short = "GroupingService._suppress_hierarchical_columns"
    fi = pm.func(short)
    try:
        fi, dt, leaves = _interpret(ctx, short)
    except Unsupported as e:
        ctx.gap("R13.2", f"_suppress_hierarchical_columns could not be interpreted ({e})")
        leaves = []
    chains = []
    for v, env, eff, out in leaves:
        for d in _chains(_built([(v, env, eff, out)])):
            if not any(d["expr"].path == x[0]["expr"].path for x in chains):
                chains.append((d, env))
    if leaves and not chains:
        ctx.gap("R13.2", "_suppress_hierarchical_columns: no when(...).then(...).otherwise(...).alias(...) expression was re-identified")
    for d, env in chains:
        col = _column_of(d["then"])
        if col is None:
            continue                          # reported by R13.3
        # which level is this?  (G, index) such that col = G[index]
        G = index = None
        if isinstance(col, SubSym) and isinstance(col.base, ElemSym) and isinstance(col.base.source, CallSym) and col.base.source.meth == "enumerate" and col.key == 1:
            G, index = col.base.source.args[0], lin_of(SubSym(f"{col.base.path}[0]", None, col.base, 0))
        elif isinstance(col, SubSym) and isinstance(col.key, ElemSym) and isinstance(col.key.source, RangeSym):
            G, index = col.base, lin_of(col.key)
        elif isinstance(col, ElemSym):
            G = col.source
        cond = d["when"]
        disj = list(cond.operands) if isinstance(cond, BoolSym) and cond.op == "|" else [cond]
        if any(isinstance(p, BoolSym) and p.op == "&" for p in parts(cond)):
            ctx.violation("R13.2", fi.short, "combination", fi.where(), "the show-conditions of a level are combined with & (a value must be shown when ANY of: first row, a higher level changed, it changed)")
        own = higher = first = False
        unknown = []
        for x in disj:
            cols = _columns_in(x)
            if isinstance(x, CmpSym) and "int_range" in called(x) and (x.right == 0 or x.left == 0):
                first = True
            elif isinstance(x, Carried):
                after = env.get(x.path)
                keeps = any(p is not after and isinstance(p, Carried) and p.path == x.path for p in parts(after)) or (isinstance(after, Carried) and after.path == x.path)
                if keeps:
                    higher = True
                else:
                    ctx.violation("R13.2", fi.short, "higher levels", fi.where(),
                                  f"the change flag `{x.path}` carried from one level to the next is overwritten with `{path_of(after)[:70]}`: a level only sees a change of "
                                  "its immediate parent, not of every higher level")
                    higher = True          # judged
            elif "shift" in called(x) and len(cols) == 1:
                c = cols[0]
                if c.path == col.path:
                    own = True
                elif isinstance(c, ElemSym) and isinstance(c.source, SliceSym) and G is not None and path_of(c.source.base) == path_of(G) and c.source.lo in (None, 0):
                    hi = lin_of(c.source.hi) if c.source.hi is not None else None
                    if index is not None and hi == index:
                        higher = True
                    elif index is not None and hi == lin_sub(index, {"": -1}):
                        higher = own = True
                    else:
                        higher = True      # judged
                        ctx.violation("R13.2", fi.short, "higher levels", fi.where(),
                                      f"the higher levels compared for a column are `{path_of(c.source)[:60]}`, not every level above it")
                else:
                    unknown.append(x)
            else:
                unknown.append(x)
        ctx.instance("R13.2", fi.where(), f"level `{path_of(col)[:50]}` shown when: first row {first}; a higher level changed {higher}; itself changed {own}; "
                     f"{len(unknown)} other term(s)")
        if unknown:
            ctx.gap("R13.2", f"_suppress_hierarchical_columns: show-condition term `{path_of(unknown[0])[:70]}` not recognised")
            continue
        if not own:
            ctx.violation("R13.2", fi.short, "own column", fi.where(), "show-condition does not include a change of the column itself")
        if not higher:
            ctx.violation("R13.2", fi.short, "higher levels", fi.where(), "show-condition of a level does not include a change of every higher level")
    # evaluated on the unsuppressed frame: with_columns inside a loop must not be applied to a loop-carried frame
    for n in walk_no_nested(fi.node):
        if isinstance(n, ast.Assign) and isinstance(n.value, ast.Call) and isinstance(n.value.func, ast.Attribute) \
                and n.value.func.attr == "with_columns" and isinstance(n.value.func.value, ast.Name) \
                and any(isinstance(t, ast.Name) and t.id == n.value.func.value.id for t in n.targets) \
                and any(isinstance(a, (ast.For, ast.While)) for a in _anc(n, fi.node)):
            ctx.instance("R13.2", fi.where(n), f"loop-carried frame `{unparse(n)[:70]}`")
            ctx.violation("R13.2", fi.short, "levels evaluated on suppressed frame", fi.where(n),
                          f"`{unparse(n)[:80]}` inside the level loop: a lower level is computed on the frame in which its parents are "
                          "already blanked, so a child is blanked when its parent changes but the child does not")
    # R13.3 only the group_by column is written, blanks are nulls, shown cells keep the original value
    for short in ("GroupingService._suppress_single_column", "GroupingService._suppress_hierarchical_columns", "GroupingService.restore_page_context"):
        try:
            f, dt, lv = _interpret(ctx, short)
        except Unsupported as e:
            ctx.gap("R13.3", f"{short} could not be interpreted ({e})")
            continue
        seen = set()
        for d in _chains(_built(lv)):
            if d["expr"].path in seen:
                continue
            seen.add(d["expr"].path)
            restore = short.endswith("restore_page_context")
            keep = d["otherwise"] if restore else d["then"]
            kc = _column_of(keep)
            ctx.instance("R13.3", f.where(), f"{short}: rewritten column alias({path_of(d['alias'])[:50]}); kept value `{path_of(keep)[:50]}`")
            if kc is None:
                ctx.violation("R13.3", short, ("otherwise " if restore else "then ") + path_of(keep)[:50], f.where(),
                              f"{short}: cells that are not {'restored' if restore else 'suppressed'} take `{path_of(keep)[:60]}` instead of the column's own value")
            elif path_of(d["alias"]) != path_of(kc):
                ctx.violation("R13.3", short, "alias " + path_of(d["alias"])[:50], f.where(), f"{short}: writes column `{path_of(d['alias'])[:50]}` with the values of `{path_of(kc)[:50]}`")
            if not restore and "otherwise" in d and d["otherwise"] is not None:
                ctx.violation("R13.3", short, "otherwise " + path_of(d["otherwise"])[:50], f.where(), f"{short}: suppressed cells are set to `{path_of(d['otherwise'])[:50]}` instead of null (rendered blank)")
        if not seen:
            ctx.gap("R13.3", f"{short}: no rewritten column (when/then/otherwise/alias) was re-identified")
    ctx.floor("R13.3", 3)


def r13_4(ctx: Ctx) -> None:
    pm = ctx.pm
    short = "UnifiedRTFEncoder._apply_data_post_processing"
    try:
        fi, dt, leaves = _interpret(ctx, short, watch={"enhance_group_by", "restore_page_context"})
    except Unsupported as e:
        ctx.gap("R13.4", f"_apply_data_post_processing could not be interpreted ({e})")
        leaves = []
        fi = pm.func(short)
    rp = pm.func("GroupingService.restore_page_context")
    names = [a.arg for a in rp.node.args.args][1:]
    n_restore = n_app = 0
    for v, env, eff, out in leaves:
        for e in eff:
            if not (e[0] == "call" and e[1] == "restore_page_context"):
                continue
            n_restore += 1
            a = dict(zip(names, e[3]))
            a.update(e[4])
            if len(names) < 4 or len(a) < 4:
                ctx.gap("R13.4", "restore_page_context: call / signature (suppressed, original, group_by, page_start_indices) not recognised")
                continue
            sup, orig, idx = a[names[0]], a[names[1]], a[names[3]]
            ctx.instance("R13.4", fi.where(e[5]), f"restore_page_context({', '.join(path_of(x)[:40] for x in e[3])})")
            enh = [p for p in parts(sup) if isinstance(p, CallSym) and p.meth == "enhance_group_by"]
            if enh and enh[0].args and path_of(enh[0].args[0]) != path_of(orig):
                ctx.violation("R13.4", fi.short, "restore args " + ", ".join(path_of(x)[:30] for x in e[3]), fi.where(e[5]),
                              f"restore_page_context reads the original values from `{path_of(orig)[:50]}`, not from the frame that was suppressed (`{path_of(enh[0].args[0])[:50]}`)")
            elif not enh:
                ctx.gap("R13.4", f"_apply_data_post_processing: first argument `{path_of(sup)[:50]}` of restore_page_context is not recognisably the suppressed frame")
            ps_form = _prefix_sum_form(idx)
            if ps_form is not None:
                n_app += 1
                _judge_prefix_sums(ctx, fi, e[5], idx, ps_form, pages_param=[a.arg for a in fi.node.args.args][1] if len(fi.node.args.args) > 1 else "pages")
                continue
            if isinstance(idx, GenList) and idx.filtered:
                n_app += 1
                _judge_filtered_starts(ctx, fi, e[5], idx)
                continue
            if isinstance(idx, GenList) and idx.origin is not None:
                idx = idx.origin                      # the list filled by the page loop: judge what the loop appends
            if not isinstance(idx, list) or isinstance(idx, GenList):
                ctx.gap("R13.4", f"_apply_data_post_processing: page start indices `{path_of(idx)[:50]}` are not a list built in the function")
                continue
            apps = [x for x in eff if x[0] == "call" and x[1] == "append" and x[2] is idx]
            for x in apps:
                n_app += 1
                acc = x[3][0] if x[3] else None
                ctx.instance("R13.4", fi.where(x[5]), f"page start index appended: `{path_of(acc)[:50]}` on the path {_fmt(v)}")
                if not isinstance(acc, Carried):
                    ctx.violation("R13.4", fi.short, f"page_start_indices append({path_of(acc)[:50]})", fi.where(x[5]),
                                  f"the page start index appended is `{path_of(acc)[:60]}`, not the number of rows on the preceding pages (an accumulator read before this page's rows are added)")
                    continue
                after = env.get(acc.path)
                inc = lin_sub(lin_of(after) or {}, {acc.path: 1}) if lin_of(after) is not None else None
                ok_inc = inc is not None and len(inc) == 1 and list(inc.values()) == [1] and next(iter(inc)).endswith(".data.height")
                if acc.entry != 0 or not ok_inc:
                    ctx.violation("R13.4", fi.short, f"page_start_indices append({acc.path}); += {path_of(after)[:50]}", fi.where(x[5]),
                                  f"the accumulator `{acc.path}` starts at `{path_of(acc.entry)}` and becomes `{path_of(after)[:60]}` per page; page start indices must be the cumulative "
                                  "heights (p.data.height) of the preceding pages, starting from 0")
                # page 1 is skipped, every later page contributes
                guard = [(k, val, dt.cmp.get(k)) for k, val in v.items() if dt.cmp.get(k) and dt.cmp[k][0] in (ast.Gt, ast.GtE, ast.NotEq, ast.Lt, ast.LtE, ast.Eq)
                         and isinstance(dt.cmp[k][1], SubSym) and dt.cmp[k][1].key == 0 and isinstance(dt.cmp[k][2], int)]
                if len(guard) == 1:
                    k, val, rec = guard[0]
                    at = [(_cmp(rec[0](), i, rec[2]) == val) for i in (0, 1, 2, 7)]
                    if at != [False, True, True, True]:
                        ctx.violation("R13.4", fi.short, f"page_start_indices guard {k[:50]}={val}", fi.where(x[5]),
                                      f"a page start index is appended when `{k[:60]}` is {val}: that is {'also ' if at[0] else 'not '}for the first page and "
                                      f"{'for' if all(at[1:]) else 'not for'} every later page; exactly the pages after the first start with restored context")
                else:
                    ctx.violation("R13.4", fi.short, "page_start_indices guard missing", fi.where(x[5]),
                                  "a page start index is appended for every page including the first (or under an unrecognised condition)") if not guard else \
                        ctx.gap("R13.4", "_apply_data_post_processing: several conditions on the page index")
    if leaves and not n_restore:
        ctx.gap("R13.4", "_apply_data_post_processing: no call of restore_page_context was re-identified (page context restoration)")
    elif leaves and not n_app:
        ctx.gap("R13.4", "_apply_data_post_processing: no path appends a page start index to the list handed to restore_page_context")
    # what restore_page_context writes
    try:
        r, dtr, lv = _interpret(ctx, "GroupingService.restore_page_context")
    except Unsupported as e:
        ctx.gap("R13.4", f"restore_page_context could not be interpreted ({e})")
        lv, r = [], rp
    ps = [a.arg for a in r.node.args.args][1:]
    seen = set()
    for d in _chains(_built(lv)):
        if d["expr"].path in seen or len(ps) < 4:
            continue
        seen.add(d["expr"].path)
        val = d["then"]
        if isinstance(val, CallSym) and val.meth == "lit" and val.args:
            val = val.args[0]
        cell = None
        if isinstance(val, SubSym) and isinstance(val.base, SubSym):
            cell = (val.base.base, val.base.key, val.key)
        elif isinstance(val, SubSym) and isinstance(val.base, CallSym) and val.base.meth == "row" and val.base.args:
            cell = (val.base.recv, val.key, val.base.args[0])
        elif isinstance(val, CallSym) and val.meth == "item" and len(val.args) == 2:
            cell = (val.recv, val.args[1], val.args[0])
        ctx.instance("R13.4", r.where(), f"restore: writes `{path_of(d['then'])[:70]}` where `{path_of(d['when'])[:70]}`")
        roots = {p.path for p in parts(d["then"]) if isinstance(p, Init)}
        if cell is None:
            if ps[1] not in roots:
                ctx.violation("R13.4", r.short, "restore body", r.where(),
                              f"the value written at a page start is `{path_of(d['then'])[:70]}`, which is not read from the original frame `{ps[1]}` "
                              "(the original value of the group column at that row)")
            else:
                ctx.gap("R13.4", f"restore_page_context: restored value `{path_of(d['then'])[:60]}` is not recognisable as one cell of the original frame")
            continue
        frame, col, row = cell
        if not (isinstance(frame, Init) and frame.path == ps[1]):
            ctx.violation("R13.4", r.short, "restore body", r.where(), f"the value written at a page start is read from `{path_of(frame)[:40]}`, not from the original frame `{ps[1]}`")
        row_src = {p.path for p in parts(row) if isinstance(p, Init)}
        if not (isinstance(row, ElemSym) and ps[3] in row_src):
            ctx.violation("R13.4", r.short, "restore body row " + path_of(row)[:40], r.where(), f"the restored value is read from row `{path_of(row)[:50]}`, not from a page start row of `{ps[3]}`")
        mask_rows = [p for p in parts(d["when"]) if isinstance(p, ElemSym) and ps[3] in {q.path for q in parts(p) if isinstance(q, Init)}]
        w = d["when"]
        if isinstance(w, CmpSym) and w.op is ast.Eq and ("int_range" in called(w.left)) != ("int_range" in called(w.right)):
            at = w.right if "int_range" in called(w.left) else w.left
            if lin_of(at) is not None and lin_of(row) is not None and lin_of(at) != lin_of(row):
                ctx.violation("R13.4", r.short, "restore body mask", r.where(), f"the value of row `{path_of(row)[:40]}` is written at row `{path_of(at)[:40]}`")
        elif isinstance(row, ElemSym) and not any(p.path == row.path for p in mask_rows):
            if mask_rows:
                ctx.violation("R13.4", r.short, "restore body mask", r.where(), f"the value of row `{path_of(row)[:40]}` is written at another row (`{path_of(d['when'])[:60]}`)")
            else:
                ctx.gap("R13.4", f"restore_page_context: the row mask `{path_of(d['when'])[:60]}` is not recognisably 'row index == page start'")
        if path_of(col) != path_of(d["alias"]):
            ctx.violation("R13.4", r.short, "restore body column", r.where(), f"column `{path_of(d['alias'])[:40]}` is restored with the value of column `{path_of(col)[:40]}`")
        col_src = {p.path for p in parts(col) if isinstance(p, Init)}
        if ps[2] not in col_src:
            ctx.gap("R13.4", f"restore_page_context: restored column `{path_of(col)[:40]}` is not an element of `{ps[2]}`")
    if lv and not seen:
        ctx.gap("R13.4", "restore_page_context: no rewritten column (when/then/otherwise/alias) was re-identified")
    ctx.floor("R13.4", 3)


def _judge_filtered_starts(ctx: Ctx, fi, node, idx) -> None:
    """the page start indices are a FILTERED selection of candidate rows: a filter that only bounds the index is harmless, a filter that looks at the data
    omits page starts depending on the values"""
    conj = []
    for c in idx.ifs:
        conj.extend(c.values if isinstance(c, ast.BoolOp) and isinstance(c.op, ast.And) else [c])
    data_dep = [c for c in conj if not (isinstance(c, ast.Compare) and all(isinstance(o, (ast.Lt, ast.LtE, ast.Gt, ast.GtE)) for o in c.ops)
                                        and not any(isinstance(x, ast.Subscript) for x in ast.walk(c)))]
    ctx.instance("R13.4", fi.where(node), f"page start indices = filtered selection `{path_of(idx)[:80]}` under {[unparse(c)[:50] for c in conj]}")
    if data_dep:
        ctx.violation("R13.4", fi.short, "page_start_indices filtered by " + "; ".join(unparse(c)[:50] for c in data_dep)[:120], fi.where(node),
                      f"a page start is left out of the rows whose context is restored when `{unparse(data_dep[0])[:80]}` does not hold: context must be restored at the "
                      "first row of EVERY page after the first (a suppressed higher-level value is otherwise missing at the top of the page)")
    else:
        ctx.gap("R13.4", f"_apply_data_post_processing: page start indices are a bounded selection `{path_of(idx)[:60]}` whose candidates were not re-identified")


def _neg_int(x):
    return isinstance(x, int) and not isinstance(x, bool) and x < 0


def _prefix_sum_form(v):
    """itertools.accumulate over the page heights as a term: (summands, initial given?, initial value, dropped in front, dropped at the end of the summands,
    dropped at the end of the result) or None.  accumulate(h) is the sequence of prefix sums h0, h0+h1, ...; with initial=c it starts with c."""
    front = back = 0
    while True:
        if isinstance(v, CallSym) and v.recv is None and v.meth in ("list", "tuple") and len(v.args) == 1:
            v = v.args[0]
        elif isinstance(v, SliceSym) and (v.lo is None or (isinstance(v.lo, int) and not isinstance(v.lo, bool) and v.lo >= 0)) and (v.hi is None or _neg_int(v.hi)):
            if back and v.lo:
                return None
            front += v.lo or 0
            back += -(v.hi or 0)
            v = v.base
        else:
            break
    if not (isinstance(v, CallSym) and v.recv is None and v.meth == "accumulate" and len(v.args) == 1):
        return None
    kw = dict(v.kw)
    if set(kw) - {"initial"}:
        return None                                    # func= ...: not a sum
    seq, d_in = v.args[0], 0
    if isinstance(seq, SliceSym) and seq.lo in (None, 0) and _neg_int(seq.hi):
        seq, d_in = seq.base, -seq.hi
    elif isinstance(seq, SliceSym):
        return None
    return seq, "initial" in kw and kw["initial"] is not None, kw.get("initial"), front, d_in, back


def _judge_prefix_sums(ctx: Ctx, fi, node, idx, form, pages_param: str) -> None:
    seq, has_init, init, front, d_in, back = form
    ctx.instance("R13.4", fi.where(node), f"page start indices = prefix sums `{path_of(idx)[:90]}`")
    src = seq.sources[0] if isinstance(seq, GenList) and len(seq.sources) == 1 else None
    if isinstance(src, SliceSym) and src.lo in (None, 0) and _neg_int(src.hi) and not d_in:
        d_in = -src.hi                                  # heights of pages[:-d]: the same as dropping the last d heights
        src_path, src = src.path, src.base
    else:
        src_path = path_of(src)
    ok_seq = isinstance(seq, GenList) and len(seq) == 1 and not seq.filtered and isinstance(src, Init) \
        and src.path == pages_param and isinstance(seq[0], Sym) and seq[0].path.startswith("∀") and seq[0].path.endswith(".data.height") \
        and seq[0].path.split("∈", 1)[1] == src_path + ".data.height"
    if not ok_seq:
        ctx.gap("R13.4", f"_apply_data_post_processing: summands `{path_of(seq)[:60]}` of the prefix sums are not recognisably the heights p.data.height of all pages in order")
        return
    if has_init and init != 0:
        ctx.violation("R13.4", fi.short, f"page_start_indices accumulate initial={path_of(init)[:30]}", fi.where(node),
                      f"the running total of the page heights starts at `{path_of(init)[:40]}`, not at 0")
        return
    # with n pages of heights h0..h(n-1) and P_k = h0+...+hk the result must be P_0 .. P_(n-2): the first rows of pages 2..n
    first_is_page1 = has_init and front == 0           # 0 = first row of page 1 is included
    skipped = front - (1 if has_init else 0)           # prefix sums P_0.. missing in front
    last = d_in + back                                 # must be 1: P_(n-1) = number of all rows is dropped, P_(n-2) is kept
    if first_is_page1 or skipped > 0 or last != 1:
        what = "includes the first page (index 0)" if first_is_page1 else (f"misses the first {skipped} page start(s) after page 1" if skipped > 0 else
               ("includes the total number of rows (one past the last page)" if last == 0 else f"misses the start of the last {last - 1} page(s)"))
        ctx.violation("R13.4", fi.short, f"page_start_indices prefix sums front={front} initial={has_init} back={d_in}+{back}", fi.where(node),
                      f"the page start indices `{path_of(idx)[:80]}` are the prefix sums of the page heights but the selection {what}; exactly the first rows of "
                      "pages 2..n (sum of the heights of all preceding pages) start with restored context")


def _fmt(v: dict) -> str:
    return "[" + ", ".join(f"{k[:40]}={x}" for k, x in sorted(v.items())) + "]"


def _strip_clone(e: ast.AST) -> ast.AST:
    while isinstance(e, ast.Call) and isinstance(e.func, ast.Attribute) and e.func.attr in ("clone", "copy") and not e.args:
        e = e.func.value
    return e


def r13_5_6(ctx: Ctx) -> None:
    pm = ctx.pm
    e = pm.func("GroupingService.enhance_group_by")
    g = CFG(e.node)
    val_nodes = [nd for nd in g.nodes if nd.ast is not None and any(isinstance(c, ast.Call) and dotted(c.func).endswith("validate_data_sorting") for c in ast.walk(nd.ast)) and nd.kind == "stmt"]
    sup_nodes = [nd for nd in g.nodes if nd.ast is not None and nd.kind == "stmt" and any(isinstance(c, ast.Call) and dotted(c.func).split(".")[-1].startswith("_suppress") for c in ast.walk(nd.ast))]
    dom = g.dominators()
    ok = bool(val_nodes) and bool(sup_nodes) and all(any(id(v) in dom.get(id(s), set()) for v in val_nodes) for s in sup_nodes)
    ctx.instance("R13.5", e.where(), f"validate_data_sorting dominates {len(sup_nodes)} suppression call(s): {ok}")
    if not sup_nodes:
        ctx.gap("R13.5", "enhance_group_by: the suppression calls (_suppress_*) were not re-identified")
    elif not ok:
        ctx.violation("R13.5", e.short, "validation does not dominate suppression", e.where(), "group_by suppression can run without the contiguity validation")
    params = [a.arg for a in e.node.args.args]

    def root(x: ast.AST | None) -> str:
        return unparse(_strip_clone(resolve(x, e.node))) if x is not None else "?"
    sup_frames = set()
    for s in sup_nodes:
        for c in ast.walk(s.ast):
            if isinstance(c, ast.Call) and dotted(c.func).split(".")[-1].startswith("_suppress") and c.args:
                sup_frames.add(root(c.args[0]))
                sup_frames |= {unparse(_strip_clone(x)) for x in alternatives(c.args[0], e.node)}
    for v in val_nodes:
        for c in ast.walk(v.ast):
            if isinstance(c, ast.Call) and dotted(c.func).endswith("validate_data_sorting"):
                a0 = root(c.args[0]) if c.args else root(next((k.value for k in c.keywords if k.arg == "df"), None))
                kw = {k.arg: root(k.value) for k in c.keywords}
                gb = kw.get("group_by")
                ctx.instance("R13.5", e.where(c), f"validate_data_sorting({a0}, group_by={gb})")
                if sup_frames and a0 not in sup_frames:
                    ctx.violation("R13.5", e.short, f"validate args {a0} {kw}", e.where(c), f"validation is applied to `{a0}`, not to the frame being suppressed ({sorted(sup_frames)})")
                if gb is None or gb not in params:
                    if gb is None:
                        ctx.violation("R13.5", e.short, f"validate args {a0} {kw}", e.where(c), "validation is not given the group_by list being suppressed")
                    else:
                        ctx.gap("R13.5", f"enhance_group_by: group_by argument `{gb}` of the validation not recognised")
    vfi = pm.func("GroupingService.validate_data_sorting")
    raises = [r for r in walk_no_nested(vfi.node) if isinstance(r, ast.Raise)]
    for r in raises:
        en = dotted(r.exc.func) if isinstance(r.exc, ast.Call) else (dotted(r.exc) if r.exc is not None else "re-raise")
        ctx.instance("R13.5", vfi.where(r), f"validate_data_sorting raises {en}")
        if en not in ("ValueError", "re-raise"):
            ctx.violation("R13.5", vfi.short, "raise " + en, vfi.where(r), "non-contiguous data must be rejected with ValueError")
    if not raises:
        ctx.violation("R13.5", vfi.short, "0 raises", vfi.where(), "contiguity validation never raises: non-contiguous data is no longer rejected")
    elif len(raises) < 3:
        ctx.gap("R13.5", f"validate_data_sorting: {len(raises)} raise statement(s) re-identified (first level / deeper levels / missing columns expected)")
    # every level is scanned: the per-level loop may not be left / a level may not be skipped on the word of a second, data-dependent criterion
    lvl = [lp for lp in walk_no_nested(vfi.node) if isinstance(lp, ast.For) and any(isinstance(x, ast.Raise) for x in ast.walk(lp))]
    lvl = [lp for lp in lvl if not any(m is not lp and any(x is lp for x in ast.walk(m)) for m in lvl)]
    harmless = {"len", "is_empty", "isinstance", "bool"}
    for lp in lvl:
        inside = {id(x) for x in ast.walk(lp)}
        for n in ast.walk(lp):
            if not isinstance(n, (ast.Continue, ast.Break, ast.Return)):
                continue
            if isinstance(n, (ast.Continue, ast.Break)) and next((a for a in _anc(n, vfi.node) if isinstance(a, (ast.For, ast.While))), None) is not lp:
                continue
            for test, pol in guards(n, vfi.node):
                if id(test) not in inside:
                    continue
                t = resolve(test, vfi.node)
                names = {dotted(c.func).split(".")[-1] for c in ast.walk(t) if isinstance(c, ast.Call)}
                ctx.instance("R13.5", vfi.where(n), f"validate_data_sorting: a level's scan is skipped ({type(n).__name__.lower()}) when `{unparse(t)[:80]}` is {pol}")
                if names - harmless:
                    ctx.violation("R13.5", vfi.short, f"level scan skipped under {unparse(t)[:80]}", vfi.where(n),
                                  f"the contiguity scan of a level is skipped ({type(n).__name__.lower()}) when `{unparse(t)[:100]}` is {pol}: a second, data-dependent criterion "
                                  f"({', '.join(sorted(names - harmless))}) now decides that data is contiguous and the ValueError of the scan is no longer reached on that path")
    # the whole table is validated: enhance_group_by is called once with the full frame, outside any page loop
    p = pm.func("UnifiedRTFEncoder._apply_data_post_processing")
    calls = [c for c in walk_no_nested(p.node) if isinstance(c, ast.Call) and dotted(c.func).endswith("enhance_group_by")]
    pparams = [a.arg for a in p.node.args.args]
    for c in calls:
        a0 = _strip_clone(resolve(c.args[0], p.node)) if c.args else None
        in_loop = any(isinstance(x, (ast.For, ast.While, ast.ListComp, ast.GeneratorExp)) for x in _anc(c, p.node))
        txt = unparse(a0) if a0 is not None else "?"
        whole = isinstance(a0, ast.Name) and a0.id in pparams
        ctx.instance("R13.5", p.where(c), f"enhance_group_by({txt}, …) in a loop: {in_loop}")
        if in_loop:
            ctx.violation("R13.5", p.short, f"enhance_group_by({txt}) loop={in_loop}", p.where(c),
                          "group_by validation/suppression is applied to a page slice instead of the whole table: keys split across a page "
                          "boundary are no longer rejected")
        elif not whole:
            if any(isinstance(x, ast.Call) and isinstance(x.func, ast.Attribute) and x.func.attr in ("slice", "head", "tail", "filter") for x in ast.walk(a0)) or isinstance(a0, ast.Subscript):
                ctx.violation("R13.5", p.short, f"enhance_group_by({txt}) loop={in_loop}", p.where(c), f"group_by validation/suppression is applied to `{txt}`, a part of the table")
            else:
                ctx.gap("R13.5", f"_apply_data_post_processing: frame `{txt}` handed to enhance_group_by is not recognisably the whole processed table")
    if not calls:
        ctx.gap("R13.5", "_apply_data_post_processing: no call of enhance_group_by was re-identified")
    # R13.6 contiguity key uses all levels up to the current one
    n6 = 0
    for lp in [n for n in walk_no_nested(vfi.node) if isinstance(n, ast.For)]:
        it = lp.iter
        if not (isinstance(it, ast.Call) and dotted(it.func) == "enumerate" and it.args and isinstance(lp.target, ast.Tuple) and isinstance(lp.target.elts[0], ast.Name)):
            continue
        seq, iv = unparse(it.args[0]), lp.target.elts[0].id
        for n in ast.walk(lp):
            if isinstance(n, ast.Subscript) and isinstance(n.slice, ast.Slice) and unparse(n.value) == seq and isinstance(n.ctx, ast.Load):
                sl = n.slice
                up = linform(sl.upper) if sl.upper is not None else None
                lo_ok = sl.lower is None or (isinstance(sl.lower, ast.Constant) and sl.lower.value == 0)
                if up is None or iv not in up:
                    continue                   # not a level-dependent key
                n6 += 1
                ok6 = lo_ok and sl.step is None and up == {iv: 1, "": 1}
                ctx.instance("R13.6", vfi.where(n), f"contiguity key columns `{unparse(n)}`")
                if not ok6:
                    ctx.violation("R13.6", vfi.short, "group_cols " + unparse(n), vfi.where(n),
                                  f"contiguity of level {iv} is checked on `{unparse(n)}` instead of all levels up to {iv} ({seq}[:{iv} + 1])")
    if not n6:
        ctx.gap("R13.6", "validate_data_sorting: the hierarchical contiguity key (levels[:i + 1] inside the loop over the levels) was not re-identified")
    # composite key is separator-joined and null-safe
    cc = [c for c in walk_no_nested(vfi.node) if isinstance(c, ast.Call) and dotted(c.func).split(".")[-1] == "concat_str"]
    if not cc:
        ctx.gap("R13.6", "validate_data_sorting: the composite key (concat_str) was not re-identified")
    for c in cc:
        sep = next((k.value for k in c.keywords if k.arg == "separator"), None)
        fills = any(isinstance(x, ast.Call) and isinstance(x.func, ast.Attribute) and x.func.attr == "fill_null" for x in walk_no_nested(vfi.node))
        sep_ok = sep is not None and not (isinstance(sep, ast.Constant) and sep.value == "")
        ctx.instance("R13.6", vfi.where(c), f"composite key: concat_str with separator {sep_ok} and fill_null {fills}")
        if not sep_ok or not fills:
            ctx.violation("R13.6", vfi.short, "composite key", vfi.where(c), "composite group key is not a separator-joined, null-filled string (distinct keys can collide)")
    ctx.floor("R13.5", 5)


def _anc(n, stop):
    p = getattr(n, "_parent", None)
    while p is not None and p is not stop:
        yield p
        p = getattr(p, "_parent", None)


def check(ctx: Ctx) -> None:
    ctx.explain(
        "R13.1 every comparison whose operand contains .shift( in the suppression functions is null-aware (ne_missing or "
        "(… != …).fill_null(True)); R13.2 (symbolic interpretation) the condition of every when(...).then(col).otherwise(None).alias(col) built by the hierarchical "
        "suppression is an OR of: first row, a change of the column itself, a change of every column in group_by[:i] (or an accumulated carried flag), and it is not "
        "evaluated on a loop-carried (already suppressed) frame; R13.3 the rewritten column is the column whose values are kept, suppressed cells become null; "
        "R13.4 page start indices are the accumulator (from 0, += p.data.height) read before the page's rows are added, for every page but the first; restoration writes "
        "original_df[col][page start] at the row equal to that page start for the same column; R13.5 validate_data_sorting dominates suppression, raises ValueError, and "
        "is applied once to the whole table; R13.6 contiguity key of level i = levels[:i+1], separator-joined and null-filled.")
    ctx.assume("polars: a shifted column always contains a null; != with null yields null; ne_missing treats null as a value")
    ctx.assume("R13.2-R13.4 judge the data-frame EXPRESSIONS built by the functions (terms such as when(c).then(x).otherwise(y).alias(n)), not their evaluation by polars: "
               "polars operators are uninterpreted function symbols")
    ctx.assume("R13.4 guard on the page index: only a single comparison `index OP integer constant` is accepted (anything else: gap / violation 'guard missing'); such a "
               "predicate over the naturals is monotone or a point predicate, so its values at 0, 1 and 2 determine it everywhere: False at 0 and True at 1 and 2 force "
               "it to be equivalent to index >= 1 (7 is a redundant extra point); this is an exact decision, not a sample")
    ctx.assume("R13.5 level scan: a continue / break / return that leaves the per-level contiguity scan under a condition computed from the data (any call other than "
               "len / is_empty / isinstance / bool) is reported: the property requires the ValueError of the scan to be reachable for every non-empty input, and an "
               "additional contiguity criterion cannot be proved equivalent by this analysis")
    ctx.assume("R13.4: page start indices selected by a filter that reads the data (equality tests, subscripts) omit page starts depending on values: reported; filters that "
               "only bound the index are not judged (gap)")
    ctx.assume("R13.4: itertools.accumulate(h) without func= is modelled as the term 'prefix sums of h' (h0, h0+h1, ...; with initial=c preceded by c); slices with literal "
               "bounds ([:-1], [1:-1]) of the summands / of the result are read as dropping that many leading / trailing prefix sums; the verdict is an identity between "
               "index sets for a symbolic number n of pages (result must be P_0..P_(n-2)), nothing is evaluated for a chosen n")
    ctx.assume("R13.4 page start indices: the accumulator is judged on one generic iteration (entry value of the accumulator symbolic, its initial value before the loop "
               "read separately): appended value = accumulator before this page, accumulator' = accumulator + p.data.height; with initial value 0 this is the inductive "
               "definition of the cumulative heights")
    ctx.undecided("equality of the down-filled column with the input for concrete frames")
    r13_1(ctx)
    r13_2_3(ctx)
    r13_4(ctx)
    r13_5_6(ctx)
