"""C10 - every Unicode character reaches the reader intact.

R10.1 interval analysis of the escaper loop over all code points; R10.2 literal shape of the escape
(\\ucN + N literal fallback characters); R10.3 taint: no user text reaches the document shape
without passing the escaper; R10.4 files are written with an explicit encoding under which the
pass-through range is invariant; R10.5 the escaper runs unconditionally (for either value of the
conversion flag everything the entry point returns is escaper output).

The escaper is recognised by role (a per-character iteration that takes ord() of the character, as a
statement loop or a comprehension, directly or through helpers); helpers called from it are analysed in
place by the interval analysis.  Constructs the analysis cannot bound are gaps, not violations.
"""
from __future__ import annotations

import ast
import re

from .. import interval as I
from .. import shapes as S
from ..callgraph import CallGraph
from ..consteval import const_expr
from ..absint import NOC
from ..docshape import PATHS, doc_shape, make_interp
from ..pm import AnalysisError, dotted, unparse, walk_no_nested
from ..report import Ctx

ENTRY = "TextContent._convert_special_chars"
SURR = ((0xD800, 0xDFFF),)
ALL = I.minus(((0, I.MAXCP),), SURR)
PASS_OK = {"utf-8": ((0, 127),), "utf8": ((0, 127),), "ascii": ((0, 127),), "us-ascii": ((0, 127),),
           "cp1252": ((0, 255),), "windows-1252": ((0, 255),)}


class Callee:
    """a repository function a call inside the escaper denotes (frame of the interval analysis)"""

    def __init__(self, fi):
        self.fi = fi
        self.node = fi.node
        self.module = fi.module
        self.cls = fi.cls
        self.name = fi.short
        self.skip_first = bool(fi.cls) and not fi.is_static and fi.parent is None


def resolve_call(pm, owner, c: ast.Call, frame=None):
    """repository function called by `c`, seen from function `owner` (FuncInfo) or a callee frame"""
    module = frame.module if frame is not None else owner.module
    cls = frame.cls if frame is not None else owner.cls
    scope = frame.fi if frame is not None else owner
    f = c.func
    target = None
    if isinstance(f, ast.Name):
        cur = scope
        while cur is not None and target is None:      # nested helper of the enclosing function(s)
            target = pm.funcs.get(f"{cur.short}.<locals>.{f.id}")
            cur = cur.parent
        if target is None:
            r = pm.resolve(module, f.id)
            if r and r[0] == "func":
                target = r[1]
    elif isinstance(f, ast.Attribute) and isinstance(f.value, ast.Name):
        base = f.value.id
        if base in ("self", "cls") and cls:
            target = pm.find_method(cls, f.attr)
        else:
            r = pm.resolve(module, base)
            if r and r[0] == "class":
                target = pm.find_method(r[1].name, f.attr)
    if target is None or not isinstance(target.node, (ast.FunctionDef,)):
        return None
    return Callee(target)


class EscLoop:
    """a per-character iteration `for c in <text>` in statement or comprehension form, normalised to
    (loop variable, body statements, accumulator)"""

    SYN_ACC = "acc\0"

    def __init__(self, node, var: str, body: list, acc: str | None):
        self.node, self.var, self.body, self.acc = node, var, body, acc


def _takes_ord(pm, owner, node, var: str, frame=None, depth: int = 0) -> bool:
    """the numeric code of the character `var` is taken under `node` (ord(var), var.encode(…), var.isascii()),
    directly or in a repository helper that receives var"""
    for c in ast.walk(node):
        if not isinstance(c, ast.Call):
            continue
        if dotted(c.func) == "ord" and c.args and isinstance(c.args[0], ast.Name) and c.args[0].id == var:
            return True
        # other ways of getting at the character's code: its encoded bytes, or the ASCII test
        if isinstance(c.func, ast.Attribute) and c.func.attr in ("encode", "isascii") and isinstance(c.func.value, ast.Name) \
                and c.func.value.id == var:
            return True
        if depth < 3 and any(isinstance(a, ast.Name) and a.id == var for a in list(c.args) + [k.value for k in c.keywords]):
            callee = resolve_call(pm, owner, c, frame)
            if callee is None:
                continue
            params = [a.arg for a in list(callee.node.args.posonlyargs) + list(callee.node.args.args)]
            if callee.skip_first:
                params = params[1:]
            for i, a in enumerate(c.args):
                if isinstance(a, ast.Name) and a.id == var and i < len(params) and \
                        _takes_ord(pm, owner, callee.node, params[i], callee, depth + 1):
                    return True
            for k in c.keywords:
                if isinstance(k.value, ast.Name) and k.value.id == var and k.arg in params and \
                        _takes_ord(pm, owner, callee.node, k.arg, callee, depth + 1):
                    return True
    return False


def find_escape_loop(ctx: Ctx, cg: CallGraph):
    """the escaper, recognised by role: an iteration over the characters of a string, reachable from the
    entry point, whose body takes the code of the character (ord(), its encoded bytes, isascii(); directly or through a helper).  Statement loops
    and comprehensions / generator expressions (`''.join(f(c) for c in text)`) are both accepted."""
    pm = ctx.pm
    cands = []
    for short in sorted(cg.reachable([ENTRY])):
        fi = pm.funcs.get(short)
        if fi is None:
            continue
        for n in walk_no_nested(fi.node):
            if isinstance(n, ast.For) and isinstance(n.target, ast.Name):
                if _takes_ord(pm, fi, ast.Module(body=n.body, type_ignores=[]), n.target.id):
                    cands.append((fi, EscLoop(n, n.target.id, n.body, acc_of(n))))
            elif isinstance(n, (ast.GeneratorExp, ast.ListComp)) and len(n.generators) == 1 \
                    and isinstance(n.generators[0].target, ast.Name):
                g = n.generators[0]
                if _takes_ord(pm, fi, n.elt, g.target.id) or any(_takes_ord(pm, fi, c, g.target.id) for c in g.ifs):
                    app = ast.Expr(value=ast.Call(func=ast.Attribute(value=ast.Name(id=EscLoop.SYN_ACC, ctx=ast.Load()), attr="append", ctx=ast.Load()),
                                                  args=[n.elt], keywords=[]))
                    body: list = [app]
                    for cnd in reversed(g.ifs):
                        body = [ast.If(test=cnd, body=body, orelse=[])]
                    for b in body:
                        ast.copy_location(b, n)
                        ast.fix_missing_locations(b)
                    cands.append((fi, EscLoop(n, g.target.id, body, EscLoop.SYN_ACC)))
    if not cands:
        raise AnalysisError("no per-character escaping loop (for c in text: … ord(c) …) reachable from " + ENTRY)
    return cands


def acc_of(loop: ast.For) -> str | None:
    names = []
    for n in ast.walk(loop):
        if isinstance(n, ast.AugAssign) and isinstance(n.target, ast.Name) and isinstance(n.op, ast.Add):
            # a string accumulator: its increment mentions the loop variable, an f-string or a string literal
            if any(isinstance(x, (ast.JoinedStr,)) or (isinstance(x, ast.Name) and x.id == loop.target.id)
                   or (isinstance(x, ast.Constant) and isinstance(x.value, str)) for x in ast.walk(n.value)):
                names.append(n.target.id)
        if isinstance(n, ast.Assign) and len(n.targets) == 1 and isinstance(n.targets[0], ast.Name) and \
                isinstance(n.value, ast.BinOp) and isinstance(n.value.left, ast.Name) and n.value.left.id == n.targets[0].id \
                and isinstance(n.value.op, ast.Add):
            names.append(n.targets[0].id)
        if isinstance(n, ast.Call) and isinstance(n.func, ast.Attribute) and n.func.attr == "append" and isinstance(n.func.value, ast.Name):
            names.append(n.func.value.id)
    return max(set(names), key=names.count) if names else None


def write_encodings(ctx: Ctx) -> set:
    """R10.4: every write of RTF text names its encoding"""
    pm = ctx.pm
    encs = set()
    n = 0
    for short in ("RTFDocument.write_rtf", "RTFDocument.write_docx", "RTFDocument.write_html", "RTFDocument.write_pdf"):
        fi = pm.func(short)
        for c in walk_no_nested(fi.node):
            is_attr_open = isinstance(c, ast.Call) and isinstance(c.func, ast.Attribute) and c.func.attr == "open" and \
                c.args and isinstance(c.args[0], ast.Constant) and any(ch in str(c.args[0].value) for ch in "wax") and "b" not in str(c.args[0].value)
            if isinstance(c, ast.Call) and isinstance(c.func, ast.Attribute) and c.func.attr in ("write_text",) or is_attr_open or \
                    (isinstance(c, ast.Call) and dotted(c.func) == "open" and _mode_is_write(c)):
                n += 1
                enc = None
                for k in c.keywords:
                    if k.arg == "encoding":
                        enc = const_expr(pm, fi.module, k.value)
                if isinstance(c.func, ast.Attribute) and c.func.attr == "write_text" and len(c.args) > 1:
                    enc = const_expr(pm, fi.module, c.args[1])
                ctx.instance("R10.4", fi.where(c), f"{short}: {unparse(c.func)}(…, encoding={enc!r})")
                if enc is NOC:
                    ctx.gap("R10.4", f"{short}: the encoding argument of `{unparse(c)[:60]}` could not be evaluated to a constant")
                elif enc is None:
                    ctx.violation("R10.4", short, "write without explicit encoding", fi.where(c),
                                  f"{short}: RTF text is written without an explicit encoding (platform default decides the bytes)")
                else:
                    encs.add(str(enc).lower())
    ctx.floor("R10.4", 4)
    return encs


def _mode_is_write(c: ast.Call) -> bool:
    mode = None
    if len(c.args) > 1 and isinstance(c.args[1], ast.Constant):
        mode = c.args[1].value
    for k in c.keywords:
        if k.arg == "mode" and isinstance(k.value, ast.Constant):
            mode = k.value.value
    return isinstance(mode, str) and ("w" in mode or "a" in mode) and "b" not in mode


def r10_5(ctx: Ctx, worlds: dict) -> None:
    """the escaping step cannot be skipped: for either value of the conversion flag, everything the entry point
    returns is the output of the per-character escaper (or an empty constant).  Decided on the symbolic runs of the
    text pipeline (rules/c11.py: Sym), so guard clauses, helpers and temporaries do not matter."""
    pm = ctx.pm
    entry = pm.func(ENTRY)
    for flag in (True, False):
        sy, texts, rest = worlds[flag]
        rets = getattr(sy, "entry_returns", frozenset())
        desc = []
        for v in sorted(rets, key=str):
            ok, pv = sy.pyval(v)
            if v[0] == "esc":
                desc.append("escaper output")
            elif ok and pv in ("", None):
                desc.append(repr(pv))
            elif v[0] == "text":
                desc.append("UNESCAPED text")
                ops = "".join(" -> " + str(o[0]) for o in v[2])
                where = next((o[2] for o in v[2] if len(o) > 2 and o[2]), entry.where())
                ctx.violation("R10.5", entry.short, "returns text that skipped the escaper" + (f" ({ops.strip(' ->')})" if ops else ""), where,
                              f"with convert={flag}, {entry.short} can return the text{ops} without passing it through the per-character escaper")
            else:
                desc.append("? " + str(v)[:50])
                ctx.gap("R10.5", f"convert={flag}: {entry.short} can return a value that was not produced by the escaper in this call and could not be "
                                 f"classified ({str(v)[:80]})")
        ctx.instance("R10.5", entry.where(), f"convert={flag}: {entry.short} returns {{" + ", ".join(desc) + "}")
        if not any(v[0] == "esc" for v in rets) and not any(v[0] == "text" for v in rets):
            ctx.gap("R10.5", f"convert={flag}: the output of the per-character escaper could not be followed to the value {entry.short} returns")


def r10_1_2(ctx: Ctx, fi, loop: EscLoop, pass_ok) -> None:
    pm = ctx.pm
    where = fi.where(loop.node)
    if loop.acc is None:
        ctx.gap("R10.1", f"{fi.short}: the per-character loop at {where} has no recognisable string accumulator "
                         "(+=, acc = acc + x, list.append + join)")
        return

    def ce(node, frame=None):
        v = const_expr(pm, frame.module if frame is not None else fi.module, node)
        if v is NOC:
            raise ValueError("non-constant")
        return v

    an = I.LoopAnalyser(ce, loop.var, loop.acc, resolver=lambda c, frame: resolve_call(pm, fi, c, frame))
    try:
        paths = an.run(loop.body, ALL)
    except I.Unsupported as e:
        ctx.gap("R10.1", f"{fi.short}: the escape loop at {where} contains a construct outside the interval analysis ({e}); "
                         "its effect on code points cannot be bounded")
        return
    if an.helpers_entered:
        ctx.extra.setdefault("escape_helpers", sorted(set(an.helpers_entered)))
    pending: list = []

    def viol(rule, key, msg, strong=False):
        """a finding about code point sets is only positive evidence when every branch condition was related to
        the code point; otherwise the sets are over-approximations and the finding is reported as a gap.
        `strong` findings (character-derived text in the escape) hold on any path."""
        if an.undecided and not strong:
            pending.append(f"{key}: {msg}")
        else:
            ctx.violation(rule, fi.short, key, where, msg)

    covered = ()
    for p in paths:
        covered = I.union(covered, p.cps)
        desc = _pieces_desc(p.pieces)
        ctx.instance("R10.1", where, f"code points {I.show(p.cps)} ({I.size(p.cps)}) -> {desc}")
        if p.exits not in ("fall", "continue"):
            viol("R10.1", f"loop exit {p.exits} for {I.show(p.cps)}",
                 f"the escape loop stops ({p.exits}) at code points {I.show(p.cps)}; the rest of the text is lost")
            continue
        if not p.pieces:
            viol("R10.1", f"dropped {I.show(p.cps)}", f"code points {I.show(p.cps)} are dropped (nothing appended)")
            continue
        if p.pieces == [("char",)]:
            bad = I.minus(p.cps, pass_ok)
            if bad:
                viol("R10.1", f"pass-through {I.show(bad)}",
                     f"code points {I.show(bad)} are copied raw; under the file encoding and the \\ansi header "
                     f"only {I.show(pass_ok)} decode to themselves")
            continue
        _check_escape(ctx, fi, loop, p, viol)
    missing = I.minus(ALL, covered)
    if missing:
        viol("R10.1", f"uncovered {I.show(missing)}", f"no path handles code points {I.show(missing)}", strong=True)
    if pending:
        ctx.gap("R10.1", f"{fi.short}: branch condition(s) {an.undecided[:3]} of the escape loop could not be related to the code point; "
                         f"{len(pending)} finding(s) depend on them, e.g. {pending[0][:160]}")


def _pieces_desc(pieces) -> str:
    out = []
    for pc in pieces:
        if pc[0] == "char":
            out.append("<char>")
        elif pc[0] == "lit":
            out.append(pc[1])
        elif pc[0] == "num":
            out.append("<%s>" % (pc[1] if not isinstance(pc[1], I.Term) else pc[1].expr))
        else:
            out.append("<?%s>" % pc[1])
    return "".join(out)


def _check_escape(ctx: Ctx, fi, loop, p, viol) -> None:
    where = fi.where(loop.node)
    # tokenise pieces into  (lit, num, lit, num, …, lit)
    nums = [pc for pc in p.pieces if pc[0] == "num"]
    indep = [pc for pc in p.pieces if pc[0] == "other" and not pc[2]]
    if indep and not any(pc[0] == "char" or (pc[0] == "other" and pc[2]) for pc in p.pieces):
        ctx.gap("R10.2", f"{fi.short}: the escape for {I.show(p.cps)} contains the fragment `{indep[0][1]}` whose value "
                         "could not be evaluated (it does not depend on the character)")
        return
    if any(pc[0] in ("other", "char") for pc in p.pieces):
        bad = next(pc for pc in p.pieces if pc[0] == "char" or (pc[0] == "other" and pc[2]))
        viol("R10.2", "non-literal fallback " + (bad[1] if len(bad) > 1 else "<char>"),
                      f"escape for {I.show(p.cps)} contains a computed fragment ({bad[1] if len(bad) > 1 else 'the raw character'}) "
                      "where only the numeric escape and literal fallback characters are allowed", strong=True)
        return
    tmpl = "".join("\0" if pc[0] == "num" else pc[1] for pc in p.pieces)
    m = re.fullmatch(r"(?:\\uc(\d)\\u\0([^\\{}\0]*))+", tmpl)
    if not m:
        viol("R10.2", "escape template " + repr(tmpl),
                      f"escape for {I.show(p.cps)} is not a sequence of \\ucN\\u<int><N fallback chars>: {tmpl!r}", strong=True)
        return
    groups = re.findall(r"\\uc(\d)\\u\0([^\\{}\0]*)", tmpl)
    for k, fb in groups:
        ctx.instance("R10.2", where, f"\\uc{k} with fallback {fb!r} for {I.show(p.cps)}")
        if int(k) != len(fb):
            viol("R10.2", f"uc{k} fallback {fb!r}",
                          f"\\uc{k} declares {k} fallback character(s) but {len(fb)} follow ({fb!r})", strong=True)
        if any(ord(ch) > 126 or ord(ch) < 32 or ch.isdigit() for ch in fb):
            viol("R10.2", f"fallback {fb!r}", f"fallback {fb!r} is not plain ASCII punctuation/letters", strong=True)
    # ranges
    for pc in nums:
        r = I.rng(pc[1], p.cps)
        if r is None or r[0] < -32768 or r[1] > 32767:
            viol("R10.1", f"\\u range {r} for {I.show(p.cps)}",
                          f"escape value for code points {I.show(p.cps)} ranges over {r}, outside RTF's signed 16-bit \\u range")
    # reversibility
    if len(nums) == 1:
        v = nums[0][1]
        ok = False
        if isinstance(v, I.Lin) and v.a == 1:
            if v.b == 0:
                ok = not I.minus(p.cps, ((0, 32767),))
            elif v.b == -65536:
                ok = not I.minus(p.cps, ((32768, 65535),))
        elif isinstance(v, int) and I.size(p.cps) == 1:
            cp = p.cps[0][0]
            ok = (v % 65536) == cp
        if not ok:
            viol("R10.1", f"single escape {getattr(v, 'expr', v)} for {I.show(p.cps)}",
                          f"a single \\u escape with value {getattr(v, 'expr', v)} does not decode back to the code points {I.show(p.cps)}")
    elif len(nums) == 2:
        if I.minus(p.cps, ((0x10000, I.MAXCP),)):
            viol("R10.1", f"pair for {I.show(p.cps)}", "two escapes used for code points inside the BMP")
            return
        hi, lo = nums[0][1], nums[1][1]
        okh = _surrogate(hi, "floordiv", 0xD800)
        okl = _surrogate(lo, "mod", 0xDC00)
        if not (okh and okl):
            viol("R10.1", f"surrogates {getattr(hi, 'expr', hi)} / {getattr(lo, 'expr', lo)}",
                          "escapes for code points beyond U+FFFF are not the UTF-16 surrogate pair "
                          "(0xD800 + (cp-0x10000)//1024, 0xDC00 + (cp-0x10000)%1024, each as signed 16-bit)")
    else:
        viol("R10.1", f"{len(nums)} escapes for {I.show(p.cps)}", "unexpected number of \\u escapes per character")


def _surrogate(v, kind: str, base: int) -> bool:
    if not isinstance(v, I.Term) or v.form is None:
        return False
    const, terms = v.form
    if len(terms) != 1:
        return False
    k, div, inner = terms[0]
    if k != kind or div != 1024 or not isinstance(inner, I.Lin) or inner.a != 1:
        return False
    if kind == "floordiv":
        return inner.b == -0x10000 and const in (base - 65536,)
    return inner.b in (-0x10000, 0) and const in (base - 65536,)


def r10_3(ctx: Ctx) -> None:
    pm = ctx.pm
    it = make_interp(pm)
    total = 0
    for path in PATHS:
        fi = pm.func(path)
        _, sh = doc_shape(it, pm, path)
        esc = sorted({x.src for x in S.walk(sh) if isinstance(x, S.Txt) and x.kind == "esc"})
        raw = sorted({x.src for x in S.walk(sh) if isinstance(x, S.Txt) and x.kind in ("raw", "char")})
        total += len(esc)
        for e in esc:
            ctx.instance("R10.3", fi.where(), f"{path}: user text {e} reaches output through the escaper")
        for r in raw:
            ctx.instance("R10.3", fi.where(), f"{path}: user text {r} reaches output RAW")
            ctx.violation("R10.3", path.split(".")[-1] if False else "document", f"raw text {r}", fi.where(),
                          f"{path}: text {r} is written into the document without passing the character escaper")
        unk = S.has_unk(sh)
        if unk:
            ctx.gap("R10.3", f"{path}: {unk[0]}")
    ctx.floor("R10.3", 6)


def check(ctx: Ctx) -> None:
    pm = ctx.pm
    cg = CallGraph(pm)
    ctx.explain(
        "R10.1 interval analysis of the per-character escaping loop with ord(c) ranging over all Unicode scalar values: "
        "every path's code-point set and appended pieces are computed symbolically; pass-through sets must lie in the "
        "range that the file encoding and \\ansi decode identically; \\u values must lie in [-32768,32767] and be the "
        "signed-16 image (BMP) or the UTF-16 surrogate pair (beyond BMP). R10.2 escape template \\ucN\\u<int> + N literal "
        "fallback chars. R10.3 taint over the document shapes of all three encode paths: no raw user text atom. "
        "R10.4 explicit encodings at the four writers. R10.5 symbolic run of the text pipeline for convert=True and convert=False: every value the escaper entry point returns is escaper output (or an empty constant).")
    ctx.assume("RTF readers decode bytes < 0x80 identically under \\ansi; \\uN with \\uc1 skips one fallback character")
    ctx.assume("interval analysis: the character is symbolic (all Unicode scalar values, partitioned by the loop's own comparisons); helpers "
               "called from the loop are analysed in place; a condition that cannot be related to the code point is followed on both sides "
               "for the whole set and findings about code point sets are then reported as gaps; unsupported statements are gaps")
    ctx.undecided("behaviour of third-party RTF readers; text that the user supplies as raw RTF fragments (input restriction)")
    encs = write_encodings(ctx)
    pass_ok = ((0, I.MAXCP),)
    for e in encs:
        if e not in PASS_OK:
            ctx.violation("R10.4", "write encoding", e, pm.func("RTFDocument.write_rtf").where(),
                          f"file encoding {e!r}: no pass-through range is known to be invariant under it with an \\ansi header")
            pass_ok = ()
        else:
            pass_ok = I.inter(pass_ok, PASS_OK[e])
    loops = find_escape_loop(ctx, cg)
    if len(loops) > 1:
        ctx.extra["escape_loops"] = [f.short for f, _ in loops]
    for fi, loop in loops:
        r10_1_2(ctx, fi, loop, pass_ok)
    ctx.floor("R10.1", 2)
    r10_3(ctx)
    # characters may only be rewritten by the documented passes before they reach the escaper (rule shared with C11)
    from .c11 import r11_4
    worlds = r11_4(ctx)
    r10_5(ctx, worlds)
