"""C10 - every Unicode character reaches the reader intact.

R10.1 interval analysis of the escaper loop over all code points; R10.2 literal shape of the escape
(\\ucN + N literal fallback characters); R10.3 taint: no user text reaches the document shape
without passing the escaper; R10.4 files are written with an explicit encoding under which the
pass-through range is invariant; R10.5 the escaper runs unconditionally (not gated by the
conversion flag).
"""
from __future__ import annotations

import ast
import re

from .. import interval as I
from .. import shapes as S
from ..callgraph import CallGraph
from ..consteval import const_expr
from ..absint import NOC
from ..docshape import PATHS, doc_shape, make_interp
from ..pm import AnalysisError, dotted, unparse, walk_no_nested
from ..report import Ctx

ENTRY = "TextContent._convert_special_chars"
SURR = ((0xD800, 0xDFFF),)
ALL = I.minus(((0, I.MAXCP),), SURR)
PASS_OK = {"utf-8": ((0, 127),), "utf8": ((0, 127),), "ascii": ((0, 127),), "us-ascii": ((0, 127),),
           "cp1252": ((0, 255),), "windows-1252": ((0, 255),)}


def find_escape_loop(ctx: Ctx, cg: CallGraph):
    pm = ctx.pm
    cands = []
    for short in sorted(cg.reachable([ENTRY])):
        fi = pm.funcs.get(short)
        if fi is None:
            continue
        for n in walk_no_nested(fi.node):
            if isinstance(n, ast.For) and isinstance(n.target, ast.Name):
                tv = n.target.id
                if any(isinstance(c, ast.Call) and dotted(c.func) == "ord" and c.args and isinstance(c.args[0], ast.Name)
                       and c.args[0].id == tv for c in ast.walk(n)):
                    cands.append((fi, n))
    if not cands:
        raise AnalysisError("no per-character escaping loop (for c in text: … ord(c) …) reachable from " + ENTRY)
    return cands


def acc_of(loop: ast.For) -> str | None:
    names = []
    for n in ast.walk(loop):
        if isinstance(n, ast.AugAssign) and isinstance(n.target, ast.Name) and isinstance(n.op, ast.Add):
            # a string accumulator: its increment mentions the loop variable or an f-string
            if any(isinstance(x, (ast.JoinedStr,)) or (isinstance(x, ast.Name) and x.id == loop.target.id) for x in ast.walk(n.value)):
                names.append(n.target.id)
        if isinstance(n, ast.Assign) and len(n.targets) == 1 and isinstance(n.targets[0], ast.Name) and \
                isinstance(n.value, ast.BinOp) and isinstance(n.value.left, ast.Name) and n.value.left.id == n.targets[0].id \
                and isinstance(n.value.op, ast.Add):
            names.append(n.targets[0].id)
        if isinstance(n, ast.Call) and isinstance(n.func, ast.Attribute) and n.func.attr == "append" and isinstance(n.func.value, ast.Name):
            names.append(n.func.value.id)
    return max(set(names), key=names.count) if names else None


def write_encodings(ctx: Ctx) -> set:
    """R10.4: every write of RTF text names its encoding"""
    pm = ctx.pm
    encs = set()
    n = 0
    for short in ("RTFDocument.write_rtf", "RTFDocument.write_docx", "RTFDocument.write_html", "RTFDocument.write_pdf"):
        fi = pm.func(short)
        for c in walk_no_nested(fi.node):
            is_attr_open = isinstance(c, ast.Call) and isinstance(c.func, ast.Attribute) and c.func.attr == "open" and \
                c.args and isinstance(c.args[0], ast.Constant) and any(ch in str(c.args[0].value) for ch in "wax") and "b" not in str(c.args[0].value)
            if isinstance(c, ast.Call) and isinstance(c.func, ast.Attribute) and c.func.attr in ("write_text",) or is_attr_open or \
                    (isinstance(c, ast.Call) and dotted(c.func) == "open" and _mode_is_write(c)):
                n += 1
                enc = None
                for k in c.keywords:
                    if k.arg == "encoding":
                        enc = const_expr(pm, fi.module, k.value)
                if isinstance(c.func, ast.Attribute) and c.func.attr == "write_text" and len(c.args) > 1:
                    enc = const_expr(pm, fi.module, c.args[1])
                ctx.instance("R10.4", fi.where(c), f"{short}: {unparse(c.func)}(…, encoding={enc!r})")
                if enc is None or enc is NOC:
                    ctx.violation("R10.4", short, "write without explicit encoding", fi.where(c),
                                  f"{short}: RTF text is written without an explicit encoding (platform default decides the bytes)")
                else:
                    encs.add(str(enc).lower())
    ctx.floor("R10.4", 4)
    return encs


def _mode_is_write(c: ast.Call) -> bool:
    mode = None
    if len(c.args) > 1 and isinstance(c.args[1], ast.Constant):
        mode = c.args[1].value
    for k in c.keywords:
        if k.arg == "mode" and isinstance(k.value, ast.Constant):
            mode = k.value.value
    return isinstance(mode, str) and ("w" in mode or "a" in mode) and "b" not in mode


def r10_5(ctx: Ctx, cg, fi, loop) -> None:
    """the escape loop is executed on every path that returns text"""
    pm = ctx.pm
    entry = pm.func(ENTRY)

    def unconditional(fn, node) -> str | None:
        # node must be a top-level statement (or inside a `with`/`try` body) of fn
        child = node
        p = getattr(node, "_parent", None)
        while p is not None and p is not fn:
            if isinstance(p, (ast.If, ast.For, ast.While, ast.IfExp, ast.BoolOp)):
                return f"nested in `{unparse(p.test) if hasattr(p, 'test') else type(p).__name__}`"
            if isinstance(p, ast.ExceptHandler):
                return "inside an exception handler"
            child = p
            p = getattr(p, "_parent", None)
        # early returns before it must return a literal
        for s in fn.body:
            if s is child or any(x is node for x in ast.walk(s)):
                break
            for r in ast.walk(s):
                if isinstance(r, ast.Return) and r.value is not None and not isinstance(r.value, ast.Constant):
                    return f"early `return {unparse(r.value)}` before the escaping step"
        return None

    # chain of calls entry -> … -> function holding the loop (shortest, by the call graph)
    chain = _call_chain(cg, ENTRY, fi.short)
    if chain is None:
        ctx.violation("R10.5", ENTRY, f"no call path to {fi.short}", entry.where(), f"{ENTRY} does not reach the escaping loop in {fi.short}")
        return
    problems = []
    for caller_short, callnode in chain:
        caller = pm.funcs[caller_short]
        why = unconditional(caller.node, callnode)
        if why:
            problems.append((caller, callnode, why))
    why = unconditional(fi.node, loop)
    if why:
        problems.append((fi, loop, why))
    ctx.instance("R10.5", fi.where(loop), f"escape loop in {fi.short}, reached via {[c for c, _ in chain] or 'entry'}: "
                 + ("unconditional" if not problems else problems[0][2]))
    for f2, node, why in problems:
        ctx.violation("R10.5", f2.short, why, f2.where(node), f"the escaping step can be skipped in {f2.short}: {why}")


def _call_chain(cg, src: str, dst: str):
    if src == dst:
        return []
    from collections import deque
    prev = {src: None}
    dq = deque([src])
    while dq:
        x = dq.popleft()
        for callnode, cands in cg.sites.get(x, []):
            for c in cands:
                if c.short not in prev:
                    prev[c.short] = (x, callnode)
                    dq.append(c.short)
    if dst not in prev:
        return None
    out = []
    cur = dst
    while prev[cur] is not None:
        x, callnode = prev[cur]
        out.append((x, callnode))
        cur = x
    return list(reversed(out))


def r10_1_2(ctx: Ctx, fi, loop: ast.For, pass_ok) -> None:
    pm = ctx.pm
    acc = acc_of(loop)
    if acc is None:
        ctx.violation("R10.1", fi.short, "no string accumulator", fi.where(loop), "escape loop does not build its result by appending")
        return

    def ce(node):
        v = const_expr(pm, fi.module, node)
        if v is NOC:
            raise ValueError("non-constant")
        return v

    an = I.LoopAnalyser(ce, loop.target.id, acc)
    try:
        paths = an.run(loop.body, ALL)
    except I.Unsupported as e:
        ctx.violation("R10.1", fi.short, "unanalysable: " + str(e), fi.where(loop),
                      f"escape loop contains a construct outside the interval analysis ({e}); its effect on code points cannot be bounded")
        return
    covered = ()
    for p in paths:
        covered = I.union(covered, p.cps)
        desc = _pieces_desc(p.pieces)
        ctx.instance("R10.1", fi.where(loop), f"code points {I.show(p.cps)} ({I.size(p.cps)}) -> {desc}")
        if p.exits not in ("fall", "continue"):
            ctx.violation("R10.1", fi.short, f"loop exit {p.exits} for {I.show(p.cps)}", fi.where(loop),
                          f"the escape loop stops ({p.exits}) at code points {I.show(p.cps)}; the rest of the text is lost")
            continue
        if not p.pieces:
            ctx.violation("R10.1", fi.short, f"dropped {I.show(p.cps)}", fi.where(loop),
                          f"code points {I.show(p.cps)} are dropped (nothing appended)")
            continue
        if p.pieces == [("char",)]:
            bad = I.minus(p.cps, pass_ok)
            if bad:
                ctx.violation("R10.1", fi.short, f"pass-through {I.show(bad)}", fi.where(loop),
                              f"code points {I.show(bad)} are copied raw; under the file encoding and the \\ansi header "
                              f"only {I.show(pass_ok)} decode to themselves")
            continue
        _check_escape(ctx, fi, loop, p)
    missing = I.minus(ALL, covered)
    if missing:
        ctx.violation("R10.1", fi.short, f"uncovered {I.show(missing)}", fi.where(loop), f"no path handles code points {I.show(missing)}")


def _pieces_desc(pieces) -> str:
    out = []
    for pc in pieces:
        if pc[0] == "char":
            out.append("<char>")
        elif pc[0] == "lit":
            out.append(pc[1])
        elif pc[0] == "num":
            out.append("<%s>" % (pc[1] if not isinstance(pc[1], I.Term) else pc[1].expr))
        else:
            out.append("<?%s>" % pc[1])
    return "".join(out)


def _check_escape(ctx: Ctx, fi, loop, p) -> None:
    where = fi.where(loop)
    # tokenise pieces into  (lit, num, lit, num, …, lit)
    nums = [pc for pc in p.pieces if pc[0] == "num"]
    if any(pc[0] in ("other", "char") for pc in p.pieces):
        bad = next(pc for pc in p.pieces if pc[0] in ("other", "char"))
        ctx.violation("R10.2", fi.short, "non-literal fallback " + (bad[1] if len(bad) > 1 else "<char>"), where,
                      f"escape for {I.show(p.cps)} contains a computed fragment ({bad[1] if len(bad) > 1 else 'the raw character'}) "
                      "where only the numeric escape and literal fallback characters are allowed")
        return
    tmpl = "".join("\0" if pc[0] == "num" else pc[1] for pc in p.pieces)
    m = re.fullmatch(r"(?:\\uc(\d)\\u\0([^\\{}\0]*))+", tmpl)
    if not m:
        ctx.violation("R10.2", fi.short, "escape template " + repr(tmpl), where,
                      f"escape for {I.show(p.cps)} is not a sequence of \\ucN\\u<int><N fallback chars>: {tmpl!r}")
        return
    groups = re.findall(r"\\uc(\d)\\u\0([^\\{}\0]*)", tmpl)
    for k, fb in groups:
        ctx.instance("R10.2", where, f"\\uc{k} with fallback {fb!r} for {I.show(p.cps)}")
        if int(k) != len(fb):
            ctx.violation("R10.2", fi.short, f"uc{k} fallback {fb!r}", where,
                          f"\\uc{k} declares {k} fallback character(s) but {len(fb)} follow ({fb!r})")
        if any(ord(ch) > 126 or ord(ch) < 32 or ch.isdigit() for ch in fb):
            ctx.violation("R10.2", fi.short, f"fallback {fb!r}", where, f"fallback {fb!r} is not plain ASCII punctuation/letters")
    # ranges
    for pc in nums:
        r = I.rng(pc[1], p.cps)
        if r is None or r[0] < -32768 or r[1] > 32767:
            ctx.violation("R10.1", fi.short, f"\\u range {r} for {I.show(p.cps)}", where,
                          f"escape value for code points {I.show(p.cps)} ranges over {r}, outside RTF's signed 16-bit \\u range")
    # reversibility
    if len(nums) == 1:
        v = nums[0][1]
        ok = False
        if isinstance(v, I.Lin) and v.a == 1:
            if v.b == 0:
                ok = not I.minus(p.cps, ((0, 32767),))
            elif v.b == -65536:
                ok = not I.minus(p.cps, ((32768, 65535),))
        elif isinstance(v, int) and I.size(p.cps) == 1:
            cp = p.cps[0][0]
            ok = (v % 65536) == cp
        if not ok:
            ctx.violation("R10.1", fi.short, f"single escape {getattr(v, 'expr', v)} for {I.show(p.cps)}", where,
                          f"a single \\u escape with value {getattr(v, 'expr', v)} does not decode back to the code points {I.show(p.cps)}")
    elif len(nums) == 2:
        if I.minus(p.cps, ((0x10000, I.MAXCP),)):
            ctx.violation("R10.1", fi.short, f"pair for {I.show(p.cps)}", where, "two escapes used for code points inside the BMP")
            return
        hi, lo = nums[0][1], nums[1][1]
        okh = _surrogate(hi, "floordiv", 0xD800)
        okl = _surrogate(lo, "mod", 0xDC00)
        if not (okh and okl):
            ctx.violation("R10.1", fi.short, f"surrogates {getattr(hi, 'expr', hi)} / {getattr(lo, 'expr', lo)}", where,
                          "escapes for code points beyond U+FFFF are not the UTF-16 surrogate pair "
                          "(0xD800 + (cp-0x10000)//1024, 0xDC00 + (cp-0x10000)%1024, each as signed 16-bit)")
    else:
        ctx.violation("R10.1", fi.short, f"{len(nums)} escapes for {I.show(p.cps)}", where, "unexpected number of \\u escapes per character")


def _surrogate(v, kind: str, base: int) -> bool:
    if not isinstance(v, I.Term) or v.form is None:
        return False
    const, terms = v.form
    if len(terms) != 1:
        return False
    k, div, inner = terms[0]
    if k != kind or div != 1024 or not isinstance(inner, I.Lin) or inner.a != 1:
        return False
    if kind == "floordiv":
        return inner.b == -0x10000 and const in (base - 65536,)
    return inner.b in (-0x10000, 0) and const in (base - 65536,)


def r10_3(ctx: Ctx) -> None:
    pm = ctx.pm
    it = make_interp(pm)
    total = 0
    for path in PATHS:
        fi = pm.func(path)
        _, sh = doc_shape(it, pm, path)
        esc = sorted({x.src for x in S.walk(sh) if isinstance(x, S.Txt) and x.kind == "esc"})
        raw = sorted({x.src for x in S.walk(sh) if isinstance(x, S.Txt) and x.kind in ("raw", "char")})
        total += len(esc)
        for e in esc:
            ctx.instance("R10.3", fi.where(), f"{path}: user text {e} reaches output through the escaper")
        for r in raw:
            ctx.instance("R10.3", fi.where(), f"{path}: user text {r} reaches output RAW")
            ctx.violation("R10.3", path.split(".")[-1] if False else "document", f"raw text {r}", fi.where(),
                          f"{path}: text {r} is written into the document without passing the character escaper")
        unk = S.has_unk(sh)
        if unk:
            ctx.gap("R10.3", f"{path}: {unk[0]}")
    ctx.floor("R10.3", 6)


def check(ctx: Ctx) -> None:
    pm = ctx.pm
    cg = CallGraph(pm)
    ctx.explain(
        "R10.1 interval analysis of the per-character escaping loop with ord(c) ranging over all Unicode scalar values: "
        "every path's code-point set and appended pieces are computed symbolically; pass-through sets must lie in the "
        "range that the file encoding and \\ansi decode identically; \\u values must lie in [-32768,32767] and be the "
        "signed-16 image (BMP) or the UTF-16 surrogate pair (beyond BMP). R10.2 escape template \\ucN\\u<int> + N literal "
        "fallback chars. R10.3 taint over the document shapes of all three encode paths: no raw user text atom. "
        "R10.4 explicit encodings at the four writers. R10.5 the escaping step is not control-dependent on the conversion flag.")
    ctx.assume("RTF readers decode bytes < 0x80 identically under \\ansi; \\uN with \\uc1 skips one fallback character")
    ctx.undecided("behaviour of third-party RTF readers; text that the user supplies as raw RTF fragments (input restriction)")
    encs = write_encodings(ctx)
    pass_ok = ((0, I.MAXCP),)
    for e in encs:
        if e not in PASS_OK:
            ctx.violation("R10.4", "write encoding", e, pm.func("RTFDocument.write_rtf").where(),
                          f"file encoding {e!r}: no pass-through range is known to be invariant under it with an \\ansi header")
            pass_ok = ()
        else:
            pass_ok = I.inter(pass_ok, PASS_OK[e])
    loops = find_escape_loop(ctx, cg)
    if len(loops) > 1:
        ctx.extra["escape_loops"] = [f.short for f, _ in loops]
    for fi, loop in loops:
        r10_5(ctx, cg, fi, loop)
        r10_1_2(ctx, fi, loop, pass_ok)
    ctx.floor("R10.1", 2)
    r10_3(ctx)
    # characters may only be rewritten by the documented passes before they reach the escaper (rule shared with C11)
    from .c11 import r11_4
    r11_4(ctx)
